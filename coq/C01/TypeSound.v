(* C01/TypeSound.v -- type soundness of the reference evaluator: a program accepted by
   Typing.wt_prog never gets stuck, and every value it produces has the shape of its type.
   This is a theorem about the reference semantics only. *)
From C01 Require Import Ref Typing.
Open Scope Z_scope.

(* ---------------------------------------------------------------------------------------- *)
(* induction on types through the nested lists                                               *)
Section TyInd.
  Variable Q : ty -> Prop.
  Hypothesis HInt : forall i, Q (TInt i).
  Hypothesis HFelt : Q TFelt.
  Hypothesis HBool : Q TBool.
  Hypothesis HTup : forall ts, Forall Q ts -> Q (TTup ts).
  Hypothesis HEnum : forall ts, Forall Q ts -> Q (TEnum ts).
  Hypothesis HArr : forall t, Q t -> Q (TArr t).
  Hypothesis HSnap : forall t, Q t -> Q (TSnap t).
  Hypothesis HBox : forall t, Q t -> Q (TBox t).
  Fixpoint ty_ind' (t : ty) : Q t :=
    match t with
    | TInt i => HInt i
    | TFelt => HFelt
    | TBool => HBool
    | TTup ts => HTup ts ((fix go (ts : list ty) : Forall Q ts :=
                             match ts with
                             | [] => Forall_nil Q
                             | x :: r => Forall_cons x (ty_ind' x) (go r)
                             end) ts)
    | TEnum ts => HEnum ts ((fix go (ts : list ty) : Forall Q ts :=
                               match ts with
                               | [] => Forall_nil Q
                               | x :: r => Forall_cons x (ty_ind' x) (go r)
                               end) ts)
    | TArr t => HArr t (ty_ind' t)
    | TSnap t => HSnap t (ty_ind' t)
    | TBox t => HBox t (ty_ind' t)
    end.
End TyInd.

Lemma ity_eqb_eq i j : ity_eqb i j = true -> i = j.
Proof. destruct i, j; cbn; intros H; try reflexivity; discriminate. Qed.

Lemma ty_list_eqb_eq xs :
  Forall (fun a => forall b, ty_eqb a b = true -> a = b) xs ->
  forall ys,
  (fix go (xs ys : list ty) : bool :=
     match xs, ys with
     | [], [] => true
     | x :: xs', y :: ys' => ty_eqb x y && go xs' ys'
     | _, _ => false
     end) xs ys = true -> xs = ys.
Proof.
  induction 1 as [|x xs Hx _ IH]; intros [|y ys] H; try discriminate; [reflexivity|].
  apply andb_true_iff in H. destruct H as [H1 H2].
  rewrite (Hx _ H1), (IH _ H2). reflexivity.
Qed.

Lemma ty_eqb_eq : forall a b, ty_eqb a b = true -> a = b.
Proof.
  induction a using ty_ind'; intros b Hb; destruct b; cbn in Hb; try discriminate.
  - rewrite (ity_eqb_eq _ _ Hb). reflexivity.
  - reflexivity.
  - reflexivity.
  - rewrite (ty_list_eqb_eq _ H _ Hb). reflexivity.
  - rewrite (ty_list_eqb_eq _ H _ Hb). reflexivity.
  - rewrite (IHa _ Hb). reflexivity.
  - rewrite (IHa _ Hb). reflexivity.
  - rewrite (IHa _ Hb). reflexivity.
Qed.

(* ---------------------------------------------------------------------------------------- *)
(* value typing, unfolded                                                                    *)
Lemma vtb_tup ts : forall vs,
  vtb (TTup ts) (VTup vs) = true <-> Forall2 (fun t v => vtb t v = true) ts vs.
Proof.
  induction ts as [|t ts IH]; intros [|v vs]; cbn; split; intros H; try discriminate;
    try (inversion H; fail); try constructor.
  - apply andb_true_iff in H. tauto.
  - apply andb_true_iff in H. apply IH. tauto.
  - inversion H; subst. apply andb_true_iff. split; [assumption|]. apply IH. assumption.
Qed.

Lemma vtb_enum vts : forall idx pv,
  vtb (TEnum vts) (VEnum idx pv) = true <-> exists t, nth_error vts idx = Some t /\ vtb t pv = true.
Proof.
  induction vts as [|t vts IH]; intros idx pv; cbn.
  - split; [discriminate|]. intros [t [H _]]. destruct idx; discriminate.
  - destruct idx as [|k]; cbn.
    + split; [intros H; exists t; auto|]. intros [t' [E H]]. inversion E; subst. exact H.
    + apply IH.
Qed.

Lemma vtb_arr t l : vtb (TArr t) (VArr l) = true <-> Forall (fun v => vtb t v = true) l.
Proof.
  induction l as [|v l IH]; cbn; split; intros H; try constructor.
  - apply andb_true_iff in H. tauto.
  - apply andb_true_iff in H. apply IH. tauto.
  - inversion H; subst. apply andb_true_iff. split; [assumption|]. apply IH. assumption.
Qed.

Lemma vtb_int_inv i v : vtb (TInt i) v = true -> exists z, v = VInt z.
Proof. destruct v; cbn; try discriminate. eauto. Qed.
Lemma vtb_felt_inv v : vtb TFelt v = true -> exists z, v = VInt z.
Proof. destruct v; cbn; try discriminate. eauto. Qed.
Lemma vtb_bool_inv v : vtb TBool v = true -> exists b, v = VBool b.
Proof. destruct v; cbn; try discriminate. eauto. Qed.
Lemma vtb_tup_inv ts v : vtb (TTup ts) v = true -> exists vs, v = VTup vs.
Proof. destruct v; cbn; try discriminate. eauto. Qed.
Lemma vtb_enum_inv ts v : vtb (TEnum ts) v = true -> exists i pv, v = VEnum i pv.
Proof. destruct v; cbn; try discriminate. eauto. Qed.
Lemma vtb_arr_inv t v : vtb (TArr t) v = true -> exists l, v = VArr l.
Proof. destruct v; cbn; try discriminate. eauto. Qed.

Lemma vtb_unit : vtb TUnit VUnit = true.
Proof. reflexivity. Qed.

(* ---------------------------------------------------------------------------------------- *)
(* environments                                                                              *)
Definition env_ok (G : ctx) (s : env) : Prop :=
  Forall2 (fun gt sv => fst gt = fst sv /\ vtb (snd gt) (snd sv) = true) G s.

Lemma lookup_ok G : forall s x t,
  env_ok G s -> lookupT x G = Some t -> exists v, lookup x s = Some v /\ vtb t v = true.
Proof.
  induction G as [|[y ty] G IH]; intros s x t Hs Hl; inversion Hs as [|? [y' v] ? ? [E V] Hs']; subst;
    cbn in *; [discriminate|]. subst y'.
  destruct (Nat.eqb x y).
  - inversion Hl; subst. eauto.
  - eapply IH; eauto.
Qed.

Lemma update_ok G : forall s x t v,
  env_ok G s -> lookupT x G = Some t -> vtb t v = true ->
  exists s', update x v s = Some s' /\ env_ok G s'.
Proof.
  induction G as [|[y ty] G IH]; intros s x t v Hs Hl Hv; inversion Hs as [|? [y' w] ? ? [E V] Hs']; subst;
    cbn in *; [discriminate|]. subst y'.
  destruct (Nat.eqb x y).
  - inversion Hl; subst. eexists. split; [reflexivity|]. constructor; [split; auto|assumption].
  - destruct (IH _ _ _ _ Hs' Hl Hv) as [s1 [E1 H1]]. rewrite E1. eexists. split; [reflexivity|].
    constructor; [split; auto|assumption].
Qed.

Lemma env_ok_push G s x t v : env_ok G s -> vtb t v = true -> env_ok ((x, t) :: G) ((x, v) :: s).
Proof. intros H V. constructor; [split; auto|assumption]. Qed.

Lemma env_ok_pop a G s : env_ok (a :: G) s -> env_ok G (tl s).
Proof. intros H. inversion H; subst. assumption. Qed.

(* ---------------------------------------------------------------------------------------- *)
(* results                                                                                   *)
Definition res_ok (R : ty) (L : option ty) (t : ty) (r : res) : Prop :=
  match r with
  | RVal v => vtb t v = true
  | RBrk v => match L with Some bt => vtb bt v = true | None => False end
  | RCont => L <> None
  | RRet v => vtb R v = true
  | RPanic _ => True
  | RFuel => True
  | RStuck => False
  end.

Definition not_val (r : res) : Prop := match r with RVal _ => False | _ => True end.

Lemma res_ok_retype R L t t' r : res_ok R L t r -> not_val r -> res_ok R L t' r.
Proof. destruct r; cbn; auto; contradiction. Qed.

(* primitive operations on well-shaped operands are never stuck and give well-shaped results *)
Lemma binop_sound o t t' a b :
  binop_ty o t = Some t' -> vtb t a = true -> vtb t b = true ->
  match binop_sem o t a b with
  | OVal v => vtb t' v = true
  | OPanic _ => True
  | OStuck => False
  end.
Proof.
  intros Ht Ha Hb. destruct t; cbn in Ht; try discriminate.
  - destruct (vtb_int_inv _ _ Ha) as [x ->]. destruct (vtb_int_inv _ _ Hb) as [y ->].
    cbn [binop_sem]. unfold int_arith, panic_str.
    destruct (isigned i) eqn:Hs; destruct o; inversion Ht; subst; clear Ht; cbn [andb];
      repeat match goal with
        | |- context [if ?c then _ else _] => destruct c
        end; cbn; auto.
  - destruct (vtb_felt_inv _ Ha) as [x ->]. destruct (vtb_felt_inv _ Hb) as [y ->].
    cbn [binop_sem]. destruct o; inversion Ht; subst; cbn; auto.
  - destruct (vtb_bool_inv _ Ha) as [x ->]. destruct (vtb_bool_inv _ Hb) as [y ->].
    cbn [binop_sem]. destruct o; inversion Ht; subst; cbn; auto.
  - destruct (vtb_tup_inv _ _ Ha) as [x ->]. destruct (vtb_tup_inv _ _ Hb) as [y ->].
    cbn [binop_sem]. destruct o; inversion Ht; subst; cbn; auto.
  - destruct (vtb_enum_inv _ _ Ha) as [i [x ->]]. destruct (vtb_enum_inv _ _ Hb) as [j [y ->]].
    cbn [binop_sem]. destruct o; inversion Ht; subst; cbn; auto.
Qed.

Lemma unop_sound o t t' a :
  unop_ty o t = Some t' -> vtb t a = true ->
  match unop_sem o t a with
  | OVal v => vtb t' v = true
  | OPanic _ => True
  | OStuck => False
  end.
Proof.
  intros Ht Ha. destruct o, t; cbn in Ht; try discriminate.
  - destruct (vtb_int_inv _ _ Ha) as [x ->]. cbn. destruct (isigned i); [|discriminate].
    inversion Ht; subst. unfold panic_str. destruct (x =? imin i); cbn; auto.
  - destruct (vtb_felt_inv _ Ha) as [x ->]. inversion Ht; subst. cbn. auto.
  - destruct (vtb_bool_inv _ Ha) as [x ->]. inversion Ht; subst. cbn. auto.
  - destruct (vtb_int_inv _ _ Ha) as [x ->]. cbn. destruct (isigned i); [discriminate|].
    inversion Ht; subst. cbn. auto.
Qed.

Lemma cast_sound k from to t' a :
  cast_ty k from to = Some t' -> vtb from a = true ->
  match cast_sem k from to a with
  | OVal v => vtb t' v = true
  | OPanic _ => True
  | OStuck => False
  end.
Proof.
  intros Ht Ha. destruct k, from, to; cbn in Ht; try discriminate.
  - destruct (vtb_int_inv _ _ Ha) as [x ->]. cbn.
    destruct ((imin i0 <=? imin i) && (imax i <=? imax i0)); [|discriminate].
    inversion Ht; subst. cbn. auto.
  - destruct (vtb_int_inv _ _ Ha) as [x ->]. inversion Ht; subst. cbn. auto.
  - destruct (vtb_bool_inv _ Ha) as [x ->]. inversion Ht; subst. cbn. auto.
  - destruct (vtb_int_inv _ _ Ha) as [x ->]. inversion Ht; subst. cbn.
    destruct (in_range i0 x); reflexivity.
  - destruct (vtb_felt_inv _ Ha) as [x ->]. inversion Ht; subst. cbn.
    destruct (in_range i (felt_signed x)); reflexivity.
Qed.

(* ---------------------------------------------------------------------------------------- *)
(* the induction step, construct by construct                                                *)
Lemma bindv_inv x k r s' :
  bindv x k = (r, s') ->
  (exists v s1, x = (RVal v, s1) /\ k v s1 = (r, s')) \/ (x = (r, s') /\ not_val r).
Proof.
  destruct x as [r1 s1]. destruct r1; cbn; intros H; try (right; inversion H; subst; split; [reflexivity|exact I]).
  left. eauto.
Qed.

Lemma of_opres_sound R L G t o s r s' :
  env_ok G s ->
  match o with OVal v => vtb t v = true | OPanic _ => True | OStuck => False end ->
  of_opres o s = (r, s') -> env_ok G s' /\ res_ok R L t r.
Proof.
  intros Hs Ho H. destruct o; cbn in H; inversion H; subst; cbn; try contradiction; auto.
Qed.

Section Sound.
  Variable p : prog.
  Hypothesis Hp : wt_prog p = true.

  Definition sound_at (n : nat) : Prop := forall R L G e t s r s',
    tc (sigs p) R L G e = Some t -> env_ok G s -> eval p n s e = (r, s') ->
    env_ok G s' /\ res_ok R L t r.

  Variable n : nat.
  Hypothesis IH : sound_at n.

  Lemma bind_sound R L G e1 t1 s k r s' t :
    tc (sigs p) R L G e1 = Some t1 -> env_ok G s -> bindv (eval p n s e1) k = (r, s') ->
    (forall v s1, vtb t1 v = true -> env_ok G s1 -> k v s1 = (r, s') -> env_ok G s' /\ res_ok R L t r) ->
    env_ok G s' /\ res_ok R L t r.
  Proof.
    intros T1 Hs H K. destruct (bindv_inv _ _ _ _ H) as [[v [s1 [E Kv]]] | [E NV]].
    - destruct (IH _ _ _ _ _ _ _ _ T1 Hs E) as [Hs1 Hv]. eapply K; eauto.
    - destruct (IH _ _ _ _ _ _ _ _ T1 Hs E) as [Hs1 Hr]. split; [assumption|].
      eapply res_ok_retype; eauto.
  Qed.

  (* list of expressions (tuple literal) *)
  Definition tc_list R L G : list expr -> option (list ty) :=
    fix go (es : list expr) : option (list ty) :=
      match es with
      | [] => Some []
      | e1 :: r =>
          match tc (sigs p) R L G e1, go r with
          | Some t, Some ts => Some (t :: ts)
          | _, _ => None
          end
      end.

  Lemma eval_list_sound R L G : forall es ts s l s',
    tc_list R L G es = Some ts -> env_ok G s -> eval_list (eval p n) s es = (l, s') ->
    env_ok G s' /\
    match l with
    | LOk vs => Forall2 (fun t v => vtb t v = true) ts vs
    | LErr r => res_ok R L TUnit r /\ not_val r
    end.
  Proof.
    induction es as [|e es IHes]; intros ts s l s' T Hs H; cbn in T, H.
    - inversion T; inversion H; subst. split; [assumption|constructor].
    - destruct (tc (sigs p) R L G e) as [t1|] eqn:T1; [|discriminate].
      destruct (tc_list R L G es) as [ts1|] eqn:T2; [|discriminate]. inversion T; subst.
      destruct (eval p n s e) as [r1 s1] eqn:E1.
      destruct (IH _ _ _ _ _ _ _ _ T1 Hs E1) as [Hs1 Hr1].
      destruct r1; try (inversion H; subst; split; [assumption|split; [exact Hr1|exact I]]).
      destruct (eval_list (eval p n) s1 es) as [l2 s2] eqn:E2.
      destruct (IHes _ _ _ _ eq_refl Hs1 E2) as [Hs2 Hl2].
      destruct l2; inversion H; subst; (split; [assumption|]); [constructor; assumption|assumption].
  Qed.

  (* ---------- the simple constructs ---------- *)
  Ltac start := intros R L G t s r s' T Hs H; cbn [tc] in T; cbn [eval] in H.
  Tactic Notation "tcase" constr(x) "as" ident(N) := destruct x eqn:N; try discriminate.
  Ltac teq H := apply ty_eqb_eq in H; subst.
  Ltac fin := match goal with H : (_, _) = (_, _) |- _ => inversion H; subst; clear H end; split; cbn; auto.
  (* [bind T1]: the hypothesis is [bindv (eval p n s e1) k = (r, s')] and [T1] types e1 *)
  Ltac bind T1 :=
    match goal with
    | H : bindv (eval _ _ ?s ?e) ?k = (?r, ?s') |- env_ok ?G _ /\ res_ok ?R ?L ?t _ =>
        eapply (bind_sound R L G e _ s k r s' t T1); [eassumption | exact H | clear H]
    end.

  Lemma case_ELit ty0 z : forall R L G t s r s',
    tc (sigs p) R L G (ELit ty0 z) = Some t -> env_ok G s -> eval p (S n) s (ELit ty0 z) = (r, s') ->
    env_ok G s' /\ res_ok R L t r.
  Proof.
    start. tcase (lit_ok ty0) as E. inversion T; subst. fin. destruct t; cbn in *; auto; discriminate.
  Qed.

  Lemma case_EBool b : forall R L G t s r s',
    tc (sigs p) R L G (EBool b) = Some t -> env_ok G s -> eval p (S n) s (EBool b) = (r, s') ->
    env_ok G s' /\ res_ok R L t r.
  Proof. start. inversion T; subst. fin. Qed.

  Lemma case_EVar x : forall R L G t s r s',
    tc (sigs p) R L G (EVar x) = Some t -> env_ok G s -> eval p (S n) s (EVar x) = (r, s') ->
    env_ok G s' /\ res_ok R L t r.
  Proof.
    start. destruct (lookup_ok _ _ _ _ Hs T) as [v [E V]]. rewrite E in H. fin.
  Qed.

  Lemma case_EUn o ty0 e1 : forall R L G t s r s',
    tc (sigs p) R L G (EUn o ty0 e1) = Some t -> env_ok G s -> eval p (S n) s (EUn o ty0 e1) = (r, s') ->
    env_ok G s' /\ res_ok R L t r.
  Proof.
    start. destruct (tc (sigs p) R L G e1) as [ta|] eqn:T1; [|discriminate]. tcase (ty_eqb ta ty0) as Q. teq Q.
    bind T1. intros v s1 V Hs1 K.
    eapply of_opres_sound; [eassumption| |exact K]. eapply unop_sound; eauto.
  Qed.

  Lemma case_EBin o ty0 e1 e2 : forall R L G t s r s',
    tc (sigs p) R L G (EBin o ty0 e1 e2) = Some t -> env_ok G s ->
    eval p (S n) s (EBin o ty0 e1 e2) = (r, s') -> env_ok G s' /\ res_ok R L t r.
  Proof.
    start. destruct (tc (sigs p) R L G e1) as [ta|] eqn:T1; [|discriminate].
    destruct (tc (sigs p) R L G e2) as [tb|] eqn:T2; [|discriminate].
    tcase (ty_eqb ta ty0 && ty_eqb tb ty0) as Q.
    apply andb_true_iff in Q. destruct Q as [A B]. teq A. teq B.
    bind T1. intros a s1 Va Hs1 K.
    bind T2. intros b s2 Vb Hs2 K2.
    eapply of_opres_sound; [eassumption| |exact K2]. eapply binop_sound; eauto.
  Qed.

  Lemma case_EAndAlso e1 e2 : forall R L G t s r s',
    tc (sigs p) R L G (EAndAlso e1 e2) = Some t -> env_ok G s ->
    eval p (S n) s (EAndAlso e1 e2) = (r, s') -> env_ok G s' /\ res_ok R L t r.
  Proof.
    start. destruct (tc (sigs p) R L G e1) as [ta|] eqn:T1; [|discriminate]. destruct ta; try discriminate.
    destruct (tc (sigs p) R L G e2) as [tb|] eqn:T2; [|discriminate]. destruct tb; try discriminate.
    inversion T; subst.
    bind T1. intros a s1 Va Hs1 K.
    destruct (vtb_bool_inv _ Va) as [b ->]. destruct b.
    - exact (IH _ _ _ _ _ _ _ _ T2 Hs1 K).
    - fin.
  Qed.

  Lemma case_EOrElse e1 e2 : forall R L G t s r s',
    tc (sigs p) R L G (EOrElse e1 e2) = Some t -> env_ok G s ->
    eval p (S n) s (EOrElse e1 e2) = (r, s') -> env_ok G s' /\ res_ok R L t r.
  Proof.
    start. destruct (tc (sigs p) R L G e1) as [ta|] eqn:T1; [|discriminate]. destruct ta; try discriminate.
    destruct (tc (sigs p) R L G e2) as [tb|] eqn:T2; [|discriminate]. destruct tb; try discriminate.
    inversion T; subst.
    bind T1. intros a s1 Va Hs1 K.
    destruct (vtb_bool_inv _ Va) as [b ->]. destruct b.
    - fin.
    - exact (IH _ _ _ _ _ _ _ _ T2 Hs1 K).
  Qed.

  Lemma case_ECast k from to e1 : forall R L G t s r s',
    tc (sigs p) R L G (ECast k from to e1) = Some t -> env_ok G s ->
    eval p (S n) s (ECast k from to e1) = (r, s') -> env_ok G s' /\ res_ok R L t r.
  Proof.
    start. destruct (tc (sigs p) R L G e1) as [ta|] eqn:T1; [|discriminate]. tcase (ty_eqb ta from) as Q. teq Q.
    bind T1. intros v s1 V Hs1 K.
    eapply of_opres_sound; [eassumption| |exact K]. eapply cast_sound; eauto.
  Qed.

  Lemma case_ETup es : forall R L G t s r s',
    tc (sigs p) R L G (ETup es) = Some t -> env_ok G s ->
    eval p (S n) s (ETup es) = (r, s') -> env_ok G s' /\ res_ok R L t r.
  Proof.
    start. change (match tc_list R L G es with Some ts => Some (TTup ts) | None => None end = Some t) in T.
    tcase (tc_list R L G es) as T0. inversion T; subst.
    destruct (eval_list (eval p n) s es) as [l1 s1] eqn:E.
    destruct (eval_list_sound _ _ _ _ _ _ _ _ T0 Hs E) as [Hs1 Hl].
    destruct l1; inversion H; subst; (split; [assumption|]).
    - cbn. apply vtb_tup. assumption.
    - destruct Hl as [Hr NV]. eapply res_ok_retype; eauto.
  Qed.

  Lemma case_EProj i e1 : forall R L G t s r s',
    tc (sigs p) R L G (EProj i e1) = Some t -> env_ok G s ->
    eval p (S n) s (EProj i e1) = (r, s') -> env_ok G s' /\ res_ok R L t r.
  Proof.
    start. destruct (tc (sigs p) R L G e1) as [ta|] eqn:T1; [|discriminate]. destruct ta; try discriminate.
    bind T1. intros v s1 V Hs1 K.
    destruct (vtb_tup_inv _ _ V) as [vs ->]. apply vtb_tup in V.
    assert (exists w, nth_error vs i = Some w /\ vtb t w = true) as [w [E W]].
    { clear - V T. revert i T. induction V; intros [|i] T; cbn in *; try discriminate.
      - inversion T; subst. eauto.
      - eauto. }
    rewrite E in K. fin.
  Qed.

  Lemma case_EEnum ty0 idx e1 : forall R L G t s r s',
    tc (sigs p) R L G (EEnum ty0 idx e1) = Some t -> env_ok G s ->
    eval p (S n) s (EEnum ty0 idx e1) = (r, s') -> env_ok G s' /\ res_ok R L t r.
  Proof.
    start. destruct ty0 as [| | | |vts| | |]; try discriminate.
    destruct (tc (sigs p) R L G e1) as [ta|] eqn:T1; [|discriminate].
    destruct (nth_error vts idx) as [pt|] eqn:N; [|discriminate].
    tcase (ty_eqb ta pt) as Q. teq Q. inversion T; subst.
    bind T1. intros v s1 V Hs1 K. fin.
    apply vtb_enum. eauto.
  Qed.

  Lemma case_EIf c e1 e2 : forall R L G t s r s',
    tc (sigs p) R L G (EIf c e1 e2) = Some t -> env_ok G s ->
    eval p (S n) s (EIf c e1 e2) = (r, s') -> env_ok G s' /\ res_ok R L t r.
  Proof.
    start. destruct (tc (sigs p) R L G c) as [tc0|] eqn:Tc; [|discriminate]. destruct tc0; try discriminate.
    destruct (tc (sigs p) R L G e1) as [ta|] eqn:T1; [|discriminate].
    destruct (tc (sigs p) R L G e2) as [tb|] eqn:T2; [|discriminate].
    tcase (ty_eqb ta tb) as Q. teq Q. inversion T; subst.
    bind Tc. intros a s1 Va Hs1 K.
    destruct (vtb_bool_inv _ Va) as [b ->]. destruct b;
      [exact (IH _ _ _ _ _ _ _ _ T1 Hs1 K)|exact (IH _ _ _ _ _ _ _ _ T2 Hs1 K)].
  Qed.

  Lemma pop_sound R L x t1 G t r s2 :
    env_ok ((x, t1) :: G) s2 /\ res_ok R L t r ->
    forall r' s', pop (r, s2) = (r', s') -> env_ok G s' /\ res_ok R L t r'.
  Proof.
    intros [Hs Hr] r' s' H. unfold pop in H. cbn in H. inversion H; subst.
    split; [eapply env_ok_pop; eauto|assumption].
  Qed.

  Lemma case_ELet x e1 body : forall R L G t s r s',
    tc (sigs p) R L G (ELet x e1 body) = Some t -> env_ok G s ->
    eval p (S n) s (ELet x e1 body) = (r, s') -> env_ok G s' /\ res_ok R L t r.
  Proof.
    start. tcase (tc (sigs p) R L G e1) as T1.
    bind T1. intros v s1 V Hs1 K.
    destruct (eval p n ((x, v) :: s1) body) as [r2 s2] eqn:E2.
    eapply pop_sound; [|exact K].
    exact (IH _ _ _ _ _ _ _ _ T (env_ok_push _ _ x _ _ Hs1 V) E2).
  Qed.

  Lemma case_EAssign x e1 : forall R L G t s r s',
    tc (sigs p) R L G (EAssign x e1) = Some t -> env_ok G s ->
    eval p (S n) s (EAssign x e1) = (r, s') -> env_ok G s' /\ res_ok R L t r.
  Proof.
    start. destruct (lookupT x G) as [tx|] eqn:Lx; [|discriminate].
    destruct (tc (sigs p) R L G e1) as [ta|] eqn:T1; [|discriminate]. tcase (ty_eqb ta tx) as Q. teq Q.
    inversion T; subst.
    bind T1. intros v s1 V Hs1 K.
    destruct (update_ok _ _ _ _ _ Hs1 Lx V) as [s2 [E2 Hs2]]. rewrite E2 in K.
    unfold unit_res in K. fin.
  Qed.

  Lemma case_ESeq e1 e2 : forall R L G t s r s',
    tc (sigs p) R L G (ESeq e1 e2) = Some t -> env_ok G s ->
    eval p (S n) s (ESeq e1 e2) = (r, s') -> env_ok G s' /\ res_ok R L t r.
  Proof.
    start. tcase (tc (sigs p) R L G e1) as T1.
    bind T1. intros v s1 V Hs1 K. exact (IH _ _ _ _ _ _ _ _ T Hs1 K).
  Qed.

  (* ---------- loops and the constructs of type `never` ---------- *)
  Lemma case_ELoop ty0 body : forall R L G t s r s',
    tc (sigs p) R L G (ELoop ty0 body) = Some t -> env_ok G s ->
    eval p (S n) s (ELoop ty0 body) = (r, s') -> env_ok G s' /\ res_ok R L t r.
  Proof.
    intros R L G t s r s' T Hs H. pose proof T as T'. cbn [tc] in T. cbn [eval] in H.
    destruct (tc (sigs p) R (Some ty0) G body) as [tb|] eqn:Tb; [|discriminate]. inversion T; subst.
    destruct (eval p n s body) as [r1 s1] eqn:E1.
    destruct (IH _ _ _ _ _ _ _ _ Tb Hs E1) as [Hs1 Hr1].
    destruct r1; cbn in Hr1.
    - exact (IH _ _ _ _ _ _ _ _ T' Hs1 H).
    - inversion H; subst. split; [assumption|exact Hr1].
    - exact (IH _ _ _ _ _ _ _ _ T' Hs1 H).
    - inversion H; subst. split; [assumption|exact Hr1].
    - inversion H; subst. split; [assumption|exact I].
    - inversion H; subst. split; [assumption|exact I].
    - contradiction.
  Qed.

  Lemma case_EWhile c body : forall R L G t s r s',
    tc (sigs p) R L G (EWhile c body) = Some t -> env_ok G s ->
    eval p (S n) s (EWhile c body) = (r, s') -> env_ok G s' /\ res_ok R L t r.
  Proof.
    intros R L G t s r s' T Hs H. pose proof T as T'. cbn [tc] in T. cbn [eval] in H.
    destruct (tc (sigs p) R L G c) as [tc0|] eqn:Tc; [|discriminate]. destruct tc0; try discriminate.
    destruct (tc (sigs p) R (Some TUnit) G body) as [tb|] eqn:Tb; [|discriminate]. inversion T; subst.
    bind Tc. intros a s1 Va Hs1 K.
    destruct (vtb_bool_inv _ Va) as [b ->]. destruct b.
    - destruct (eval p n s1 body) as [r2 s2] eqn:E2.
      destruct (IH _ _ _ _ _ _ _ _ Tb Hs1 E2) as [Hs2 Hr2].
      destruct r2; cbn in Hr2.
      + exact (IH _ _ _ _ _ _ _ _ T' Hs2 K).
      + unfold unit_res in K. inversion K; subst. split; [assumption|reflexivity].
      + exact (IH _ _ _ _ _ _ _ _ T' Hs2 K).
      + inversion K; subst. split; [assumption|exact Hr2].
      + inversion K; subst. split; [assumption|exact I].
      + inversion K; subst. split; [assumption|exact I].
      + contradiction.
    - unfold unit_res in K. inversion K; subst. split; [assumption|reflexivity].
  Qed.

  Lemma case_EBreak ty0 e1 : forall R L G t s r s',
    tc (sigs p) R L G (EBreak ty0 e1) = Some t -> env_ok G s ->
    eval p (S n) s (EBreak ty0 e1) = (r, s') -> env_ok G s' /\ res_ok R L t r.
  Proof.
    start. destruct L as [bt|]; [|discriminate].
    destruct (tc (sigs p) R (Some bt) G e1) as [ta|] eqn:T1; [|discriminate].
    tcase (ty_eqb ta bt) as Q. teq Q. inversion T; subst.
    bind T1. intros v s1 V Hs1 K. fin.
  Qed.

  Lemma case_EContinue ty0 : forall R L G t s r s',
    tc (sigs p) R L G (EContinue ty0) = Some t -> env_ok G s ->
    eval p (S n) s (EContinue ty0) = (r, s') -> env_ok G s' /\ res_ok R L t r.
  Proof. start. destruct L as [bt|]; [|discriminate]. fin. discriminate. Qed.

  Lemma case_EReturn ty0 e1 : forall R L G t s r s',
    tc (sigs p) R L G (EReturn ty0 e1) = Some t -> env_ok G s ->
    eval p (S n) s (EReturn ty0 e1) = (r, s') -> env_ok G s' /\ res_ok R L t r.
  Proof.
    start. destruct (tc (sigs p) R L G e1) as [ta|] eqn:T1; [|discriminate].
    tcase (ty_eqb ta R) as Q. teq Q. inversion T; subst.
    bind T1. intros v s1 V Hs1 K. fin.
  Qed.

  Lemma enum2_idx a b idx pv :
    vtb (TEnum [a; b]) (VEnum idx pv) = true ->
    (idx = 0%nat /\ vtb a pv = true) \/ (idx = 1%nat /\ vtb b pv = true).
  Proof.
    intros H. apply vtb_enum in H. destruct H as [t [N V]].
    destruct idx as [|[|k]]; cbn in N; inversion N; subst; auto. destruct k; discriminate.
  Qed.

  Lemma case_ETry e1 : forall R L G t s r s',
    tc (sigs p) R L G (ETry e1) = Some t -> env_ok G s ->
    eval p (S n) s (ETry e1) = (r, s') -> env_ok G s' /\ res_ok R L t r.
  Proof.
    start. destruct (tc (sigs p) R L G e1) as [ta|] eqn:T1; [|discriminate].
    destruct ta as [| | | |vts| | |]; try discriminate.
    destruct vts as [|ok [|err [|]]]; try discriminate.
    destruct R as [| | | |rts| | |]; try discriminate.
    destruct rts as [|rok [|rerr [|]]]; try discriminate.
    tcase (ty_eqb err rerr) as Q. teq Q. inversion T; subst.
    bind T1. intros v s1 V Hs1 K.
    destruct (vtb_enum_inv _ _ V) as [idx [pv ->]].
    destruct (enum2_idx _ _ _ _ V) as [[-> Vp]|[-> Vp]]; fin.
  Qed.

  Lemma case_EUnwrap msg e1 : forall R L G t s r s',
    tc (sigs p) R L G (EUnwrap msg e1) = Some t -> env_ok G s ->
    eval p (S n) s (EUnwrap msg e1) = (r, s') -> env_ok G s' /\ res_ok R L t r.
  Proof.
    start. destruct (tc (sigs p) R L G e1) as [ta|] eqn:T1; [|discriminate].
    destruct ta as [| | | |vts| | |]; try discriminate.
    destruct vts as [|ok [|err [|]]]; try discriminate. inversion T; subst.
    bind T1. intros v s1 V Hs1 K.
    destruct (vtb_enum_inv _ _ V) as [idx [pv ->]].
    destruct (enum2_idx _ _ _ _ V) as [[-> Vp]|[-> Vp]]; fin.
  Qed.

  Lemma case_EPanic ty0 d : forall R L G t s r s',
    tc (sigs p) R L G (EPanic ty0 d) = Some t -> env_ok G s ->
    eval p (S n) s (EPanic ty0 d) = (r, s') -> env_ok G s' /\ res_ok R L t r.
  Proof. start. fin. Qed.

  Lemma case_EAssert c d : forall R L G t s r s',
    tc (sigs p) R L G (EAssert c d) = Some t -> env_ok G s ->
    eval p (S n) s (EAssert c d) = (r, s') -> env_ok G s' /\ res_ok R L t r.
  Proof.
    start. destruct (tc (sigs p) R L G c) as [tc0|] eqn:Tc; [|discriminate]. destruct tc0; try discriminate.
    inversion T; subst.
    bind Tc. intros a s1 Va Hs1 K.
    destruct (vtb_bool_inv _ Va) as [b ->]. destruct b; unfold unit_res in K; fin.
  Qed.

  (* ---------- arrays and snapshots ---------- *)
  Lemma case_EArrNew ty0 : forall R L G t s r s',
    tc (sigs p) R L G (EArrNew ty0) = Some t -> env_ok G s ->
    eval p (S n) s (EArrNew ty0) = (r, s') -> env_ok G s' /\ res_ok R L t r.
  Proof. start. inversion T; subst. fin. Qed.

  Lemma case_EArrAppend x e1 : forall R L G t s r s',
    tc (sigs p) R L G (EArrAppend x e1) = Some t -> env_ok G s ->
    eval p (S n) s (EArrAppend x e1) = (r, s') -> env_ok G s' /\ res_ok R L t r.
  Proof.
    start. destruct (lookupT x G) as [tx|] eqn:Lx; [|discriminate].
    destruct tx as [| | | | |te| |]; try discriminate.
    destruct (tc (sigs p) R L G e1) as [ta|] eqn:T1; [|discriminate].
    tcase (ty_eqb ta te) as Q. teq Q. inversion T; subst.
    bind T1. intros v s1 V Hs1 K.
    destruct (lookup_ok _ _ _ _ Hs1 Lx) as [av [E Va]]. rewrite E in K.
    destruct (vtb_arr_inv _ _ Va) as [l ->].
    assert (Vn : vtb (TArr te) (VArr (l ++ [v])) = true).
    { apply vtb_arr. apply vtb_arr in Va. apply Forall_app. split; [assumption|]. constructor; [assumption|constructor]. }
    destruct (update_ok _ _ _ _ _ Hs1 Lx Vn) as [s2 [E2 Hs2]]. rewrite E2 in K.
    unfold unit_res in K. fin.
  Qed.

  Lemma case_EArrPop x : forall R L G t s r s',
    tc (sigs p) R L G (EArrPop x) = Some t -> env_ok G s ->
    eval p (S n) s (EArrPop x) = (r, s') -> env_ok G s' /\ res_ok R L t r.
  Proof.
    start. destruct (lookupT x G) as [tx|] eqn:Lx; [|discriminate].
    destruct tx as [| | | | |te| |]; try discriminate. inversion T; subst.
    destruct (lookup_ok _ _ _ _ Hs Lx) as [av [E Va]]. rewrite E in H.
    destruct (vtb_arr_inv _ _ Va) as [l ->]. apply vtb_arr in Va.
    destruct l as [|h tl0].
    - fin.
    - inversion Va; subst.
      assert (Vn : vtb (TArr te) (VArr tl0) = true) by (apply vtb_arr; assumption).
      destruct (update_ok _ _ _ _ _ Hs Lx Vn) as [s2 [E2 Hs2]]. rewrite E2 in H. fin.
  Qed.

  Lemma arr_elem_val tx te v : arr_elem tx = Some te -> vtb tx v = true -> vtb (TArr te) v = true.
  Proof.
    intros A V. destruct tx as [| | | | |e|e|]; cbn in A; try discriminate.
    - inversion A; subst. exact V.
    - destruct e; try discriminate. inversion A; subst. exact V.
  Qed.

  Lemma case_EArrLen x : forall R L G t s r s',
    tc (sigs p) R L G (EArrLen x) = Some t -> env_ok G s ->
    eval p (S n) s (EArrLen x) = (r, s') -> env_ok G s' /\ res_ok R L t r.
  Proof.
    start. destruct (lookupT x G) as [tx|] eqn:Lx; [|discriminate].
    destruct (arr_elem tx) as [te|] eqn:A; [|discriminate]. inversion T; subst.
    destruct (lookup_ok _ _ _ _ Hs Lx) as [av [E Va]]. rewrite E in H.
    destruct (vtb_arr_inv _ _ (arr_elem_val _ _ _ A Va)) as [l ->]. fin.
  Qed.

  Lemma case_EArrAt x i : forall R L G t s r s',
    tc (sigs p) R L G (EArrAt x i) = Some t -> env_ok G s ->
    eval p (S n) s (EArrAt x i) = (r, s') -> env_ok G s' /\ res_ok R L t r.
  Proof.
    start. destruct (lookupT x G) as [tx|] eqn:Lx; [|discriminate].
    destruct (tc (sigs p) R L G i) as [ti|] eqn:Ti; [|discriminate].
    destruct ti as [ii| | | | | | |]; try discriminate. destruct ii; try discriminate.
    bind Ti. intros iv s1 Vi Hs1 K.
    destruct (vtb_int_inv _ _ Vi) as [z ->].
    destruct (lookup_ok _ _ _ _ Hs1 Lx) as [av [E Va]]. rewrite E in K.
    pose proof (arr_elem_val _ _ _ T Va) as Va'.
    destruct (vtb_arr_inv _ _ Va') as [l ->]. apply vtb_arr in Va'.
    destruct ((0 <=? z) && (z <? Z.of_nat (length l))) eqn:Zr.
    - apply andb_true_iff in Zr. destruct Zr as [Z0 Zl]. apply Z.leb_le in Z0. apply Z.ltb_lt in Zl.
      destruct (nth_error l (Z.to_nat z)) as [w|] eqn:N.
      + fin. rewrite Forall_forall in Va'. apply Va'. eapply nth_error_In; eauto.
      + apply nth_error_None in N. lia.
    - fin.
  Qed.

  Lemma case_ESnap e1 : forall R L G t s r s',
    tc (sigs p) R L G (ESnap e1) = Some t -> env_ok G s ->
    eval p (S n) s (ESnap e1) = (r, s') -> env_ok G s' /\ res_ok R L t r.
  Proof.
    start. destruct (tc (sigs p) R L G e1) as [ta|] eqn:T1; [|discriminate]. inversion T; subst.
    destruct (IH _ _ _ _ _ _ _ _ T1 Hs H) as [Hs1 Hr]. split; [assumption|].
    destruct r; cbn in *; auto.
  Qed.

  Lemma case_EDesnap e1 : forall R L G t s r s',
    tc (sigs p) R L G (EDesnap e1) = Some t -> env_ok G s ->
    eval p (S n) s (EDesnap e1) = (r, s') -> env_ok G s' /\ res_ok R L t r.
  Proof.
    start. destruct (tc (sigs p) R L G e1) as [ta|] eqn:T1; [|discriminate].
    destruct ta; try discriminate. inversion T; subst.
    destruct (IH _ _ _ _ _ _ _ _ T1 Hs H) as [Hs1 Hr]. split; [assumption|].
    destruct r; cbn in *; auto.
  Qed.

  (* ---------- match ---------- *)
  Definition tc_arms R L G : list (nat * expr) -> list ty -> option ty -> option ty :=
    fix go (arms : list (nat * expr)) (vts : list ty) (acc : option ty) {struct arms} : option ty :=
      match arms, vts with
      | [], [] => acc
      | (x, body) :: arms', pt :: vts' =>
          match tc (sigs p) R L ((x, pt) :: G) body with
          | Some t =>
              match acc with
              | None => go arms' vts' (Some t)
              | Some t0 => if ty_eqb t t0 then go arms' vts' acc else None
              end
          | None => None
          end
      | _, _ => None
      end.

  Lemma tc_arms_spec R L G : forall arms vts acc t,
    tc_arms R L G arms vts acc = Some t ->
    (forall t0, acc = Some t0 -> t0 = t) /\
    (forall idx pt, nth_error vts idx = Some pt ->
       exists x body, nth_error arms idx = Some (x, body) /\
                      tc (sigs p) R L ((x, pt) :: G) body = Some t).
  Proof.
    induction arms as [|[x body] arms IHa]; intros vts acc t H; destruct vts as [|pt vts]; cbn in H;
      try discriminate.
    - split; [intros t0 E; congruence|]. intros [|idx] pt' N; discriminate.
    - destruct (tc (sigs p) R L ((x, pt) :: G) body) as [tb|] eqn:Tb; [|discriminate].
      destruct acc as [t0|].
      + destruct (ty_eqb tb t0) eqn:Q; [|discriminate]. apply ty_eqb_eq in Q. subst.
        destruct (IHa _ _ _ H) as [A B]. specialize (A _ eq_refl). subst.
        split; [intros t1 E; congruence|].
        intros [|idx] pt' N; cbn in N.
        * inversion N; subst. exists x, body. auto.
        * apply B. exact N.
      + destruct (IHa _ _ _ H) as [A B]. specialize (A _ eq_refl). subst.
        split; [intros t1 E; discriminate|].
        intros [|idx] pt' N; cbn in N.
        * inversion N; subst. exists x, body. auto.
        * apply B. exact N.
  Qed.

  Lemma case_EMatch e1 arms : forall R L G t s r s',
    tc (sigs p) R L G (EMatch e1 arms) = Some t -> env_ok G s ->
    eval p (S n) s (EMatch e1 arms) = (r, s') -> env_ok G s' /\ res_ok R L t r.
  Proof.
    start. destruct (tc (sigs p) R L G e1) as [ta|] eqn:T1; [|discriminate].
    destruct ta as [| | | |vts| | |]; try discriminate.
    change (tc_arms R L G arms vts None = Some t) in T.
    destruct (tc_arms_spec _ _ _ _ _ _ _ T) as [_ B].
    bind T1. intros v s1 V Hs1 K.
    destruct (vtb_enum_inv _ _ V) as [idx [pv ->]]. apply vtb_enum in V. destruct V as [pt [N Vp]].
    destruct (B _ _ N) as [x [body [Na Tb]]]. rewrite Na in K.
    destruct (eval p n ((x, pv) :: s1) body) as [r2 s2] eqn:E2.
    eapply pop_sound; [|exact K].
    exact (IH _ _ _ _ _ _ _ _ Tb (env_ok_push _ _ x _ _ Hs1 Vp) E2).
  Qed.

  Definition tc_iarms R L G (t : ty) : list expr -> option ty :=
    fix go (arms : list expr) : option ty :=
      match arms with
      | [] => Some t
      | a :: r =>
          match tc (sigs p) R L G a with
          | Some ta => if ty_eqb ta t then go r else None
          | None => None
          end
      end.

  Lemma tc_iarms_spec R L G t : forall arms t',
    tc_iarms R L G t arms = Some t' ->
    t' = t /\ forall k a, nth_error arms k = Some a -> tc (sigs p) R L G a = Some t.
  Proof.
    induction arms as [|a arms IHa]; intros t' H; cbn in H.
    - inversion H; subst. split; [reflexivity|]. intros [|k] a N; discriminate.
    - destruct (tc (sigs p) R L G a) as [ta|] eqn:Ta; [|discriminate].
      destruct (ty_eqb ta t) eqn:Q; [|discriminate]. apply ty_eqb_eq in Q. subst.
      destruct (IHa _ H) as [A B]. split; [assumption|].
      intros [|k] a' N; cbn in N; [inversion N; subst; assumption|eauto].
  Qed.

  Lemma case_EMatchInt e1 arms dflt : forall R L G t s r s',
    tc (sigs p) R L G (EMatchInt e1 arms dflt) = Some t -> env_ok G s ->
    eval p (S n) s (EMatchInt e1 arms dflt) = (r, s') -> env_ok G s' /\ res_ok R L t r.
  Proof.
    start. destruct (tc (sigs p) R L G e1) as [ts|] eqn:T1; [|discriminate].
    destruct (tc (sigs p) R L G dflt) as [td|] eqn:Td; [|discriminate].
    destruct (match ts with TInt i => negb (isigned i) | TFelt => true | _ => false end) eqn:Sc; [|discriminate].
    change (tc_iarms R L G td arms = Some t) in T.
    destruct (tc_iarms_spec _ _ _ _ _ _ T) as [-> B].
    bind T1. intros v s1 V Hs1 K.
    assert (exists z, v = VInt z) as [z ->].
    { destruct ts; try discriminate; [eapply vtb_int_inv|eapply vtb_felt_inv]; eauto. }
    destruct ((0 <=? z) && (z <? Z.of_nat (length arms))).
    - destruct (nth_error arms (Z.to_nat z)) as [a|] eqn:N.
      + exact (IH _ _ _ _ _ _ _ _ (B _ _ N) Hs1 K).
      + exact (IH _ _ _ _ _ _ _ _ Td Hs1 K).
    - exact (IH _ _ _ _ _ _ _ _ Td Hs1 K).
  Qed.

  (* ---------- calls ---------- *)
  Definition tc_args R L G : list (arg expr) -> list param -> bool :=
    fix go (a : list (arg expr)) (ps : list param) {struct a} : bool :=
      match a, ps with
      | [], [] => true
      | AVal e1 :: a', p0 :: ps' =>
          negb (pref p0) &&
          match tc (sigs p) R L G e1 with Some t1 => ty_eqb t1 (pty p0) | None => false end && go a' ps'
      | ARef x :: a', p0 :: ps' =>
          pref p0 &&
          match lookupT x G with Some tx => ty_eqb tx (pty p0) | None => false end && go a' ps'
      | _, _ => false
      end.

  Lemma call_args_sound R L G : forall args ps s l s',
    tc_args R L G args ps = true -> env_ok G s -> eval_args (eval p n) s args = (l, s') ->
    env_ok G s' /\
    match l with
    | LOk vs => forall s1, env_ok G s1 ->
                  exists c, bind_params ps args vs s1 = Some c /\ env_ok (param_ctx ps) c
    | LErr r => res_ok R L TUnit r /\ not_val r
    end.
  Proof.
    induction args as [|a args IHa]; intros ps s l s' T Hs H; destruct ps as [|p0 ps]; cbn in T;
      try discriminate; try (destruct a; discriminate).
    - cbn in H. inversion H; subst. split; [assumption|]. intros s1 Hs1. exists []. split; [reflexivity|constructor].
    - destruct a as [e1|x].
      + apply andb_true_iff in T. destruct T as [T Tr]. apply andb_true_iff in T. destruct T as [Pr T1].
        apply negb_true_iff in Pr.
        destruct (tc (sigs p) R L G e1) as [t1|] eqn:Te; [|discriminate]. apply ty_eqb_eq in T1. subst.
        cbn [eval_args] in H.
        destruct (eval p n s e1) as [r1 s1] eqn:E1.
        destruct (IH _ _ _ _ _ _ _ _ Te Hs E1) as [Hs1 Hr1].
        destruct r1; try (inversion H; subst; split; [assumption|split; [exact Hr1|exact I]]).
        destruct (eval_args (eval p n) s1 args) as [l2 s2] eqn:E2.
        destruct (IHa _ _ _ _ Tr Hs1 E2) as [Hs2 Hl2].
        destruct l2 as [vs|o]; inversion H; subst; (split; [assumption|]); [|assumption].
        intros s3 Hs3. destruct (Hl2 _ Hs3) as [c [Eb Hc]].
        cbn [bind_params]. rewrite Pr, Eb. eexists. split; [reflexivity|].
        cbn. apply env_ok_push; assumption.
      + apply andb_true_iff in T. destruct T as [T Tr]. apply andb_true_iff in T. destruct T as [Pr T1].
        destruct (lookupT x G) as [tx|] eqn:Lx; [|discriminate]. apply ty_eqb_eq in T1. subst.
        cbn [eval_args] in H.
        destruct (IHa _ _ _ _ Tr Hs H) as [Hs2 Hl2]. split; [assumption|].
        destruct l as [vs|o]; [|assumption].
        intros s3 Hs3. destruct (Hl2 _ Hs3) as [c [Eb Hc]].
        destruct (lookup_ok _ _ _ _ Hs3 Lx) as [v [El V]].
        cbn [bind_params]. rewrite Pr, El, Eb. eexists. split; [reflexivity|].
        cbn. apply env_ok_push; assumption.
  Qed.

  Lemma write_back_ok R L G c : forall args ps s1,
    tc_args R L G args ps = true ->
    (forall p0, In p0 ps -> exists v, lookup (pname p0) c = Some v /\ vtb (pty p0) v = true) ->
    env_ok G s1 -> exists s2, write_back ps args c s1 = Some s2 /\ env_ok G s2.
  Proof.
    induction args as [|a args IHa]; intros ps s1 T Hc Hs1; destruct ps as [|p0 ps]; cbn in T;
      try discriminate; try (destruct a; discriminate).
    - exists s1. split; [reflexivity|assumption].
    - destruct a as [e1|x].
      + apply andb_true_iff in T. destruct T as [_ Tr]. cbn [write_back].
        apply IHa; auto. intros q Hq. apply Hc. right. exact Hq.
      + apply andb_true_iff in T. destruct T as [T Tr]. apply andb_true_iff in T. destruct T as [Pr T1].
        destruct (lookupT x G) as [tx|] eqn:Lx; [|discriminate]. apply ty_eqb_eq in T1. subst.
        destruct (Hc p0 (or_introl eq_refl)) as [v [El V]].
        destruct (update_ok _ _ _ _ _ Hs1 Lx V) as [s2 [Eu Hs2]].
        cbn [write_back]. rewrite El, Eu.
        apply IHa; auto. intros q Hq. apply Hc. right. exact Hq.
  Qed.

  Lemma params_lookup ps c :
    params_ok ps = true -> env_ok (param_ctx ps) c ->
    forall p0, In p0 ps -> exists v, lookup (pname p0) c = Some v /\ vtb (pty p0) v = true.
  Proof.
    intros Pok Hc p0 Hin. unfold params_ok in Pok. rewrite forallb_forall in Pok.
    specialize (Pok _ Hin).
    destruct (lookupT (pname p0) (param_ctx ps)) as [t0|] eqn:Lp; [|discriminate].
    apply ty_eqb_eq in Pok. subst. eapply lookup_ok; eauto.
  Qed.

  Lemma case_ECall f args : forall R L G t s r s',
    tc (sigs p) R L G (ECall f args) = Some t -> env_ok G s ->
    eval p (S n) s (ECall f args) = (r, s') -> env_ok G s' /\ res_ok R L t r.
  Proof.
    start. destruct (nth_error (sigs p) f) as [sg|] eqn:Ns; [|discriminate].
    change (((if tc_args R L G args (sparams sg) then Some (sret sg) else None) = Some t)) in T.
    destruct (tc_args R L G args (sparams sg)) eqn:Ta; [|discriminate]. inversion T; subst.
    unfold sigs in Ns. rewrite nth_error_map in Ns.
    destruct (nth_error p f) as [fd|] eqn:Nf; [|discriminate]. cbn in Ns. inversion Ns; subst sg.
    cbn [sig_of sparams sret] in *.
    destruct (eval_args (eval p n) s args) as [l s1] eqn:Ea.
    destruct (call_args_sound _ _ _ _ _ _ _ _ Ta Hs Ea) as [Hs1 Hl].
    destruct l as [vs|o].
    - destruct (Hl s1 Hs1) as [c [Eb Hc]]. rewrite Eb in H.
      assert (Wf : wt_fn (sigs p) fd = true).
      { unfold wt_prog in Hp. rewrite forallb_forall in Hp. apply Hp. eapply nth_error_In; eauto. }
      unfold wt_fn in Wf. apply andb_true_iff in Wf. destruct Wf as [Pok Wb].
      destruct (tc (sigs p) (fret fd) None (param_ctx (fparams fd)) (fbody fd)) as [tb|] eqn:Tb; [|discriminate].
      apply ty_eqb_eq in Wb. subst tb.
      destruct (eval p n c (fbody fd)) as [rb c'] eqn:E2.
      destruct (IH _ _ _ _ _ _ _ _ Tb Hc E2) as [Hc' Hrb].
      destruct rb; cbn in Hrb; try contradiction.
      + destruct (write_back_ok _ _ _ _ _ _ _ Ta (params_lookup _ _ Pok Hc') Hs1) as [s2 [Ew Hs2]].
        rewrite Ew in H. fin.
      + destruct (write_back_ok _ _ _ _ _ _ _ Ta (params_lookup _ _ Pok Hc') Hs1) as [s2 [Ew Hs2]].
        rewrite Ew in H. fin.
      + fin.
      + fin.
    - inversion H; subst. destruct Hl as [Hr NV]. split; [assumption|]. eapply res_ok_retype; eauto.
  Qed.

  (* ---------- boxes, destructuring, non-panicking arithmetic ---------- *)
  Lemma case_EBox e1 : forall R L G t s r s',
    tc (sigs p) R L G (EBox e1) = Some t -> env_ok G s ->
    eval p (S n) s (EBox e1) = (r, s') -> env_ok G s' /\ res_ok R L t r.
  Proof.
    start. destruct (tc (sigs p) R L G e1) as [ta|] eqn:T1; [|discriminate]. inversion T; subst.
    destruct (IH _ _ _ _ _ _ _ _ T1 Hs H) as [Hs1 Hr]. split; [assumption|].
    destruct r; cbn in *; auto.
  Qed.

  Lemma case_EUnbox e1 : forall R L G t s r s',
    tc (sigs p) R L G (EUnbox e1) = Some t -> env_ok G s ->
    eval p (S n) s (EUnbox e1) = (r, s') -> env_ok G s' /\ res_ok R L t r.
  Proof.
    start. destruct (tc (sigs p) R L G e1) as [ta|] eqn:T1; [|discriminate].
    destruct ta; try discriminate. inversion T; subst.
    destruct (IH _ _ _ _ _ _ _ _ T1 Hs H) as [Hs1 Hr]. split; [assumption|].
    destruct r; cbn in *; auto.
  Qed.

  Lemma bind_many_ok : forall xs ts vs G s,
    Forall2 (fun t v => vtb t v = true) ts vs -> length xs = length ts -> env_ok G s ->
    exists s2, bind_many xs vs s = Some s2 /\ env_ok (rev (combine xs ts) ++ G) s2.
  Proof.
    induction xs as [|x xs IHx]; intros ts vs G s F Len Hs.
    - destruct ts; [|discriminate]. inversion F; subst. exists s. split; [reflexivity|assumption].
    - destruct ts as [|t ts]; [discriminate|]. inversion F as [|? v ? vr V F']; subst.
      cbn [bind_many combine rev]. rewrite <- app_assoc. cbn [app].
      apply IHx; auto. apply env_ok_push; assumption.
  Qed.

  Lemma env_ok_skipn A G s : env_ok (A ++ G) s -> env_ok G (skipn (length A) s).
  Proof.
    revert s. induction A as [|a A IHA]; intros s H; cbn.
    - exact H.
    - inversion H; subst. cbn. apply IHA. assumption.
  Qed.

  Lemma case_ELetTup xs e1 body : forall R L G t s r s',
    tc (sigs p) R L G (ELetTup xs e1 body) = Some t -> env_ok G s ->
    eval p (S n) s (ELetTup xs e1 body) = (r, s') -> env_ok G s' /\ res_ok R L t r.
  Proof.
    start. destruct (tc (sigs p) R L G e1) as [ta|] eqn:T1; [|discriminate].
    destruct ta as [| | |ts| | | |]; try discriminate.
    destruct (Nat.eqb (length xs) (length ts)) eqn:Len; [|discriminate]. apply Nat.eqb_eq in Len.
    bind T1. intros v s1 V Hs1 K.
    destruct (vtb_tup_inv _ _ V) as [vs ->]. apply vtb_tup in V.
    destruct (bind_many_ok _ _ _ _ _ V Len Hs1) as [s2 [Eb Hs2]]. rewrite Eb in K.
    destruct (eval p n s2 body) as [r2 s3] eqn:E2.
    destruct (IH _ _ _ _ _ _ _ _ T Hs2 E2) as [Hs3 Hr2].
    unfold popn in K. cbn in K. inversion K; subst. split; [|assumption].
    replace (length xs) with (length (rev (combine xs ts))).
    - apply env_ok_skipn. assumption.
    - rewrite rev_length, combine_length, Len. apply Nat.min_id.
  Qed.

  Lemma case_EArith k o ty0 e1 e2 : forall R L G t s r s',
    tc (sigs p) R L G (EArith k o ty0 e1 e2) = Some t -> env_ok G s ->
    eval p (S n) s (EArith k o ty0 e1 e2) = (r, s') -> env_ok G s' /\ res_ok R L t r.
  Proof.
    start. destruct (tc (sigs p) R L G e1) as [ta|] eqn:T1; [|discriminate].
    destruct (tc (sigs p) R L G e2) as [tb|] eqn:T2; [|discriminate].
    tcase (ty_eqb ta ty0 && ty_eqb tb ty0) as Q.
    apply andb_true_iff in Q. destruct Q as [A B]. teq A. teq B.
    bind T1. intros a s1 Va Hs1 K.
    bind T2. intros b s2 Vb Hs2 K2.
    unfold arith_ty in T. destruct ty0 as [i| | | | | | |]; try discriminate.
    destruct (vtb_int_inv _ _ Va) as [x ->]. destruct (vtb_int_inv _ _ Vb) as [y ->].
    eapply of_opres_sound; [eassumption| |exact K2].
    unfold arith_sem.
    destruct o; try discriminate; cbn in T |- *;
      try (destruct (isigned i); cbn in T |- *; try discriminate);
      destruct k; inversion T; subst; cbn;
      repeat match goal with |- context [if ?c then _ else _] => destruct c end; reflexivity.
  Qed.

  (* ---------- the step ---------- *)
  Lemma sound_step : sound_at (S n).
  Proof.
    intros R L G e. revert R L G. destruct e.
    - apply case_ELit.
    - apply case_EBool.
    - apply case_EVar.
    - apply case_EUn.
    - apply case_EBin.
    - apply case_EAndAlso.
    - apply case_EOrElse.
    - apply case_ECast.
    - apply case_ETup.
    - apply case_EProj.
    - apply case_EEnum.
    - apply case_EMatch.
    - apply case_EMatchInt.
    - apply case_EIf.
    - apply case_ELet.
    - apply case_EAssign.
    - apply case_ESeq.
    - apply case_ELoop.
    - apply case_EWhile.
    - apply case_EBreak.
    - apply case_EContinue.
    - apply case_EReturn.
    - apply case_ECall.
    - apply case_ETry.
    - apply case_EUnwrap.
    - apply case_EPanic.
    - apply case_EAssert.
    - apply case_EArrNew.
    - apply case_EArrAppend.
    - apply case_EArrPop.
    - apply case_EArrLen.
    - apply case_EArrAt.
    - apply case_ESnap.
    - apply case_EDesnap.
    - apply case_EBox.
    - apply case_EUnbox.
    - apply case_ELetTup.
    - apply case_EArith.
  Qed.
End Sound.

Theorem eval_sound p : wt_prog p = true -> forall n, sound_at p n.
Proof.
  intros Hp. induction n as [|n IHn].
  - intros R L G e t s r s' T Hs H. cbn in H. inversion H; subst. split; [assumption|exact I].
  - apply sound_step; assumption.
Qed.

(* whole-function form: a well-typed program called on arguments of the declared parameter types
   is never stuck, and a returned value has the declared return type *)
Lemma entry_env_ok : forall ps args c,
  entry_env ps args = Some c -> Forall2 (fun p0 v => vtb (pty p0) v = true) ps args ->
  env_ok (param_ctx ps) c.
Proof.
  induction ps as [|p0 ps IH]; intros args c E F; destruct args as [|v args]; cbn in E; try discriminate.
  - inversion E; subst. constructor.
  - destruct (entry_env ps args) as [c1|] eqn:E1; [|discriminate]. inversion E; subst.
    inversion F; subst. cbn. apply env_ok_push; [eapply IH; eauto|assumption].
Qed.

Lemma entry_env_some : forall ps args,
  Forall2 (fun p0 v => vtb (pty p0) v = true) ps args -> exists c, entry_env ps args = Some c.
Proof.
  induction 1 as [|p0 v ps args _ _ [c E]]; cbn; [eauto|]. rewrite E. eauto.
Qed.

Theorem eval_fn_sound p f fd args n :
  wt_prog p = true -> nth_error p f = Some fd ->
  Forall2 (fun p0 v => vtb (pty p0) v = true) (fparams fd) args ->
  match eval_fn p f args n with
  | Value v => vtb (fret fd) v = true
  | Panic _ | OutOfFuel => True
  | Stuck => False
  end.
Proof.
  intros Hp Nf Fa. unfold eval_fn. rewrite Nf.
  destruct (entry_env_some _ _ Fa) as [c E]. rewrite E.
  assert (Wf : wt_fn (sigs p) fd = true).
  { unfold wt_prog in Hp. rewrite forallb_forall in Hp. apply Hp. eapply nth_error_In; eauto. }
  unfold wt_fn in Wf. apply andb_true_iff in Wf. destruct Wf as [_ Wb].
  destruct (tc (sigs p) (fret fd) None (param_ctx (fparams fd)) (fbody fd)) as [tb|] eqn:Tb; [|discriminate].
  apply ty_eqb_eq in Wb. subst tb.
  destruct (eval p n c (fbody fd)) as [r c'] eqn:Ev. cbn [fst].
  destruct (eval_sound p Hp n _ _ _ _ _ _ _ _ Tb (entry_env_ok _ _ _ E Fa) Ev) as [_ Hr].
  destruct r; cbn in Hr; auto; try contradiction.
Qed.

Lemma ref_type_sound p f fd args n :
  wt_prog p = true -> nth_error p f = Some fd ->
  Forall2 (fun p0 v => vtb (pty p0) v = true) (fparams fd) args ->
  eval_fn p f args n <> Stuck
  /\ forall v, eval_fn p f args n = Value v -> vtb (fret fd) v = true.
Proof.
  intros Hp Nf Fa.
  pose proof (eval_fn_sound p f fd args n Hp Nf Fa) as H.
  destruct (eval_fn p f args n) as [w| | |].
  - split; [discriminate|]. intros v E. inversion E; subst. exact H.
  - split; [discriminate|]. intros v E. discriminate.
  - split; [discriminate|]. intros v E. discriminate.
  - contradiction.
Qed.
