(* C01/Corr.v -- comparison of the reference semantics with what the real pipeline returned.
   The harness (harness/h01) prints, per case, the program as a [prog] term, the entry function,
   the argument values and the observed `RunResultValue` (flattened felts).  A model value is
   flattened by the Sierra layout rules (this is the only place that knows them):
     integers / felt252 / bool : one cell (negative integers as P - |x|, bool 0 / 1)
     tuple / struct            : concatenation
     enum with n variants      : [selector; zero padding; payload], padded on the left to the
                                 largest variant; selector = index if n <= 2 else 2*(n-index)-1
                                 (cairo-lang-sierra-to-casm invocations/enm.rs get_variant_selector)
     snapshot                  : as the value
     arrays, boxes             : not comparable (pointers) -- the generator never returns them. *)
From C01 Require Export Ref Typing.

Fixpoint tsize (t : ty) : Z :=
  match t with
  | TInt _ | TFelt | TBool => 1
  | TTup ts => (fix go (ts : list ty) : Z := match ts with [] => 0 | t :: r => tsize t + go r end) ts
  | TEnum vs =>
      1 + (fix go (ts : list ty) : Z := match ts with [] => 0 | t :: r => Z.max (tsize t) (go r) end) vs
  | TArr _ => 2
  | TSnap t => tsize t
  | TBox _ => 1
  end.

Definition selector (n idx : nat) : Z :=
  if Nat.leb n 2 then Z.of_nat idx else 2 * (Z.of_nat n - Z.of_nat idx) - 1.

Fixpoint zeros (n : nat) : list Z := match n with O => [] | S k => 0 :: zeros k end.

Fixpoint flatten (t : ty) (v : value) {struct t} : option (list Z) :=
  match t, v with
  | TInt _, VInt z => Some [fnorm z]
  | TFelt, VInt z => Some [z]
  | TBool, VBool b => Some [if b then 1 else 0]
  | TTup ts, VTup vs =>
      (fix go (ts : list ty) (vs : list value) : option (list Z) :=
         match ts, vs with
         | [], [] => Some []
         | t :: ts', v :: vs' =>
             match flatten t v, go ts' vs' with
             | Some a, Some b => Some (a ++ b)
             | _, _ => None
             end
         | _, _ => None
         end) ts vs
  | TEnum vts, VEnum idx pv =>
      (* find the payload type by structural descent so that the recursion is guarded *)
      (fix go (rest : list ty) (k : nat) {struct rest} : option (list Z) :=
         match rest, k with
         | [], _ => None
         | pt :: _, O =>
             match flatten pt pv with
             | Some fl =>
                 Some (selector (length vts) idx
                         :: zeros (Z.to_nat (tsize (TEnum vts) - 1 - Z.of_nat (length fl))) ++ fl)
             | None => None
             end
         | _ :: r, S k' => go r k'
         end) vts idx
  | TSnap t', _ => flatten t' v
  | _, _ => None
  end.

(* what the real pipeline returned *)
Inductive obs :=
| OSuccess (cells : list Z)
| OPanicked (data : list Z)
| OError.                      (* runner error / compiler panic: never equal to a model outcome *)

Fixpoint zlist_eqb (a b : list Z) : bool :=
  match a, b with
  | [], [] => true
  | x :: a', y :: b' => (x =? y) && zlist_eqb a' b'
  | _, _ => false
  end.

Definition agrees (rt : ty) (o : outcome) (ob : obs) : bool :=
  match o, ob with
  | Value v, OSuccess cells =>
      match flatten rt v with Some fl => zlist_eqb fl cells | None => false end
  | Panic d, OPanicked d' => zlist_eqb d d'
  | _, _ => false
  end.

Definition FUEL : nat := 20000.

Record case := {
  c_id : Z;
  c_prog : prog;
  c_fn : nat;
  c_args : list value;
  c_obs : obs
}.

Definition ret_ty (p : prog) (f : nat) : ty :=
  match nth_error p f with Some fd => fret fd | None => TUnit end.

(* a case is good when the program is well typed for Typing.wt_prog (so that the theorems about
   the reference semantics apply to it) and the reference outcome equals the observed one *)
Definition check_case (c : case) : bool :=
  wt_prog (c_prog c)
  && agrees (ret_ty (c_prog c) (c_fn c)) (eval_fn (c_prog c) (c_fn c) (c_args c) FUEL) (c_obs c).

(* ids of the cases whose program the type checker of the reference language rejects *)
Definition illtyped (cs : list case) : list Z :=
  flat_map (fun c => if wt_prog (c_prog c) then [] else [c_id c]) cs.

(* the ids of the disagreeing cases, with what the model computed *)
Definition check_run (cs : list case) : list (Z * outcome) :=
  flat_map (fun c => if check_case c then [] else
                       [(c_id c, eval_fn (c_prog c) (c_fn c) (c_args c) FUEL)]) cs.
