(* C01/Ref.v -- reference semantics of a typed Cairo subset: what the SOURCE means.
   Model file: definitions only.  Written from the language documentation and from the Cairo
   text of the core library (corelib/src/integer.cairo: checked arithmetic and its panic
   strings; array.cairo: 'Index out of bounds'; option.cairo / result.cairo: unwrap messages;
   lib.cairo: felt252 arithmetic is mod P), NOT from the compiler.  Nothing here mentions Sierra,
   CASM or memory cells; the Sierra layout used to compare with the real pipeline lives in Corr.v.

   Shape: a fuelled big-step evaluator over an expression language with a mutable environment,
   evaluation strictly left to right.  [eval_fn p f args n] is the meaning of calling function
   number [f] of program [p] on [args] with fuel [n]. *)
From Coq Require Export ZArith List Lia Bool String Ascii.
From Base Require Export Felt.
Export ListNotations.
Open Scope Z_scope.

(* ---------------------------------------------------------------------------------------- *)
(* types                                                                                     *)
Inductive ity := U8 | U16 | U32 | U64 | U128 | I8 | I16 | I32 | I64 | I128.

Definition isigned (i : ity) : bool :=
  match i with I8 | I16 | I32 | I64 | I128 => true | _ => false end.
Definition ibits (i : ity) : Z :=
  match i with
  | U8 | I8 => 8 | U16 | I16 => 16 | U32 | I32 => 32 | U64 | I64 => 64 | U128 | I128 => 128
  end.
Definition imin (i : ity) : Z := if isigned i then - 2 ^ (ibits i - 1) else 0.
Definition imax (i : ity) : Z := if isigned i then 2 ^ (ibits i - 1) - 1 else 2 ^ (ibits i) - 1.
Definition in_range (i : ity) (z : Z) : bool := (imin i <=? z) && (z <=? imax i).
Definition iname (i : ity) : string :=
  match i with
  | U8 => "u8" | U16 => "u16" | U32 => "u32" | U64 => "u64" | U128 => "u128"
  | I8 => "i8" | I16 => "i16" | I32 => "i32" | I64 => "i64" | I128 => "i128"
  end%string.
Definition ity_eqb (a b : ity) : bool :=
  match a, b with
  | U8, U8 | U16, U16 | U32, U32 | U64, U64 | U128, U128
  | I8, I8 | I16, I16 | I32, I32 | I64, I64 | I128, I128 => true
  | _, _ => false
  end.

(* [TTup] is a tuple or a struct (a struct is a named tuple; unit is [TTup []]).
   [TEnum vs] is an enum whose i-th variant carries a payload of type [nth i vs];
   [Option<T>] is [TEnum [T; unit]] (Some = 0, None = 1), [Result<T,E>] is [TEnum [T; E]]. *)
Inductive ty :=
| TInt (i : ity)
| TFelt
| TBool
| TTup (ts : list ty)
| TEnum (vs : list ty)
| TArr (t : ty)
| TSnap (t : ty)
| TBox (t : ty).

Definition TUnit : ty := TTup [].
Definition TOption (t : ty) : ty := TEnum [t; TUnit].
Definition TResult (t e : ty) : ty := TEnum [t; e].

(* ---------------------------------------------------------------------------------------- *)
(* values                                                                                    *)
Inductive value :=
| VInt (z : Z)                       (* integers (mathematical value) and felt252 (in [0,P)) *)
| VBool (b : bool)
| VTup (vs : list value)
| VEnum (idx : nat) (v : value)
| VArr (vs : list value).

Definition VUnit : value := VTup [].
Definition VSome (v : value) : value := VEnum 0 v.
Definition VNone : value := VEnum 1 VUnit.

(* Cairo short string -> felt (big endian bytes) *)
Fixpoint short_acc (acc : Z) (s : string) : Z :=
  match s with
  | EmptyString => acc
  | String c r => short_acc (acc * 256 + Z.of_N (N_of_ascii c)) r
  end.
Definition short (s : string) : Z := short_acc 0 s.

(* ---------------------------------------------------------------------------------------- *)
(* operators                                                                                 *)
Inductive binop :=
| Add | Sub | Mul | Div | Rem
| Eq | Ne | Lt | Le | Gt | Ge
| And | Or | Xor.                    (* bitwise on unsigned integers, strict on bool *)
Inductive unop := Neg | Not | BitNot.

(* the result of a primitive operation *)
Inductive opres := OVal (v : value) | OPanic (d : list Z) | OStuck.

Definition panic_str (s : string) : opres := OPanic [short s].

(* checked integer arithmetic, corelib/src/integer.cairo:
     uN: `uN_overflowing_add(..).expect('uN_add Overflow')`, sub likewise, mul through wide_mul
         + try_into (u128: u128_checked_mul) with 'uN_mul Overflow';
     iN: SignedIntegerResult::{Underflow, Overflow} -> 'iN_add Underflow' / 'iN_add Overflow'
         (sub likewise), mul -> 'iN_mul Overflow' in both directions;
     Div/Rem (by_div_rem): `rhs.try_into().expect('Division by 0')`, signed division truncates
         towards zero, remainder has the sign of the dividend, MIN / -1 and MIN % -1 panic with
         'attempt to divide with overflow' (signed_div_rem::DivRemImpl computes the quotient
         for both). *)
Definition int_arith (o : binop) (i : ity) (a b : Z) : opres :=
  match o with
  | Add =>
      let r := a + b in
      if r >? imax i then panic_str (iname i ++ "_add Overflow")
      else if r <? imin i then panic_str (iname i ++ "_add Underflow")
      else OVal (VInt r)
  | Sub =>
      let r := a - b in
      if isigned i then
        if r >? imax i then panic_str (iname i ++ "_sub Overflow")
        else if r <? imin i then panic_str (iname i ++ "_sub Underflow")
        else OVal (VInt r)
      else if r <? 0 then panic_str (iname i ++ "_sub Overflow")
      else OVal (VInt r)
  | Mul =>
      let r := a * b in
      if in_range i r then OVal (VInt r) else panic_str (iname i ++ "_mul Overflow")
  | Div =>
      if b =? 0 then panic_str "Division by 0"
      else if isigned i && (a =? imin i) && (b =? -1) then panic_str "attempt to divide with overflow"
      else OVal (VInt (Z.quot a b))
  | Rem =>
      if b =? 0 then panic_str "Division by 0"
      else if isigned i && (a =? imin i) && (b =? -1) then panic_str "attempt to divide with overflow"
      else OVal (VInt (Z.rem a b))
  | Eq => OVal (VBool (a =? b))
  | Ne => OVal (VBool (negb (a =? b)))
  | Lt => OVal (VBool (a <? b))
  | Le => OVal (VBool (a <=? b))
  | Gt => OVal (VBool (a >? b))
  | Ge => OVal (VBool (a >=? b))
  | And => if isigned i then OStuck else OVal (VInt (Z.land a b))
  | Or => if isigned i then OStuck else OVal (VInt (Z.lor a b))
  | Xor => if isigned i then OStuck else OVal (VInt (Z.lxor a b))
  end.

(* felt252: wrapping arithmetic mod P, equality only *)
Definition felt_arith (o : binop) (a b : Z) : opres :=
  match o with
  | Add => OVal (VInt (fadd a b))
  | Sub => OVal (VInt (fsub a b))
  | Mul => OVal (VInt (fmul a b))
  | Eq => OVal (VBool (a =? b))
  | Ne => OVal (VBool (negb (a =? b)))
  | _ => OStuck
  end.

Definition bool_arith (o : binop) (a b : bool) : opres :=
  match o with
  | Eq => OVal (VBool (Bool.eqb a b))
  | Ne => OVal (VBool (negb (Bool.eqb a b)))
  | And => OVal (VBool (a && b))
  | Or => OVal (VBool (a || b))
  | Xor => OVal (VBool (xorb a b))
  | _ => OStuck
  end.

(* structural equality (derived PartialEq on tuples / structs / enums of comparable data) *)
Fixpoint veq (a b : value) {struct a} : bool :=
  match a, b with
  | VInt x, VInt y => x =? y
  | VBool x, VBool y => Bool.eqb x y
  | VTup xs, VTup ys =>
      (fix go (xs ys : list value) : bool :=
         match xs, ys with
         | [], [] => true
         | x :: xs', y :: ys' => veq x y && go xs' ys'
         | _, _ => false
         end) xs ys
  | VEnum i x, VEnum j y => Nat.eqb i j && veq x y
  | _, _ => false
  end.

Definition binop_sem (o : binop) (t : ty) (a b : value) : opres :=
  match t, a, b with
  | TInt i, VInt x, VInt y => int_arith o i x y
  | TFelt, VInt x, VInt y => felt_arith o x y
  | TBool, VBool x, VBool y => bool_arith o x y
  | TTup _, VTup _, VTup _ | TEnum _, VEnum _ _, VEnum _ _ =>
      match o with
      | Eq => OVal (VBool (veq a b))
      | Ne => OVal (VBool (negb (veq a b)))
      | _ => OStuck
      end
  | _, _, _ => OStuck
  end.

Definition unop_sem (o : unop) (t : ty) (a : value) : opres :=
  match o, t, a with
  | Neg, TInt i, VInt x =>
      if isigned i then
        if x =? imin i then panic_str (iname i ++ "_neg Underflow") else OVal (VInt (- x))
      else OStuck
  | Neg, TFelt, VInt x => OVal (VInt (fsub 0 x))
  | Not, TBool, VBool b => OVal (VBool (negb b))
  | BitNot, TInt i, VInt x => if isigned i then OStuck else OVal (VInt (imax i - x))
  | _, _, _ => OStuck
  end.

(* the non-panicking families of core::num::traits on integers: wrapping_*, overflowing_*,
   checked_*, saturating_* (corelib/src/num/traits/ops/*.cairo, integer.cairo signed helpers):
   add and sub for every integer type, mul for the unsigned ones.  The wrapped value is the
   mathematical result reduced into the range of the type (two's complement for signed);
   overflowing returns (wrapped, overflowed?); checked returns an Option; saturating clamps. *)
Inductive arithk := AWrapping | AOverflowing | AChecked | ASaturating.

Definition wrap (i : ity) (r : Z) : Z := (r - imin i) mod 2 ^ ibits i + imin i.

Definition arith_sem (k : arithk) (o : binop) (i : ity) (a b : Z) : opres :=
  match (match o with
         | Add => Some (a + b)
         | Sub => Some (a - b)
         | Mul => if isigned i then None else Some (a * b)
         | _ => None
         end) with
  | None => OStuck
  | Some r =>
      match k with
      | AWrapping => OVal (VInt (wrap i r))
      | AOverflowing => OVal (VTup [VInt (wrap i r); VBool (negb (in_range i r))])
      | AChecked => OVal (if in_range i r then VSome (VInt r) else VNone)
      | ASaturating =>
          OVal (VInt (if r >? imax i then imax i else if r <? imin i then imin i else r))
      end
  end.

(* conversions.
   [CInto]: the total ones (Upcastable pairs: the source range is inside the target range;
            integer / bool -> felt252).
   [CTry] : `try_into()`, an Option: integer -> integer by range (downcast); felt252 -> integer:
            the felt is read as a signed number around 0 (P - k stands for -k). *)
Inductive castk := CInto | CTry.

Definition felt_signed (x : Z) : Z := if x >? P / 2 then x - P else x.

Definition cast_sem (k : castk) (from to : ty) (a : value) : opres :=
  match k, from, to, a with
  | CInto, TInt i, TInt j, VInt x =>
      if (imin j <=? imin i) && (imax i <=? imax j) then OVal (VInt x) else OStuck
  | CInto, TInt _, TFelt, VInt x => OVal (VInt (fnorm x))
  | CInto, TBool, TFelt, VBool b => OVal (VInt (if b then 1 else 0))
  | CTry, TInt _, TInt j, VInt x => OVal (if in_range j x then VSome (VInt x) else VNone)
  | CTry, TFelt, TInt j, VInt x =>
      let s := felt_signed x in OVal (if in_range j s then VSome (VInt s) else VNone)
  | _, _, _, _ => OStuck
  end.

(* ---------------------------------------------------------------------------------------- *)
(* expressions                                                                               *)
Inductive arg (E : Type) := AVal (e : E) | ARef (x : nat).
Arguments AVal {E} e.
Arguments ARef {E} x.

(* Constructs of type `never` (break / continue / return / panic) carry the type the context
   expects of them, so that types can be synthesised bottom-up. *)
Inductive expr :=
| ELit (t : ty) (z : Z)                         (* 5_u8, -3_i16, felt252 literal (canonical) *)
| EBool (b : bool)
| EVar (x : nat)
| EUn (o : unop) (t : ty) (e : expr)            (* t = operand type *)
| EBin (o : binop) (t : ty) (e1 e2 : expr)      (* t = operand type *)
| EAndAlso (e1 e2 : expr)                       (* && *)
| EOrElse (e1 e2 : expr)                        (* || *)
| ECast (k : castk) (from to : ty) (e : expr)   (* .into() / .try_into() *)
| ETup (es : list expr)                         (* tuple or struct literal *)
| EProj (i : nat) (e : expr)                    (* member access *)
| EEnum (t : ty) (idx : nat) (e : expr)         (* variant constructor of enum type t *)
| EMatch (e : expr) (arms : list (nat * expr))  (* arm i binds the payload of variant i *)
| EMatchInt (e : expr) (arms : list expr) (dflt : expr)   (* match x { 0 => .., 1 => .., _ => .. } *)
| EIf (c e1 e2 : expr)
| ELet (x : nat) (e1 body : expr)               (* let mut x = e1; body *)
| EAssign (x : nat) (e : expr)
| ESeq (e1 e2 : expr)                           (* e1; e2 *)
| ELoop (t : ty) (body : expr)                   (* t = type of the loop = of its break values *)
| EWhile (c body : expr)
| EBreak (t : ty) (e : expr)                    (* break e  (e = unit for a bare break) *)
| EContinue (t : ty)
| EReturn (t : ty) (e : expr)
| ECall (f : nat) (args : list (arg expr))
| ETry (e : expr)                               (* e?  on Option / Result *)
| EUnwrap (msg : Z) (e : expr)                  (* .unwrap() / .expect('msg') on Option / Result *)
| EPanic (t : ty) (d : list Z)                  (* panic_with_felt252 / panic! *)
| EAssert (c : expr) (d : list Z)               (* assert(c, 'msg') / assert!(c, "msg") *)
| EArrNew (t : ty)
| EArrAppend (x : nat) (e : expr)
| EArrPop (x : nat)                             (* x.pop_front() : Option<T> *)
| EArrLen (x : nat)
| EArrAt (x : nat) (i : expr)                   (* *x.at(i), panics 'Index out of bounds' *)
| ESnap (e : expr)
| EDesnap (e : expr)
| EBox (e : expr)                               (* BoxTrait::new(e) *)
| EUnbox (e : expr)                             (* e.unbox() *)
| ELetTup (xs : list nat) (e1 body : expr)      (* let (x1, .., xn) = e1; body   (tuple or struct pattern) *)
| EArith (k : arithk) (o : binop) (t : ty) (e1 e2 : expr).   (* e1.wrapping_add(e2), ... *)

(* a parameter: name, type, passed by `ref`? *)
Record param := { pname : nat; pty : ty; pref : bool }.
Record fdecl := { fparams : list param; fret : ty; fbody : expr }.
Definition prog := list fdecl.

(* ---------------------------------------------------------------------------------------- *)
(* evaluation                                                                                *)
Definition env := list (nat * value).

Fixpoint lookup (x : nat) (s : env) : option value :=
  match s with
  | [] => None
  | (y, v) :: r => if Nat.eqb x y then Some v else lookup x r
  end.
Fixpoint update (x : nat) (v : value) (s : env) : option env :=
  match s with
  | [] => None
  | (y, w) :: r =>
      if Nat.eqb x y then Some ((y, v) :: r)
      else match update x v r with Some r' => Some ((y, w) :: r') | None => None end
  end.

Inductive res :=
| RVal (v : value)
| RBrk (v : value)
| RCont
| RRet (v : value)
| RPanic (d : list Z)
| RFuel
| RStuck.

Definition of_opres (o : opres) (s : env) : res * env :=
  match o with
  | OVal v => (RVal v, s)
  | OPanic d => (RPanic d, s)
  | OStuck => (RStuck, s)
  end.

(* sequencing on a value *)
Definition bindv (r : res * env) (k : value -> env -> res * env) : res * env :=
  match r with
  | (RVal v, s) => k v s
  | (o, s) => (o, s)
  end.

Definition pop (r : res * env) : res * env := (fst r, tl (snd r)).

Inductive lres := LOk (vs : list value) | LErr (r : res).

Section WithEval.
  Variable ev : env -> expr -> res * env.

  Fixpoint eval_list (s : env) (es : list expr) : lres * env :=
    match es with
    | [] => (LOk [], s)
    | e :: r =>
        match ev s e with
        | (RVal v, s1) =>
            match eval_list s1 r with
            | (LOk vs, s2) => (LOk (v :: vs), s2)
            | x => x
            end
        | (o, s1) => (LErr o, s1)
        end
    end.

  (* by-value arguments are evaluated left to right; `ref` arguments are read afterwards, at
     the moment of the call *)
  Fixpoint eval_args (s : env) (a : list (arg expr)) : lres * env :=
    match a with
    | [] => (LOk [], s)
    | AVal e :: r =>
        match ev s e with
        | (RVal v, s1) =>
            match eval_args s1 r with
            | (LOk vs, s2) => (LOk (v :: vs), s2)
            | x => x
            end
        | (o, s1) => (LErr o, s1)
        end
    | ARef _ :: r => eval_args s r
    end.
End WithEval.

(* the callee's initial environment: parameters in order (first parameter innermost is
   irrelevant, names are distinct); [vs] are the values of the by-value arguments *)
Fixpoint bind_params (ps : list param) (a : list (arg expr)) (vs : list value) (s : env)
  : option env :=
  match ps, a with
  | [], [] => match vs with [] => Some [] | _ => None end
  | p :: ps', AVal _ :: a' =>
      if pref p then None else
      match vs with
      | v :: vs' =>
          match bind_params ps' a' vs' s with Some c => Some ((pname p, v) :: c) | None => None end
      | [] => None
      end
  | p :: ps', ARef x :: a' =>
      if pref p then
        match lookup x s, bind_params ps' a' vs s with
        | Some v, Some c => Some ((pname p, v) :: c)
        | _, _ => None
        end
      else None
  | _, _ => None
  end.

(* after the call: the final value of every `ref` parameter is written back *)
Fixpoint write_back (ps : list param) (a : list (arg expr)) (c : env) (s : env) : option env :=
  match ps, a with
  | [], [] => Some s
  | p :: ps', AVal _ :: a' => write_back ps' a' c s
  | p :: ps', ARef x :: a' =>
      match lookup (pname p) c with
      | Some v => match update x v s with Some s' => write_back ps' a' c s' | None => None end
      | None => None
      end
  | _, _ => None
  end.

(* destructuring: the variables of the pattern are pushed in order *)
Fixpoint bind_many (xs : list nat) (vs : list value) (s : env) : option env :=
  match xs, vs with
  | [], [] => Some s
  | x :: xr, v :: vr => bind_many xr vr ((x, v) :: s)
  | _, _ => None
  end.
Definition popn (k : nat) (r : res * env) : res * env := (fst r, skipn k (snd r)).

Definition unit_res (s : env) : res * env := (RVal VUnit, s).
Definition stuck (s : env) : res * env := (RStuck, s).

Fixpoint eval (p : prog) (n : nat) (s : env) (e : expr) {struct n} : res * env :=
  match n with
  | O => (RFuel, s)
  | S n =>
    match e with
    | ELit _ z => (RVal (VInt z), s)
    | EBool b => (RVal (VBool b), s)
    | EVar x => match lookup x s with Some v => (RVal v, s) | None => stuck s end
    | EUn o t e1 => bindv (eval p n s e1) (fun v s1 => of_opres (unop_sem o t v) s1)
    | EBin o t e1 e2 =>
        bindv (eval p n s e1) (fun a s1 =>
        bindv (eval p n s1 e2) (fun b s2 => of_opres (binop_sem o t a b) s2))
    | EAndAlso e1 e2 =>
        bindv (eval p n s e1) (fun a s1 =>
          match a with
          | VBool true => eval p n s1 e2
          | VBool false => (RVal (VBool false), s1)
          | _ => stuck s1
          end)
    | EOrElse e1 e2 =>
        bindv (eval p n s e1) (fun a s1 =>
          match a with
          | VBool true => (RVal (VBool true), s1)
          | VBool false => eval p n s1 e2
          | _ => stuck s1
          end)
    | ECast k from to e1 => bindv (eval p n s e1) (fun v s1 => of_opres (cast_sem k from to v) s1)
    | ETup es =>
        match eval_list (eval p n) s es with
        | (LOk vs, s1) => (RVal (VTup vs), s1)
        | (LErr o, s1) => (o, s1)
        end
    | EProj i e1 =>
        bindv (eval p n s e1) (fun v s1 =>
          match v with
          | VTup vs => match nth_error vs i with Some w => (RVal w, s1) | None => stuck s1 end
          | _ => stuck s1
          end)
    | EEnum _ idx e1 => bindv (eval p n s e1) (fun v s1 => (RVal (VEnum idx v), s1))
    | EMatch e1 arms =>
        bindv (eval p n s e1) (fun v s1 =>
          match v with
          | VEnum idx pv =>
              match nth_error arms idx with
              | Some (x, body) => pop (eval p n ((x, pv) :: s1) body)
              | None => stuck s1
              end
          | _ => stuck s1
          end)
    | EMatchInt e1 arms dflt =>
        bindv (eval p n s e1) (fun v s1 =>
          match v with
          | VInt z =>
              (* the range test comes first: [Z.to_nat] of a large felt must never be computed *)
              if (0 <=? z) && (z <? Z.of_nat (length arms)) then
                match nth_error arms (Z.to_nat z) with
                | Some body => eval p n s1 body
                | None => eval p n s1 dflt
                end
              else eval p n s1 dflt
          | _ => stuck s1
          end)
    | EIf c e1 e2 =>
        bindv (eval p n s c) (fun v s1 =>
          match v with
          | VBool true => eval p n s1 e1
          | VBool false => eval p n s1 e2
          | _ => stuck s1
          end)
    | ELet x e1 body =>
        bindv (eval p n s e1) (fun v s1 => pop (eval p n ((x, v) :: s1) body))
    | EAssign x e1 =>
        bindv (eval p n s e1) (fun v s1 =>
          match update x v s1 with Some s2 => unit_res s2 | None => stuck s1 end)
    | ESeq e1 e2 => bindv (eval p n s e1) (fun _ s1 => eval p n s1 e2)
    | ELoop t body =>
        match eval p n s body with
        | (RVal _, s1) | (RCont, s1) => eval p n s1 (ELoop t body)
        | (RBrk v, s1) => (RVal v, s1)
        | x => x
        end
    | EWhile c body =>
        bindv (eval p n s c) (fun v s1 =>
          match v with
          | VBool true =>
              match eval p n s1 body with
              | (RVal _, s2) | (RCont, s2) => eval p n s2 (EWhile c body)
              | (RBrk _, s2) => unit_res s2
              | x => x
              end
          | VBool false => unit_res s1
          | _ => stuck s1
          end)
    | EBreak _ e1 => bindv (eval p n s e1) (fun v s1 => (RBrk v, s1))
    | EContinue _ => (RCont, s)
    | EReturn _ e1 => bindv (eval p n s e1) (fun v s1 => (RRet v, s1))
    | ECall f args =>
        match nth_error p f with
        | None => stuck s
        | Some fd =>
            match eval_args (eval p n) s args with
            | (LErr o, s1) => (o, s1)
            | (LOk vs, s1) =>
                match bind_params (fparams fd) args vs s1 with
                | None => stuck s1
                | Some c =>
                    match eval p n c (fbody fd) with
                    | (RVal v, c') | (RRet v, c') =>
                        match write_back (fparams fd) args c' s1 with
                        | Some s2 => (RVal v, s2)
                        | None => stuck s1
                        end
                    | (RPanic d, _) => (RPanic d, s1)
                    | (RFuel, _) => (RFuel, s1)
                    | (_, _) => stuck s1
                    end
                end
            end
        end
    | ETry e1 =>
        bindv (eval p n s e1) (fun v s1 =>
          match v with
          | VEnum O pv => (RVal pv, s1)
          | VEnum (S O) pv => (RRet (VEnum 1 pv), s1)
          | _ => stuck s1
          end)
    | EUnwrap msg e1 =>
        bindv (eval p n s e1) (fun v s1 =>
          match v with
          | VEnum O pv => (RVal pv, s1)
          | VEnum (S O) _ => (RPanic [msg], s1)
          | _ => stuck s1
          end)
    | EPanic _ d => (RPanic d, s)
    | EAssert c d =>
        bindv (eval p n s c) (fun v s1 =>
          match v with
          | VBool true => unit_res s1
          | VBool false => (RPanic d, s1)
          | _ => stuck s1
          end)
    | EArrNew _ => (RVal (VArr []), s)
    | EArrAppend x e1 =>
        bindv (eval p n s e1) (fun v s1 =>
          match lookup x s1 with
          | Some (VArr l) =>
              match update x (VArr (l ++ [v])) s1 with Some s2 => unit_res s2 | None => stuck s1 end
          | _ => stuck s1
          end)
    | EArrPop x =>
        match lookup x s with
        | Some (VArr []) => (RVal VNone, s)
        | Some (VArr (h :: t)) =>
            match update x (VArr t) s with Some s1 => (RVal (VSome h), s1) | None => stuck s end
        | _ => stuck s
        end
    | EArrLen x =>
        match lookup x s with
        | Some (VArr l) => (RVal (VInt (Z.of_nat (length l))), s)
        | _ => stuck s
        end
    | EArrAt x i =>
        bindv (eval p n s i) (fun iv s1 =>
          match iv, lookup x s1 with
          | VInt z, Some (VArr l) =>
              (* the range test comes first: [Z.to_nat] of a large index must never be computed
                 (an index is a u32, so it is never negative in a run from in-range inputs) *)
              if (0 <=? z) && (z <? Z.of_nat (length l)) then
                match nth_error l (Z.to_nat z) with
                | Some w => (RVal w, s1)
                | None => stuck s1
                end
              else (RPanic [short "Index out of bounds"], s1)
          | _, _ => stuck s1
          end)
    | ESnap e1 => eval p n s e1
    | EDesnap e1 => eval p n s e1
    | EBox e1 => eval p n s e1
    | EUnbox e1 => eval p n s e1
    | ELetTup xs e1 body =>
        bindv (eval p n s e1) (fun v s1 =>
          match v with
          | VTup vs =>
              match bind_many xs vs s1 with
              | Some s2 => popn (length xs) (eval p n s2 body)
              | None => stuck s1
              end
          | _ => stuck s1
          end)
    | EArith k o t e1 e2 =>
        bindv (eval p n s e1) (fun a s1 =>
        bindv (eval p n s1 e2) (fun b s2 =>
          match t, a, b with
          | TInt i, VInt x, VInt y => of_opres (arith_sem k o i x y) s2
          | _, _, _ => stuck s2
          end))
    end
  end.

(* ---------------------------------------------------------------------------------------- *)
(* whole-function meaning                                                                    *)
Inductive outcome := Value (v : value) | Panic (d : list Z) | OutOfFuel | Stuck.

Fixpoint entry_env (ps : list param) (vs : list value) : option env :=
  match ps, vs with
  | [], [] => Some []
  | p :: ps', v :: vs' =>
      match entry_env ps' vs' with Some c => Some ((pname p, v) :: c) | None => None end
  | _, _ => None
  end.

Definition eval_fn (p : prog) (f : nat) (args : list value) (n : nat) : outcome :=
  match nth_error p f with
  | None => Stuck
  | Some fd =>
      match entry_env (fparams fd) args with
      | None => Stuck
      | Some c =>
          match fst (eval p n c (fbody fd)) with
          | RVal v | RRet v => Value v
          | RPanic d => Panic d
          | RFuel => OutOfFuel
          | _ => Stuck
          end
      end
  end.

(* data of `panic!("msg")` / `assert!(c, "msg")` for a message shorter than 31 bytes:
   ByteArray serialisation behind the magic (core::byte_array::BYTE_ARRAY_MAGIC) *)
Definition BYTE_ARRAY_MAGIC : Z :=
  0x46a6158a16a947e5916b2a2ca68501a45e93d7110e81aa2d6438b1c57c879a3.
Definition bytearray_panic (s : string) : list Z :=
  [BYTE_ARRAY_MAGIC; 0; short s; Z.of_nat (String.length s)].
