(* C01/Typing.v -- the type checker of the reference language (a total boolean function, so the
   correspondence run can confirm that every generated program is well typed) and the typing of
   values.  Model file: definitions only.

   Value typing is about SHAPE (an integer is a [VInt], a tuple has the right arity, ...); that an
   integer of type uN lies in the range of uN is a separate family of lemmas about the checked
   operators (RefProofs.v), not part of [vtb]. *)
From C01 Require Export Ref.
Open Scope Z_scope.

Fixpoint ty_eqb (a b : ty) {struct a} : bool :=
  match a, b with
  | TInt i, TInt j => ity_eqb i j
  | TFelt, TFelt => true
  | TBool, TBool => true
  | TTup xs, TTup ys | TEnum xs, TEnum ys =>
      (fix go (xs ys : list ty) : bool :=
         match xs, ys with
         | [], [] => true
         | x :: xs', y :: ys' => ty_eqb x y && go xs' ys'
         | _, _ => false
         end) xs ys
  | TArr x, TArr y => ty_eqb x y
  | TSnap x, TSnap y => ty_eqb x y
  | TBox x, TBox y => ty_eqb x y
  | _, _ => false
  end.

(* ---------- value typing ---------- *)
Fixpoint vtb (t : ty) (v : value) {struct t} : bool :=
  match t, v with
  | TInt _, VInt _ => true
  | TFelt, VInt _ => true
  | TBool, VBool _ => true
  | TTup ts, VTup vs =>
      (fix go (ts : list ty) (vs : list value) : bool :=
         match ts, vs with
         | [], [] => true
         | t :: ts', v :: vs' => vtb t v && go ts' vs'
         | _, _ => false
         end) ts vs
  | TEnum vts, VEnum idx pv =>
      (fix go (vts : list ty) (k : nat) : bool :=
         match vts, k with
         | t :: _, O => vtb t pv
         | _ :: r, S k' => go r k'
         | [], _ => false
         end) vts idx
  | TArr t, VArr l =>
      (fix go (l : list value) : bool :=
         match l with [] => true | v :: r => vtb t v && go r end) l
  | TSnap t, _ => vtb t v
  | TBox t, _ => vtb t v
  | _, _ => false
  end.

(* ---------- contexts ---------- *)
Definition ctx := list (nat * ty).

Fixpoint lookupT (x : nat) (G : ctx) : option ty :=
  match G with
  | [] => None
  | (y, t) :: r => if Nat.eqb x y then Some t else lookupT x r
  end.

Record fsig := { sparams : list param; sret : ty }.
Definition sig_of (fd : fdecl) : fsig := {| sparams := fparams fd; sret := fret fd |}.
Definition sigs (p : prog) : list fsig := map sig_of p.

Definition is_cmp (o : binop) : bool :=
  match o with Eq | Ne | Lt | Le | Gt | Ge => true | _ => false end.

(* result type of a binary operator on operands of type t *)
Definition binop_ty (o : binop) (t : ty) : option ty :=
  match t with
  | TInt i =>
      match o with
      | Add | Sub | Mul | Div | Rem => Some t
      | Eq | Ne | Lt | Le | Gt | Ge => Some TBool
      | And | Or | Xor => if isigned i then None else Some t
      end
  | TFelt =>
      match o with
      | Add | Sub | Mul => Some TFelt
      | Eq | Ne => Some TBool
      | _ => None
      end
  | TBool =>
      match o with
      | Eq | Ne | And | Or | Xor => Some TBool
      | _ => None
      end
  | TTup _ | TEnum _ =>
      match o with Eq | Ne => Some TBool | _ => None end
  | _ => None
  end.

Definition unop_ty (o : unop) (t : ty) : option ty :=
  match o, t with
  | Neg, TInt i => if isigned i then Some t else None
  | Neg, TFelt => Some TFelt
  | Not, TBool => Some TBool
  | BitNot, TInt i => if isigned i then None else Some t
  | _, _ => None
  end.

Definition cast_ty (k : castk) (from to : ty) : option ty :=
  match k, from, to with
  | CInto, TInt i, TInt j => if (imin j <=? imin i) && (imax i <=? imax j) then Some to else None
  | CInto, TInt _, TFelt => Some TFelt
  | CInto, TBool, TFelt => Some TFelt
  | CTry, TInt _, TInt _ => Some (TOption to)
  | CTry, TFelt, TInt _ => Some (TOption to)
  | _, _, _ => None
  end.

Definition arith_ty (k : arithk) (o : binop) (t : ty) : option ty :=
  match t with
  | TInt i =>
      if match o with Add | Sub => true | Mul => negb (isigned i) | _ => false end then
        Some (match k with
              | AWrapping | ASaturating => t
              | AOverflowing => TTup [t; TBool]
              | AChecked => TOption t
              end)
      else None
  | _ => None
  end.

(* element type of an array or of a snapshot of an array *)
Definition arr_elem (t : ty) : option ty :=
  match t with
  | TArr e => Some e
  | TSnap (TArr e) => Some e
  | _ => None
  end.

Definition lit_ok (t : ty) : bool :=
  match t with TInt _ | TFelt => true | _ => false end.

Section Check.
  Variable S : list fsig.     (* signatures of the program's functions *)
  Variable R : ty.            (* return type of the function being checked *)

  (* L = break type of the innermost enclosing loop, if any *)
  Fixpoint tc (L : option ty) (G : ctx) (e : expr) {struct e} : option ty :=
    match e with
    | ELit t _ => if lit_ok t then Some t else None
    | EBool _ => Some TBool
    | EVar x => lookupT x G
    | EUn o t e1 =>
        match tc L G e1 with
        | Some t1 => if ty_eqb t1 t then unop_ty o t else None
        | None => None
        end
    | EBin o t e1 e2 =>
        match tc L G e1, tc L G e2 with
        | Some t1, Some t2 => if ty_eqb t1 t && ty_eqb t2 t then binop_ty o t else None
        | _, _ => None
        end
    | EAndAlso e1 e2 | EOrElse e1 e2 =>
        match tc L G e1, tc L G e2 with
        | Some TBool, Some TBool => Some TBool
        | _, _ => None
        end
    | ECast k from to e1 =>
        match tc L G e1 with
        | Some t1 => if ty_eqb t1 from then cast_ty k from to else None
        | None => None
        end
    | ETup es =>
        match (fix go (es : list expr) : option (list ty) :=
                 match es with
                 | [] => Some []
                 | e1 :: r =>
                     match tc L G e1, go r with
                     | Some t, Some ts => Some (t :: ts)
                     | _, _ => None
                     end
                 end) es with
        | Some ts => Some (TTup ts)
        | None => None
        end
    | EProj i e1 =>
        match tc L G e1 with
        | Some (TTup ts) => nth_error ts i
        | _ => None
        end
    | EEnum t idx e1 =>
        match t, tc L G e1 with
        | TEnum vts, Some t1 =>
            match nth_error vts idx with
            | Some pt => if ty_eqb t1 pt then Some t else None
            | None => None
            end
        | _, _ => None
        end
    | EMatch e1 arms =>
        match tc L G e1 with
        | Some (TEnum vts) =>
            (* every arm has the same type; at least one arm; one arm per variant *)
            (fix go (arms : list (nat * expr)) (vts : list ty) (acc : option ty) {struct arms} : option ty :=
               match arms, vts with
               | [], [] => acc
               | (x, body) :: arms', pt :: vts' =>
                   match tc L ((x, pt) :: G) body with
                   | Some t =>
                       match acc with
                       | None => go arms' vts' (Some t)
                       | Some t0 => if ty_eqb t t0 then go arms' vts' acc else None
                       end
                   | None => None
                   end
               | _, _ => None
               end) arms vts None
        | _ => None
        end
    | EMatchInt e1 arms dflt =>
        match tc L G e1, tc L G dflt with
        | Some ts, Some t =>
            if match ts with TInt i => negb (isigned i) | TFelt => true | _ => false end then
              (fix go (arms : list expr) : option ty :=
                 match arms with
                 | [] => Some t
                 | a :: r =>
                     match tc L G a with
                     | Some ta => if ty_eqb ta t then go r else None
                     | None => None
                     end
                 end) arms
            else None
        | _, _ => None
        end
    | EIf c e1 e2 =>
        match tc L G c, tc L G e1, tc L G e2 with
        | Some TBool, Some t1, Some t2 => if ty_eqb t1 t2 then Some t1 else None
        | _, _, _ => None
        end
    | ELet x e1 body =>
        match tc L G e1 with
        | Some t1 => tc L ((x, t1) :: G) body
        | None => None
        end
    | EAssign x e1 =>
        match lookupT x G, tc L G e1 with
        | Some tx, Some t1 => if ty_eqb t1 tx then Some TUnit else None
        | _, _ => None
        end
    | ESeq e1 e2 =>
        match tc L G e1 with
        | Some _ => tc L G e2
        | None => None
        end
    | ELoop t body =>
        match tc (Some t) G body with
        | Some _ => Some t
        | None => None
        end
    | EWhile c body =>
        match tc L G c, tc (Some TUnit) G body with
        | Some TBool, Some _ => Some TUnit
        | _, _ => None
        end
    | EBreak t e1 =>
        match L, tc L G e1 with
        | Some bt, Some t1 => if ty_eqb t1 bt then Some t else None
        | _, _ => None
        end
    | EContinue t => match L with Some _ => Some t | None => None end
    | EReturn t e1 =>
        match tc L G e1 with
        | Some t1 => if ty_eqb t1 R then Some t else None
        | None => None
        end
    | ECall f args =>
        match nth_error S f with
        | Some sg =>
            if (fix go (a : list (arg expr)) (ps : list param) {struct a} : bool :=
                  match a, ps with
                  | [], [] => true
                  | AVal e1 :: a', p :: ps' =>
                      negb (pref p) &&
                      match tc L G e1 with Some t1 => ty_eqb t1 (pty p) | None => false end && go a' ps'
                  | ARef x :: a', p :: ps' =>
                      pref p &&
                      match lookupT x G with Some tx => ty_eqb tx (pty p) | None => false end && go a' ps'
                  | _, _ => false
                  end) args (sparams sg)
            then Some (sret sg) else None
        | None => None
        end
    | ETry e1 =>
        match tc L G e1, R with
        | Some (TEnum [t; err]), TEnum [_; err'] => if ty_eqb err err' then Some t else None
        | _, _ => None
        end
    | EUnwrap _ e1 =>
        match tc L G e1 with
        | Some (TEnum [t; _]) => Some t
        | _ => None
        end
    | EPanic t _ => Some t
    | EAssert c _ =>
        match tc L G c with Some TBool => Some TUnit | _ => None end
    | EArrNew t => Some (TArr t)
    | EArrAppend x e1 =>
        match lookupT x G, tc L G e1 with
        | Some (TArr te), Some t1 => if ty_eqb t1 te then Some TUnit else None
        | _, _ => None
        end
    | EArrPop x =>
        match lookupT x G with
        | Some (TArr te) => Some (TOption te)
        | _ => None
        end
    | EArrLen x =>
        match lookupT x G with
        | Some tx => match arr_elem tx with Some _ => Some (TInt U32) | None => None end
        | None => None
        end
    | EArrAt x i =>
        match lookupT x G, tc L G i with
        | Some tx, Some (TInt U32) => arr_elem tx
        | _, _ => None
        end
    | ESnap e1 =>
        match tc L G e1 with Some t => Some (TSnap t) | None => None end
    | EDesnap e1 =>
        match tc L G e1 with Some (TSnap t) => Some t | _ => None end
    | EBox e1 =>
        match tc L G e1 with Some t => Some (TBox t) | None => None end
    | EUnbox e1 =>
        match tc L G e1 with Some (TBox t) => Some t | _ => None end
    | ELetTup xs e1 body =>
        match tc L G e1 with
        | Some (TTup ts) =>
            if Nat.eqb (length xs) (length ts) then tc L (rev (combine xs ts) ++ G) body else None
        | _ => None
        end
    | EArith k o t e1 e2 =>
        match tc L G e1, tc L G e2 with
        | Some t1, Some t2 => if ty_eqb t1 t && ty_eqb t2 t then arith_ty k o t else None
        | _, _ => None
        end
    end.
End Check.

Definition param_ctx (ps : list param) : ctx := map (fun p => (pname p, pty p)) ps.

(* looking a parameter up by name finds that parameter (names are distinct, or at least the
   first binding of a name has the same type) *)
Definition params_ok (ps : list param) : bool :=
  forallb (fun p => match lookupT (pname p) (param_ctx ps) with
                    | Some t => ty_eqb t (pty p)
                    | None => false
                    end) ps.

Definition wt_fn (S : list fsig) (fd : fdecl) : bool :=
  params_ok (fparams fd) &&
  match tc S (fret fd) None (param_ctx (fparams fd)) (fbody fd) with
  | Some t => ty_eqb t (fret fd)
  | None => false
  end.

Definition wt_prog (p : prog) : bool := forallb (wt_fn (sigs p)) p.
