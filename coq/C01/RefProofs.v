(* C01/RefProofs.v -- facts about the reference semantics itself (Ref.v).
   NOTHING here relates [eval] to the compiler: that relation is the correspondence run
   (harness/h01 -> Corr.check_run), which is exploration, not proof. *)
From C01 Require Import Ref.
Open Scope Z_scope.

(* ---------------------------------------------------------------------------------------- *)
(* the panic data of checked arithmetic is exact: the operation panics iff the mathematical
   result leaves the range of the type, with the corelib's felt; otherwise it returns the
   mathematical result *)

Lemma in_range_spec i z : in_range i z = true <-> imin i <= z <= imax i.
Proof. unfold in_range. rewrite andb_true_iff, !Z.leb_le. tauto. Qed.

Lemma imin_unsigned i : isigned i = false -> imin i = 0.
Proof. unfold imin. intros ->. reflexivity. Qed.

Lemma imin_le_0 i : imin i <= 0.
Proof. destruct i; vm_compute; discriminate. Qed.
Lemma imax_ge_0 i : 0 <= imax i.
Proof. destruct i; vm_compute; discriminate. Qed.

Lemma add_exact i a b :
  (in_range i (a + b) = true -> int_arith Add i a b = OVal (VInt (a + b)))
  /\ (imax i < a + b -> int_arith Add i a b = panic_str (iname i ++ "_add Overflow"))
  /\ (a + b < imin i -> int_arith Add i a b = panic_str (iname i ++ "_add Underflow")).
Proof.
  pose proof (imin_le_0 i) as Hlo. pose proof (imax_ge_0 i) as Hhi.
  unfold int_arith. repeat split.
  - intros H. apply in_range_spec in H.
    destruct (Z.gtb_spec (a + b) (imax i)); [lia|].
    destruct (Z.ltb_spec (a + b) (imin i)); [lia|]. reflexivity.
  - intros H. destruct (Z.gtb_spec (a + b) (imax i)); [reflexivity|lia].
  - intros H. destruct (Z.gtb_spec (a + b) (imax i)); [lia|].
    destruct (Z.ltb_spec (a + b) (imin i)); [reflexivity|lia].
Qed.

(* unsigned operands in range can only overflow upwards: 'uN_add Underflow' never occurs *)
Lemma add_unsigned_no_underflow i a b :
  isigned i = false -> in_range i a = true -> in_range i b = true -> imin i <= a + b.
Proof.
  intros Hs Ha Hb. apply in_range_spec in Ha, Hb. rewrite (imin_unsigned i Hs) in *. lia.
Qed.

Lemma sub_exact i a b :
  (in_range i (a - b) = true -> int_arith Sub i a b = OVal (VInt (a - b)))
  /\ (isigned i = true -> imax i < a - b ->
        int_arith Sub i a b = panic_str (iname i ++ "_sub Overflow"))
  /\ (isigned i = true -> a - b < imin i ->
        int_arith Sub i a b = panic_str (iname i ++ "_sub Underflow"))
  /\ (isigned i = false -> a - b < 0 ->
        int_arith Sub i a b = panic_str (iname i ++ "_sub Overflow")).
Proof.
  pose proof (imin_le_0 i) as Hlo. pose proof (imax_ge_0 i) as Hhi.
  unfold int_arith. repeat split.
  - intros H. apply in_range_spec in H. destruct (isigned i) eqn:Hs.
    + destruct (Z.gtb_spec (a - b) (imax i)); [lia|].
      destruct (Z.ltb_spec (a - b) (imin i)); [lia|]. reflexivity.
    + rewrite (imin_unsigned i Hs) in H. destruct (Z.ltb_spec (a - b) 0); [lia|]. reflexivity.
  - intros -> H. destruct (Z.gtb_spec (a - b) (imax i)); [reflexivity|lia].
  - intros -> H. destruct (Z.gtb_spec (a - b) (imax i)); [lia|].
    destruct (Z.ltb_spec (a - b) (imin i)); [reflexivity|lia].
  - intros -> H. destruct (Z.ltb_spec (a - b) 0); [reflexivity|lia].
Qed.

Lemma mul_exact i a b :
  (in_range i (a * b) = true -> int_arith Mul i a b = OVal (VInt (a * b)))
  /\ (in_range i (a * b) = false -> int_arith Mul i a b = panic_str (iname i ++ "_mul Overflow")).
Proof. unfold int_arith. split; intros ->; reflexivity. Qed.

(* division: truncation towards zero, remainder with the sign of the dividend *)
Lemma div_rem_exact i a b q r :
  b <> 0 -> ~ (isigned i = true /\ a = imin i /\ b = -1) ->
  int_arith Div i a b = OVal (VInt q) -> int_arith Rem i a b = OVal (VInt r) ->
  a = b * q + r /\ Z.abs r < Z.abs b /\ (0 <= a -> 0 <= r) /\ (a <= 0 -> r <= 0).
Proof.
  intros Hb Hov. unfold int_arith.
  destruct (Z.eqb_spec b 0) as [|_]; [contradiction|].
  destruct (isigned i && (a =? imin i) && (b =? -1)) eqn:E.
  - apply andb_true_iff in E. destruct E as [E E3]. apply andb_true_iff in E. destruct E as [E1 E2].
    apply Z.eqb_eq in E2, E3. exfalso. apply Hov. auto.
  - intros Hq Hr. inversion Hq; inversion Hr; subst.
    split; [apply Z.quot_rem'|].
    split; [apply Z.rem_bound_abs; assumption|].
    split; intros H.
    + apply Z.rem_nonneg; assumption.
    + apply Z.rem_nonpos; assumption.
Qed.

Lemma div_by_zero i a :
  int_arith Div i a 0 = panic_str "Division by 0" /\ int_arith Rem i a 0 = panic_str "Division by 0".
Proof. split; reflexivity. Qed.

Lemma div_min_by_minus_one i :
  isigned i = true ->
  int_arith Div i (imin i) (-1) = panic_str "attempt to divide with overflow"
  /\ int_arith Rem i (imin i) (-1) = panic_str "attempt to divide with overflow".
Proof.
  intros Hs. unfold int_arith. rewrite Hs, Z.eqb_refl. split; reflexivity.
Qed.

