(* C01/RefProofs.v -- facts about the reference semantics itself (Ref.v).
   NOTHING here relates [eval] to the compiler: that relation is the correspondence run
   (harness/h01 -> Corr.check_run), which is exploration, not proof. *)
From C01 Require Import Ref.
Open Scope Z_scope.

(* ---------------------------------------------------------------------------------------- *)
(* the panic data of checked arithmetic is exact: the operation panics iff the mathematical
   result leaves the range of the type, with the corelib's felt; otherwise it returns the
   mathematical result *)

Lemma in_range_spec i z : in_range i z = true <-> imin i <= z <= imax i.
Proof. unfold in_range. rewrite andb_true_iff, !Z.leb_le. tauto. Qed.

Lemma imin_unsigned i : isigned i = false -> imin i = 0.
Proof. unfold imin. intros ->. reflexivity. Qed.

Lemma imin_le_0 i : imin i <= 0.
Proof. destruct i; vm_compute; discriminate. Qed.
Lemma imax_ge_0 i : 0 <= imax i.
Proof. destruct i; vm_compute; discriminate. Qed.

Lemma add_exact i a b :
  (in_range i (a + b) = true -> int_arith Add i a b = OVal (VInt (a + b)))
  /\ (imax i < a + b -> int_arith Add i a b = panic_str (iname i ++ "_add Overflow"))
  /\ (a + b < imin i -> int_arith Add i a b = panic_str (iname i ++ "_add Underflow")).
Proof.
  pose proof (imin_le_0 i) as Hlo. pose proof (imax_ge_0 i) as Hhi.
  unfold int_arith. repeat split.
  - intros H. apply in_range_spec in H.
    destruct (Z.gtb_spec (a + b) (imax i)); [lia|].
    destruct (Z.ltb_spec (a + b) (imin i)); [lia|]. reflexivity.
  - intros H. destruct (Z.gtb_spec (a + b) (imax i)); [reflexivity|lia].
  - intros H. destruct (Z.gtb_spec (a + b) (imax i)); [lia|].
    destruct (Z.ltb_spec (a + b) (imin i)); [reflexivity|lia].
Qed.

(* unsigned operands in range can only overflow upwards: 'uN_add Underflow' never occurs *)
Lemma add_unsigned_no_underflow i a b :
  isigned i = false -> in_range i a = true -> in_range i b = true -> imin i <= a + b.
Proof.
  intros Hs Ha Hb. apply in_range_spec in Ha, Hb. rewrite (imin_unsigned i Hs) in *. lia.
Qed.

Lemma sub_exact i a b :
  (in_range i (a - b) = true -> int_arith Sub i a b = OVal (VInt (a - b)))
  /\ (isigned i = true -> imax i < a - b ->
        int_arith Sub i a b = panic_str (iname i ++ "_sub Overflow"))
  /\ (isigned i = true -> a - b < imin i ->
        int_arith Sub i a b = panic_str (iname i ++ "_sub Underflow"))
  /\ (isigned i = false -> a - b < 0 ->
        int_arith Sub i a b = panic_str (iname i ++ "_sub Overflow")).
Proof.
  pose proof (imin_le_0 i) as Hlo. pose proof (imax_ge_0 i) as Hhi.
  unfold int_arith. repeat split.
  - intros H. apply in_range_spec in H. destruct (isigned i) eqn:Hs.
    + destruct (Z.gtb_spec (a - b) (imax i)); [lia|].
      destruct (Z.ltb_spec (a - b) (imin i)); [lia|]. reflexivity.
    + rewrite (imin_unsigned i Hs) in H. destruct (Z.ltb_spec (a - b) 0); [lia|]. reflexivity.
  - intros -> H. destruct (Z.gtb_spec (a - b) (imax i)); [reflexivity|lia].
  - intros -> H. destruct (Z.gtb_spec (a - b) (imax i)); [lia|].
    destruct (Z.ltb_spec (a - b) (imin i)); [reflexivity|lia].
  - intros -> H. destruct (Z.ltb_spec (a - b) 0); [reflexivity|lia].
Qed.

Lemma mul_exact i a b :
  (in_range i (a * b) = true -> int_arith Mul i a b = OVal (VInt (a * b)))
  /\ (in_range i (a * b) = false -> int_arith Mul i a b = panic_str (iname i ++ "_mul Overflow")).
Proof. unfold int_arith. split; intros ->; reflexivity. Qed.

(* division: truncation towards zero, remainder with the sign of the dividend *)
Lemma div_rem_exact i a b q r :
  b <> 0 -> ~ (isigned i = true /\ a = imin i /\ b = -1) ->
  int_arith Div i a b = OVal (VInt q) -> int_arith Rem i a b = OVal (VInt r) ->
  a = b * q + r /\ Z.abs r < Z.abs b /\ (0 <= a -> 0 <= r) /\ (a <= 0 -> r <= 0).
Proof.
  intros Hb Hov. unfold int_arith.
  destruct (Z.eqb_spec b 0) as [|_]; [contradiction|].
  destruct (isigned i && (a =? imin i) && (b =? -1)) eqn:E.
  - apply andb_true_iff in E. destruct E as [E E3]. apply andb_true_iff in E. destruct E as [E1 E2].
    apply Z.eqb_eq in E2, E3. exfalso. apply Hov. auto.
  - intros Hq Hr. inversion Hq; inversion Hr; subst.
    split; [apply Z.quot_rem'|].
    split; [apply Z.rem_bound_abs; assumption|].
    split; intros H.
    + apply Z.rem_nonneg; assumption.
    + apply Z.rem_nonpos; assumption.
Qed.

Lemma div_by_zero i a :
  int_arith Div i a 0 = panic_str "Division by 0" /\ int_arith Rem i a 0 = panic_str "Division by 0".
Proof. split; reflexivity. Qed.

Lemma div_min_by_minus_one i :
  isigned i = true ->
  int_arith Div i (imin i) (-1) = panic_str "attempt to divide with overflow"
  /\ int_arith Rem i (imin i) (-1) = panic_str "attempt to divide with overflow".
Proof.
  intros Hs. unfold int_arith. rewrite Hs, Z.eqb_refl. split; reflexivity.
Qed.


(* ---------------------------------------------------------------------------------------- *)
(* fuel monotonicity: a result other than "out of fuel" is stable under more fuel             *)

Definition refines (ev1 ev2 : env -> expr -> res * env) : Prop :=
  forall s e r s', ev1 s e = (r, s') -> r <> RFuel -> ev2 s e = (r, s').

Lemma eval_list_mono ev1 ev2 :
  refines ev1 ev2 ->
  forall es s l s', eval_list ev1 s es = (l, s') -> l <> LErr RFuel -> eval_list ev2 s es = (l, s').
Proof.
  intros Href. induction es as [|e es IH]; intros s l s' H Hl; cbn [eval_list] in *.
  - exact H.
  - destruct (ev1 s e) as [r1 s1] eqn:E1.
    assert (Hr1 : r1 <> RFuel).
    { intros ->. inversion H; subst. congruence. }
    rewrite (Href _ _ _ _ E1 Hr1).
    destruct r1; try exact H.
    destruct (eval_list ev1 s1 es) as [l2 s2] eqn:E2.
    assert (Hl2 : l2 <> LErr RFuel).
    { intros ->. inversion H; subst. congruence. }
    rewrite (IH _ _ _ E2 Hl2). exact H.
Qed.

Lemma eval_args_mono ev1 ev2 :
  refines ev1 ev2 ->
  forall a s l s', eval_args ev1 s a = (l, s') -> l <> LErr RFuel -> eval_args ev2 s a = (l, s').
Proof.
  intros Href. induction a as [|x a IH]; intros s l s' H Hl; cbn [eval_args] in *.
  - exact H.
  - destruct x as [e|y].
    + destruct (ev1 s e) as [r1 s1] eqn:E1.
      assert (Hr1 : r1 <> RFuel).
      { intros ->. inversion H; subst. congruence. }
      rewrite (Href _ _ _ _ E1 Hr1).
      destruct r1; try exact H.
      destruct (eval_args ev1 s1 a) as [l2 s2] eqn:E2.
      assert (Hl2 : l2 <> LErr RFuel).
      { intros ->. inversion H; subst. congruence. }
      rewrite (IH _ _ _ E2 Hl2). exact H.
    + apply IH; assumption.
Qed.

(* one evaluation step of the proof: name a closed sub-evaluation of the hypothesis, show that it
   did not run out of fuel (else the whole would have), transport it to the bigger fuel *)
Ltac mono_step IH m :=
  match goal with
  | H : context [eval ?p ?n ?s ?e] |- _ =>
      let r1 := fresh "r" in let s1 := fresh "s" in let E := fresh "E" in
      destruct (eval p n s e) as [r1 s1] eqn:E;
      let Hr := fresh "Hr" in
      assert (Hr : r1 <> RFuel) by
        (let X := fresh in intros X; rewrite X in *; cbn in H;
         match type of H with (?a, _) = (?b, _) => try (inversion H; subst; congruence) end);
      rewrite (IH _ _ _ _ E Hr m ltac:(lia));
      destruct r1; cbn in H |- *; try (exact H); try congruence
  end.

Lemma eval_mono p : forall n s e r s',
  eval p n s e = (r, s') -> r <> RFuel -> forall m, (n <= m)%nat -> eval p m s e = (r, s').
Proof.
  induction n as [|n IH]; intros s e r s' H Hr m Hm.
  - cbn in H. inversion H; subst. congruence.
  - destruct m as [|m]; [lia|]. assert (Hnm : (n <= m)%nat) by lia.
    assert (Href : refines (eval p n) (eval p m)).
    { intros s0 e0 r0 s0' H0 Hr0. eapply IH; eauto. }
    destruct e; cbn [eval] in H |- *; unfold bindv, pop, popn, unit_res, stuck in *.
    all: try exact H.
    all: try solve [
              repeat mono_step IH m;
              repeat match goal with
                | H : context [match ?v with _ => _ end] |- _ =>
                    match v with
                    | context [eval] => fail 1
                    | _ => destruct v eqn:?; cbn in H |- *; try exact H; try congruence
                    end
                end;
              repeat mono_step IH m;
              try exact H; try (eapply IH; eauto; fail) ].
    + (* ETup *)
      destruct (eval_list (eval p n) s es) as [l s1] eqn:E.
      assert (Hl : l <> LErr RFuel).
      { intros ->. inversion H; subst. congruence. }
      rewrite (eval_list_mono _ _ Href _ _ _ _ E Hl). exact H.
    + (* ECall *)
      destruct (nth_error p f) as [fd|]; [|exact H].
      destruct (eval_args (eval p n) s args) as [l s1] eqn:E.
      assert (Hl : l <> LErr RFuel).
      { intros ->. inversion H; subst. congruence. }
      rewrite (eval_args_mono _ _ Href _ _ _ _ E Hl).
      destruct l as [vs|o]; [|exact H].
      destruct (bind_params (fparams fd) args vs s1) as [c|]; [|exact H].
      destruct (eval p n c (fbody fd)) as [rb c'] eqn:Eb.
      assert (Hrb : rb <> RFuel).
      { intros ->. inversion H; subst. congruence. }
      rewrite (IH _ _ _ _ Eb Hrb m Hnm). exact H.
Qed.

(* whole-function form *)
Lemma eval_fn_mono p f args n o :
  eval_fn p f args n = o -> o <> OutOfFuel -> forall m, (n <= m)%nat -> eval_fn p f args m = o.
Proof.
  unfold eval_fn. intros H Ho m Hm.
  destruct (nth_error p f) as [fd|]; [|exact H].
  destruct (entry_env (fparams fd) args) as [c|]; [|exact H].
  destruct (eval p n c (fbody fd)) as [r c'] eqn:E. cbn [fst] in H.
  assert (Hr : r <> RFuel).
  { intros ->. subst o. congruence. }
  rewrite (eval_mono p _ _ _ _ _ E Hr m Hm). exact H.
Qed.

Lemma eval_fn_deterministic p f args n m o1 o2 :
  eval_fn p f args n = o1 -> eval_fn p f args m = o2 ->
  o1 <> OutOfFuel -> o2 <> OutOfFuel -> o1 = o2.
Proof.
  intros H1 H2 N1 N2.
  rewrite <- (eval_fn_mono _ _ _ _ _ H1 N1 (max n m) (Nat.le_max_l n m)).
  rewrite <- (eval_fn_mono _ _ _ _ _ H2 N2 (max n m) (Nat.le_max_r n m)).
  reflexivity.
Qed.

(* ---------------------------------------------------------------------------------------- *)
(* the checked operators keep integers inside the range of their type                        *)
Lemma arith_in_range i o a b v :
  (o = Add \/ o = Sub \/ o = Mul) ->
  in_range i a = true -> in_range i b = true ->
  int_arith o i a b = OVal (VInt v) -> in_range i v = true.
Proof.
  intros Ho Ha Hb H. apply in_range_spec in Ha, Hb. apply in_range_spec.
  pose proof (imin_le_0 i) as Hlo. pose proof (imax_ge_0 i) as Hhi.
  unfold int_arith, panic_str in H.
  destruct Ho as [->|[->| ->]].
  - destruct (Z.gtb_spec (a + b) (imax i)); [discriminate|].
    destruct (Z.ltb_spec (a + b) (imin i)); [discriminate|]. inversion H; subst. lia.
  - destruct (isigned i) eqn:Hs.
    + destruct (Z.gtb_spec (a - b) (imax i)); [discriminate|].
      destruct (Z.ltb_spec (a - b) (imin i)); [discriminate|]. inversion H; subst. lia.
    + rewrite (imin_unsigned i Hs) in *.
      destruct (Z.ltb_spec (a - b) 0); [discriminate|]. inversion H; subst. lia.
  - destruct (in_range i (a * b)) eqn:R; [|discriminate]. inversion H; subst.
    apply in_range_spec. exact R.
Qed.

Lemma neg_in_range i a v :
  in_range i a = true -> unop_sem Neg (TInt i) (VInt a) = OVal (VInt v) -> in_range i v = true.
Proof.
  intros Ha H. apply in_range_spec in Ha. apply in_range_spec. cbn in H.
  destruct (isigned i) eqn:Hs; [|discriminate].
  destruct (Z.eqb_spec a (imin i)); [discriminate|]. inversion H; subst.
  assert (imin i = - imax i - 1) by (destruct i; try discriminate; reflexivity). lia.
Qed.

Lemma try_cast_in_range i j a v :
  cast_sem CTry (TInt i) (TInt j) (VInt a) = OVal (VSome (VInt v)) -> in_range j v = true.
Proof.
  cbn. destruct (in_range j a) eqn:R; intros H; inversion H; subst. exact R.
Qed.
