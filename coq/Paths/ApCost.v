(* Paths/ApCost.v -- per-libfunc obligations of C17 / C04 over the GENERATED code objects:
   for every Sierra invoke statement of every wrapper whose CASM is call-free, every control path
   of the statement's code range exits at the code of one of its branch targets, moves ap by
   exactly that branch's declared ApChange::Known k, and executes steps / range checks worth at
   most that branch's declared Const cost.  Finite path sets: proved by vm_compute and lifted with
   forallb_forall. *)
From Coq Require Import String.
From Vmx Require Import Range RangeFacts.
From GenC03 Require Import All.

Definition wrapper_ap_ok (w : string * code * list stmt_info) : bool :=
  let '(_, c, sts) := w in forallb (stmt_ap_ok c) sts.
(* store_local declares ConstCost {steps: 1, holes: -1} (it fills the hole that alloc_local paid
   for), i.e. 90 < 100: it is the one libfunc whose Const cost is below 100 * steps *)
Definition not_store_local (s : stmt_info) : bool := negb (prefix "store_local" (si_libfunc s)).
Definition wrapper_steps_ok (w : string * code * list stmt_info) : bool :=
  let '(_, c, sts) := w in forallb (stmt_steps_ok c) (filter not_store_local sts).
Definition wrapper_cost_ok (w : string * code * list stmt_info) : bool :=
  let '(_, c, sts) := w in forallb (stmt_cost_ok c) sts.
(* the wrappers of the integer families (names not starting with "x_"): RangeCheck is their only builtin *)
Definition is_int_wrapper (w : string * code * list stmt_info) : bool :=
  let '(n, _, _) := w in negb (prefix "x_" n).
Definition int_wrappers := filter is_int_wrapper all_wrappers.

Lemma all_ap_ok_b : forallb wrapper_ap_ok all_wrappers = true.
Proof. vm_cast_no_check (eq_refl true). Qed.
Lemma all_steps_ok_b : forallb wrapper_steps_ok all_wrappers = true.
Proof. vm_cast_no_check (eq_refl true). Qed.
Lemma all_cost_ok_b : forallb wrapper_cost_ok int_wrappers = true.
Proof. vm_cast_no_check (eq_refl true). Qed.

Theorem libfunc_ap_exact : forall name c sts s ps p,
  In (name, c, sts) all_wrappers -> In s sts -> stmt_paths c s = Some ps -> In p ps ->
  exists tgt apc cost, In (tgt, apc, cost) (si_branches s) /\ r_exit p = tgt /\
    (forall k, apc = Some k -> r_apk p = k).
Proof.
  intros name c sts s ps p Hw Hs Hps Hp.
  pose proof (forallb_In _ _ _ all_ap_ok_b Hw) as H. cbv beta iota delta [wrapper_ap_ok] in H.
  exact (stmt_ap_ok_spec c s ps p (forallb_In _ _ _ H Hs) Hps Hp).
Qed.

Theorem libfunc_steps_bound : forall name c sts s ps p,
  In (name, c, sts) all_wrappers -> In s sts -> not_store_local s = true ->
  stmt_paths c s = Some ps -> In p ps ->
  exists tgt apc cost, In (tgt, apc, cost) (si_branches s) /\ r_exit p = tgt /\
    100 * r_steps p <= cost.
Proof.
  intros name c sts s ps p Hw Hs Hnl Hps Hp.
  pose proof (forallb_In _ _ _ all_steps_ok_b Hw) as H. cbv beta iota delta [wrapper_steps_ok] in H.
  assert (Hf : In s (filter not_store_local sts)) by (apply filter_In; split; assumption).
  exact (stmt_steps_ok_spec c s ps p (forallb_In _ _ _ H Hf) Hps Hp).
Qed.

Theorem libfunc_cost_bound : forall name c sts s ps p,
  In (name, c, sts) int_wrappers -> In s sts -> stmt_paths c s = Some ps -> In p ps ->
  exists tgt apc cost, In (tgt, apc, cost) (si_branches s) /\ r_exit p = tgt /\
    100 * r_steps p + 70 * r_rc p <= cost.
Proof.
  intros name c sts s ps p Hw Hs Hps Hp.
  pose proof (forallb_In _ _ _ all_cost_ok_b Hw) as H. cbv beta iota delta [wrapper_cost_ok] in H.
  exact (stmt_cost_ok_spec c s ps p (forallb_In _ _ _ H Hs) Hps Hp).
Qed.

(* which statements are covered (CASM call-free, enumerated) -- with repetitions; the driver dedupes *)
Definition covered_libfuncs : list string :=
  Eval vm_compute in
  flat_map (fun w => let '(_, c, sts) := w in
                     map si_libfunc (filter (stmt_covered c) sts)) all_wrappers.
Definition uncovered_libfuncs : list string :=
  Eval vm_compute in
  flat_map (fun w => let '(_, c, sts) := w in
                     map si_libfunc (filter (fun s => negb (stmt_covered c s)) sts)) all_wrappers.
