//! C16 correspondence harness: runs cairo-lang-casm (`assemble`, `encode`, `op_size`) and cairo-vm
//! (`decode_instruction`, one `step_instruction`) on generated cases and prints them, with the
//! implementation's answers, as Coq terms for `C16/Corr.v` to compare with the model.
//!
//! usage: h16 <out_dir> <tier>      (VERIF_SEED from the environment)
use std::fmt::Write as _;
use std::fs;

use cairo_lang_casm::instructions::*;
use cairo_lang_casm::operand::*;
use cairo_vm::types::instruction as vi;
use cairo_vm::types::relocatable::{MaybeRelocatable, Relocatable};
use cairo_vm::vm::decoding::decoder::decode_instruction;
use cairo_vm::vm::vm_core::VirtualMachine;
use cairo_vm::Felt252;
use num_bigint::BigInt;
use num_traits::{One, ToPrimitive, Zero};
use vcommon::*;

fn reg(r: Register) -> &'static str {
    match r {
        Register::AP => "AP",
        Register::FP => "FP",
    }
}
fn cell(c: &CellRef) -> String {
    format!("(Build_cellref {} {})", reg(c.register), coq_zi(c.offset as i128))
}
fn doi(d: &DerefOrImmediate) -> String {
    match d {
        DerefOrImmediate::Deref(c) => format!("(DDeref {})", cell(c)),
        DerefOrImmediate::Immediate(v) => format!("(DImm {})", coq_z(&v.value)),
    }
}
fn resop(r: &ResOperand) -> String {
    match r {
        ResOperand::Deref(c) => format!("(RDeref {})", cell(c)),
        ResOperand::DoubleDeref(c, o) => format!("(RDouble {} {})", cell(c), coq_zi(*o as i128)),
        ResOperand::Immediate(v) => format!("(RImm {})", coq_z(&v.value)),
        ResOperand::BinOp(b) => format!(
            "(RBin {} {} {})",
            match b.op {
                Operation::Add => "OAdd",
                Operation::Mul => "OMul",
            },
            cell(&b.a),
            doi(&b.b)
        ),
    }
}
fn body(b: &InstructionBody) -> String {
    match b {
        InstructionBody::AddAp(i) => format!("(AddAp {})", resop(&i.operand)),
        InstructionBody::AssertEq(i) => format!("(AssertEq {} {})", cell(&i.a), resop(&i.b)),
        InstructionBody::QM31AssertEq(i) => format!("(QM31AssertEq {} {})", cell(&i.a), resop(&i.b)),
        InstructionBody::Call(i) => format!("(Call {} {})", doi(&i.target), coq_bool(i.relative)),
        InstructionBody::Jnz(i) => format!("(Jnz {} {})", doi(&i.jump_offset), cell(&i.condition)),
        InstructionBody::Jump(i) => format!("(Jump {} {})", doi(&i.target), coq_bool(i.relative)),
        InstructionBody::Ret(_) => "Ret".into(),
        InstructionBody::Blake2sCompress(i) => format!(
            "(Blake {} {} {} {})",
            cell(&i.state),
            cell(&i.byte_count),
            cell(&i.message),
            coq_bool(i.finalize)
        ),
    }
}
fn instr(i: &Instruction) -> String {
    format!("(Build_instr {} {})", body(&i.body), coq_bool(i.inc_ap))
}

// ---- shape enumeration ----
const REGS: [Register; 2] = [Register::AP, Register::FP];

/// Every `ResOperand` shape, with offsets/immediates drawn by `pick`.
fn res_shapes(offs: &mut dyn FnMut() -> i16, imms: &mut dyn FnMut() -> BigInt) -> Vec<ResOperand> {
    let mut v = vec![];
    for r in REGS {
        v.push(ResOperand::Deref(CellRef { register: r, offset: offs() }));
        v.push(ResOperand::DoubleDeref(CellRef { register: r, offset: offs() }, offs()));
    }
    v.push(ResOperand::Immediate(imms().into()));
    for op in [Operation::Add, Operation::Mul] {
        for ra in REGS {
            for rb in REGS {
                v.push(ResOperand::BinOp(BinOpOperand {
                    op: op.clone(),
                    a: CellRef { register: ra, offset: offs() },
                    b: DerefOrImmediate::Deref(CellRef { register: rb, offset: offs() }),
                }));
            }
            v.push(ResOperand::BinOp(BinOpOperand {
                op: op.clone(),
                a: CellRef { register: ra, offset: offs() },
                b: DerefOrImmediate::Immediate(imms().into()),
            }));
        }
    }
    v
}
fn doi_shapes(offs: &mut dyn FnMut() -> i16, imms: &mut dyn FnMut() -> BigInt) -> Vec<DerefOrImmediate> {
    let mut v = vec![];
    for r in REGS {
        v.push(DerefOrImmediate::Deref(CellRef { register: r, offset: offs() }));
    }
    v.push(DerefOrImmediate::Immediate(imms().into()));
    v
}

/// One instance of every instruction shape (all bodies x operand kinds x registers x inc_ap,
/// including the shapes `assemble` rejects).
fn all_shapes(offs: &mut dyn FnMut() -> i16, imms: &mut dyn FnMut() -> BigInt) -> Vec<Instruction> {
    let mut out = vec![];
    for inc_ap in [false, true] {
        for r in res_shapes(offs, imms) {
            out.push(Instruction::new(InstructionBody::AddAp(AddApInstruction { operand: r }), inc_ap));
        }
        for ra in REGS {
            for r in res_shapes(offs, imms) {
                let a = CellRef { register: ra, offset: offs() };
                out.push(Instruction::new(
                    InstructionBody::AssertEq(AssertEqInstruction { a, b: r.clone() }),
                    inc_ap,
                ));
                let a = CellRef { register: ra, offset: offs() };
                out.push(Instruction::new(
                    InstructionBody::QM31AssertEq(AssertEqInstruction { a, b: r }),
                    inc_ap,
                ));
            }
        }
        for relative in [false, true] {
            for t in doi_shapes(offs, imms) {
                out.push(Instruction::new(
                    InstructionBody::Call(CallInstruction { target: t.clone(), relative }),
                    inc_ap,
                ));
                out.push(Instruction::new(
                    InstructionBody::Jump(JumpInstruction { target: t, relative }),
                    inc_ap,
                ));
            }
        }
        for rc in REGS {
            for t in doi_shapes(offs, imms) {
                out.push(Instruction::new(
                    InstructionBody::Jnz(JnzInstruction {
                        jump_offset: t,
                        condition: CellRef { register: rc, offset: offs() },
                    }),
                    inc_ap,
                ));
            }
        }
        out.push(Instruction::new(InstructionBody::Ret(RetInstruction {}), inc_ap));
        for finalize in [false, true] {
            for r1 in REGS {
                for r2 in REGS {
                    for r3 in REGS {
                        out.push(Instruction::new(
                            InstructionBody::Blake2sCompress(Blake2sCompressInstruction {
                                state: CellRef { register: r1, offset: offs() },
                                byte_count: CellRef { register: r2, offset: offs() },
                                message: CellRef { register: r3, offset: offs() },
                                finalize,
                            }),
                            inc_ap,
                        ));
                    }
                }
            }
        }
    }
    out
}

const BOUNDARY_OFFS: [i16; 9] = [-32768, -32767, -2, -1, 0, 1, 2, 32766, 32767];

fn boundary_imms() -> Vec<BigInt> {
    let p = stark_prime();
    let one = BigInt::one();
    vec![
        BigInt::zero(),
        one.clone(),
        -one.clone(),
        BigInt::from(1) << 15,
        BigInt::from(1) << 16,
        BigInt::from(1) << 63,
        BigInt::from(1) << 64,
        BigInt::from(1) << 127,
        BigInt::from(1) << 128,
        (BigInt::from(1) << 128) - 1,
        &p - 1,
        p.clone(),
        &p + 1,
        -p.clone(),
        -(&p - BigInt::one()),
        BigInt::from(1) << 251,
        BigInt::from(1) << 252,
    ]
}

/// assemble+encode and op_size of the implementation; a panic (Rust `assert!`) is `None`.
fn impl_encode(i: &Instruction) -> (Option<Vec<BigInt>>, usize) {
    let i2 = i.clone();
    let enc = catch(move || i2.assemble().encode()).ok();
    (enc, i.body.op_size())
}

fn vreg(r: vi::Register) -> &'static str {
    match r {
        vi::Register::AP => "AP",
        vi::Register::FP => "FP",
    }
}
fn vinstr(i: &vi::Instruction) -> String {
    format!(
        "(Build_repr {} {} {} None {} {} {} {} {} {} {} {} {})",
        coq_zi(i.off0 as i128),
        coq_zi(i.off1 as i128),
        coq_zi(i.off2 as i128),
        vreg(i.dst_register),
        vreg(i.op0_register),
        match i.op1_addr {
            vi::Op1Addr::Imm => "O1Imm",
            vi::Op1Addr::AP => "O1AP",
            vi::Op1Addr::FP => "O1FP",
            vi::Op1Addr::Op0 => "O1Op0",
        },
        match i.res {
            vi::Res::Op1 => "ROp1",
            vi::Res::Add => "RAdd",
            vi::Res::Mul => "RMul",
            vi::Res::Unconstrained => "RUnconstrained",
        },
        match i.pc_update {
            vi::PcUpdate::Regular => "PcRegular",
            vi::PcUpdate::Jump => "PcJump",
            vi::PcUpdate::JumpRel => "PcJumpRel",
            vi::PcUpdate::Jnz => "PcJnz",
        },
        match i.ap_update {
            vi::ApUpdate::Regular => "ApRegular",
            vi::ApUpdate::Add => "ApAdd",
            vi::ApUpdate::Add1 => "ApAdd1",
            vi::ApUpdate::Add2 => "ApAdd2",
        },
        match i.fp_update {
            vi::FpUpdate::Regular => "FpRegular",
            vi::FpUpdate::APPlus2 => "FpApPlus2",
            vi::FpUpdate::Dst => "FpDst",
        },
        match i.opcode {
            vi::Opcode::NOp => "OpNop",
            vi::Opcode::AssertEq => "OpAssertEq",
            vi::Opcode::Call => "OpCall",
            vi::Opcode::Ret => "OpRet",
        },
        match i.opcode_extension {
            vi::OpcodeExtension::Stone => "ExtStone",
            vi::OpcodeExtension::Blake => "ExtBlake",
            vi::OpcodeExtension::BlakeFinalize => "ExtBlakeFinalize",
            vi::OpcodeExtension::QM31Operation => "ExtQM31",
        },
    )
}

fn felt_to_bigint(f: &Felt252) -> BigInt {
    BigInt::from_bytes_be(num_bigint::Sign::Plus, &f.to_bytes_be())
}
fn bigint_to_felt(v: &BigInt) -> Felt252 {
    let p = stark_prime();
    let mut r = v % &p;
    if r.sign() == num_bigint::Sign::Minus {
        r += &p;
    }
    Felt252::from_bytes_be_slice(&r.to_bytes_be().1)
}
fn mr(v: &MaybeRelocatable) -> String {
    match v {
        MaybeRelocatable::Int(f) => format!("(VInt {})", felt_to_bigint(f)),
        MaybeRelocatable::RelocatableValue(r) => format!("(VRel {} {})", r.segment_index, r.offset),
    }
}

const SEGS: usize = 3;
const SEG_LEN: usize = 26;

#[derive(Clone)]
struct StepCase {
    mem: Vec<((usize, usize), MaybeRelocatable)>,
    pc: (usize, usize),
    ap: usize,
    fp: usize,
}

/// Runs exactly one `step_instruction` of cairo-vm and returns the new registers plus the whole
/// memory afterwards (probed on the fixed address window), or `None` on any VM error.
fn impl_step(c: &StepCase) -> Option<((usize, usize), usize, usize, Vec<((usize, usize), MaybeRelocatable)>)> {
    let mut vm = VirtualMachine::new(false, false);
    for _ in 0..SEGS {
        vm.add_memory_segment();
    }
    for ((s, o), v) in &c.mem {
        vm.insert_value(Relocatable::from((*s as isize, *o)), v.clone()).ok()?;
    }
    vm.set_pc(Relocatable::from((c.pc.0 as isize, c.pc.1)));
    vm.set_ap(c.ap);
    vm.set_fp(c.fp);
    vm.step_instruction().ok()?;
    let pc = vm.get_pc();
    let mut after = vec![];
    for s in 0..SEGS {
        for o in 0..SEG_LEN {
            if let Some(v) = vm.get_maybe(&Relocatable::from((s as isize, o))) {
                after.push(((s, o), v));
            }
        }
    }
    if pc.segment_index < 0 {
        return None;
    }
    Some(((pc.segment_index as usize, pc.offset), vm.get_ap().offset, vm.get_fp().offset, after))
}



// ---------- leg 0: the `casm!` macro denotes the instruction its text spells ----------
// Expected instructions are written out as structs, independently of inline.rs.
fn macro_oracle(failures: &mut Vec<String>) -> usize {
    use cairo_lang_casm::casm;
    let cr = |register: Register, offset: i16| CellRef { register, offset };
    let ap = Register::AP;
    let fp = Register::FP;
    let imm = |v: i64| DerefOrImmediate::Immediate(BigInt::from(v).into());
    let bin = |op: Operation, a: CellRef, b: DerefOrImmediate| ResOperand::BinOp(BinOpOperand { op, a, b });
    let aeq = |a: CellRef, b: ResOperand, inc: bool| {
        Instruction::new(InstructionBody::AssertEq(AssertEqInstruction { a, b }), inc)
    };
    let var = cr(fp, -3);
    let mut n = 0;
    let mut check = |text: &str, got: Vec<Instruction>, want: Vec<Instruction>| {
        n += 1;
        if got != want {
            failures.push(format!(
                "{{\"instruction\": {:?}, \"why\": {:?}}}",
                text,
                format!(
                    "casm! macro produced `{}` for the text `{}` (which denotes `{}`)",
                    got.iter().map(|i| i.to_string()).collect::<Vec<_>>().join("; "),
                    text,
                    want.iter().map(|i| i.to_string()).collect::<Vec<_>>().join("; ")
                )
            ));
        }
    };
    macro_rules! chk {
        ({ $($t:tt)* } => $want:expr) => {
            check(stringify!($($t)*), casm! { $($t)* }.instructions, $want)
        };
    }
    // cell_ref spellings on the left-hand side and as plain deref
    chk!({ [ap + 5] = [fp + 7]; } => vec![aeq(cr(ap, 5), ResOperand::Deref(cr(fp, 7)), false)]);
    chk!({ [fp + 5] = [ap + 7], ap++; } => vec![aeq(cr(fp, 5), ResOperand::Deref(cr(ap, 7)), true)]);
    chk!({ [ap - 5] = [fp - 7]; } => vec![aeq(cr(ap, -5), ResOperand::Deref(cr(fp, -7)), false)]);
    chk!({ [fp - 5] = [ap - 7]; } => vec![aeq(cr(fp, -5), ResOperand::Deref(cr(ap, -7)), false)]);
    chk!({ [ap] = [fp]; } => vec![aeq(cr(ap, 0), ResOperand::Deref(cr(fp, 0)), false)]);
    chk!({ [fp] = [ap], ap++; } => vec![aeq(cr(fp, 0), ResOperand::Deref(cr(ap, 0)), true)]);
    chk!({ [&var + 2] = [ap - 2]; } => vec![aeq(cr(fp, -1), ResOperand::Deref(cr(ap, -2)), false)]);
    chk!({ [&var - 2] = [ap + 2]; } => vec![aeq(cr(fp, -5), ResOperand::Deref(cr(ap, 2)), false)]);
    chk!({ [&var] = [ap + 1]; } => vec![aeq(cr(fp, -3), ResOperand::Deref(cr(ap, 1)), false)]);
    // immediates
    chk!({ [ap + 0] = 17; } => vec![aeq(cr(ap, 0), ResOperand::Immediate(BigInt::from(17).into()), false)]);
    chk!({ [ap + 0] = (-17); } => vec![aeq(cr(ap, 0), ResOperand::Immediate(BigInt::from(-17).into()), false)]);
    // binary operations
    chk!({ [ap + 0] = [fp + 1] + [ap - 2]; } => vec![aeq(cr(ap, 0), bin(Operation::Add, cr(fp, 1), DerefOrImmediate::Deref(cr(ap, -2))), false)]);
    chk!({ [ap + 0] = [ap - 1] * [fp - 2], ap++; } => vec![aeq(cr(ap, 0), bin(Operation::Mul, cr(ap, -1), DerefOrImmediate::Deref(cr(fp, -2))), true)]);
    chk!({ [ap + 0] = [fp + 1] + 5; } => vec![aeq(cr(ap, 0), bin(Operation::Add, cr(fp, 1), imm(5)), false)]);
    chk!({ [ap + 0] = [ap + 1] * (-5); } => vec![aeq(cr(ap, 0), bin(Operation::Mul, cr(ap, 1), imm(-5)), false)]);
    // double dereference: every register x inner-offset sign x outer-offset spelling
    chk!({ [ap + 0] = [[ap + 1]]; } => vec![aeq(cr(ap, 0), ResOperand::DoubleDeref(cr(ap, 1), 0), false)]);
    chk!({ [ap + 0] = [[ap - 1]]; } => vec![aeq(cr(ap, 0), ResOperand::DoubleDeref(cr(ap, -1), 0), false)]);
    chk!({ [ap + 0] = [[fp + 1]]; } => vec![aeq(cr(ap, 0), ResOperand::DoubleDeref(cr(fp, 1), 0), false)]);
    chk!({ [ap + 0] = [[fp - 1]]; } => vec![aeq(cr(ap, 0), ResOperand::DoubleDeref(cr(fp, -1), 0), false)]);
    chk!({ [ap + 0] = [[ap]]; } => vec![aeq(cr(ap, 0), ResOperand::DoubleDeref(cr(ap, 0), 0), false)]);
    chk!({ [ap + 0] = [[fp]]; } => vec![aeq(cr(ap, 0), ResOperand::DoubleDeref(cr(fp, 0), 0), false)]);
    chk!({ [ap + 0] = [[ap + 1] + 2]; } => vec![aeq(cr(ap, 0), ResOperand::DoubleDeref(cr(ap, 1), 2), false)]);
    chk!({ [ap + 0] = [[ap + 1] - 2]; } => vec![aeq(cr(ap, 0), ResOperand::DoubleDeref(cr(ap, 1), -2), false)]);
    chk!({ [ap + 0] = [[ap - 1] + 2]; } => vec![aeq(cr(ap, 0), ResOperand::DoubleDeref(cr(ap, -1), 2), false)]);
    chk!({ [ap + 0] = [[ap - 1] - 2]; } => vec![aeq(cr(ap, 0), ResOperand::DoubleDeref(cr(ap, -1), -2), false)]);
    chk!({ [ap + 0] = [[fp + 1] + 2]; } => vec![aeq(cr(ap, 0), ResOperand::DoubleDeref(cr(fp, 1), 2), false)]);
    chk!({ [ap + 0] = [[fp + 1] - 2]; } => vec![aeq(cr(ap, 0), ResOperand::DoubleDeref(cr(fp, 1), -2), false)]);
    chk!({ [ap + 0] = [[fp - 1] + 2]; } => vec![aeq(cr(ap, 0), ResOperand::DoubleDeref(cr(fp, -1), 2), false)]);
    chk!({ [ap + 0] = [[fp - 1] - 2]; } => vec![aeq(cr(ap, 0), ResOperand::DoubleDeref(cr(fp, -1), -2), false)]);
    chk!({ [ap + 0] = [[fp] - 2]; } => vec![aeq(cr(ap, 0), ResOperand::DoubleDeref(cr(fp, 0), -2), false)]);
    chk!({ [ap + 0] = [[ap] + 2]; } => vec![aeq(cr(ap, 0), ResOperand::DoubleDeref(cr(ap, 0), 2), false)]);
    chk!({ [ap + 0] = [[&var]]; } => vec![aeq(cr(ap, 0), ResOperand::DoubleDeref(cr(fp, -3), 0), false)]);
    chk!({ [ap + 0] = [[&var] + 4]; } => vec![aeq(cr(ap, 0), ResOperand::DoubleDeref(cr(fp, -3), 4), false)]);
    // control flow
    let call = |target: DerefOrImmediate, relative: bool| {
        Instruction::new(InstructionBody::Call(CallInstruction { target, relative }), false)
    };
    let jump = |target: DerefOrImmediate, relative: bool, inc: bool| {
        Instruction::new(InstructionBody::Jump(JumpInstruction { target, relative }), inc)
    };
    let jnz = |jump_offset: DerefOrImmediate, condition: CellRef, inc: bool| {
        Instruction::new(InstructionBody::Jnz(JnzInstruction { jump_offset, condition }), inc)
    };
    chk!({ call rel 7; } => vec![call(imm(7), true)]);
    chk!({ call abs 7; } => vec![call(imm(7), false)]);
    chk!({ call rel [fp - 3]; } => vec![call(DerefOrImmediate::Deref(cr(fp, -3)), true)]);
    chk!({ call abs [ap + 3]; } => vec![call(DerefOrImmediate::Deref(cr(ap, 3)), false)]);
    chk!({ jmp rel 7; } => vec![jump(imm(7), true, false)]);
    chk!({ jmp rel (-7), ap++; } => vec![jump(imm(-7), true, true)]);
    chk!({ jmp abs 7; } => vec![jump(imm(7), false, false)]);
    chk!({ jmp abs [fp - 1]; } => vec![jump(DerefOrImmediate::Deref(cr(fp, -1)), false, false)]);
    chk!({ jmp rel 5 if [ap - 1] != 0; } => vec![jnz(imm(5), cr(ap, -1), false)]);
    chk!({ jmp rel 5 if [fp + 1] != 0, ap++; } => vec![jnz(imm(5), cr(fp, 1), true)]);
    chk!({ jmp 5 if [fp - 4] != 0; } => vec![jnz(imm(5), cr(fp, -4), false)]);
    chk!({ jmp rel [ap + 2] if [fp - 4] != 0; } => vec![jnz(DerefOrImmediate::Deref(cr(ap, 2)), cr(fp, -4), false)]);
    chk!({ ap += 3; } => vec![Instruction::new(InstructionBody::AddAp(AddApInstruction { operand: ResOperand::Immediate(BigInt::from(3).into()) }), false)]);
    chk!({ ap += [fp - 3]; } => vec![Instruction::new(InstructionBody::AddAp(AddApInstruction { operand: ResOperand::Deref(cr(fp, -3)) }), false)]);
    chk!({ ret; } => vec![Instruction::new(InstructionBody::Ret(RetInstruction {}), false)]);
    // a sequence keeps its order and the code offsets add up
    {
        let ctx = casm! { [ap + 0] = 1, ap++; jmp rel 3 if [ap - 1] != 0; [ap + 0] = [[fp - 3] - 1], ap++; ret; };
        let sizes: usize = ctx.instructions.iter().map(|i| i.body.op_size()).sum();
        if ctx.current_code_offset != sizes || ctx.instructions.len() != 4 {
            failures.push(format!(
                "{{\"instruction\": \"casm! sequence\", \"why\": \"current_code_offset {} but the instructions occupy {}\"}}",
                ctx.current_code_offset, sizes
            ));
        }
        n += 1;
    }
    n
}

/// Decode-level reading of a Blake2s instruction: dst = byte_count, op0 = state, op1 = message.
fn blake_oracle(i: &Instruction, ws: &[BigInt], failures: &mut Vec<String>) {
    let InstructionBody::Blake2sCompress(b) = &i.body else { return };
    let Some(w) = ws[0].to_u128() else { return };
    let Ok(d) = decode_instruction(w) else { return };
    let same = |r: Register, v: vi::Register| matches!((r, v), (Register::AP, vi::Register::AP) | (Register::FP, vi::Register::FP));
    let op1_ok = matches!(
        (b.message.register, d.op1_addr),
        (Register::AP, vi::Op1Addr::AP) | (Register::FP, vi::Op1Addr::FP)
    );
    let ext_ok = matches!(
        (b.finalize, d.opcode_extension),
        (false, vi::OpcodeExtension::Blake) | (true, vi::OpcodeExtension::BlakeFinalize)
    );
    if !(same(b.byte_count.register, d.dst_register)
        && d.off0 == b.byte_count.offset as isize
        && same(b.state.register, d.op0_register)
        && d.off1 == b.state.offset as isize
        && op1_ok
        && d.off2 == b.message.offset as isize
        && ext_ok)
    {
        failures.push(format!(
            "{{\"instruction\": {:?}, \"why\": \"cairo-vm decodes the word as dst={:?}{:+} op0={:?}{:+} op1={:?}{:+} ext={:?}: not the byte_count / state / message cells the instruction names\"}}",
            i.to_string(), d.dst_register, d.off0, d.op0_register, d.off1, d.op1_addr, d.off2, d.opcode_extension
        ));
    }
}

// ---------- the property oracle, on the implementation only ----------
// An independent reading of the CASM syntax (no flags): given the machine before and after one
// real VM step of the encoded instruction, did the VM do what the instruction says?
type Mem = std::collections::BTreeMap<(usize, usize), MaybeRelocatable>;

fn o_cell(m: &Mem, ap: usize, fp: usize, c: &CellRef) -> Option<((usize, usize), Option<MaybeRelocatable>)> {
    let base = match c.register {
        Register::AP => ap,
        Register::FP => fp,
    } as i64;
    let a = base + c.offset as i64;
    if a < 0 {
        return None;
    }
    Some(((1, a as usize), m.get(&(1, a as usize)).cloned()))
}
fn o_add(a: &MaybeRelocatable, b: &MaybeRelocatable) -> Option<MaybeRelocatable> {
    let p = stark_prime();
    match (a, b) {
        (MaybeRelocatable::Int(x), MaybeRelocatable::Int(y)) => {
            Some(MaybeRelocatable::Int(bigint_to_felt(&((felt_to_bigint(x) + felt_to_bigint(y)) % &p))))
        }
        (MaybeRelocatable::RelocatableValue(r), MaybeRelocatable::Int(y))
        | (MaybeRelocatable::Int(y), MaybeRelocatable::RelocatableValue(r)) => {
            let n = (BigInt::from(r.offset) + felt_to_bigint(y)) % &p;
            n.to_usize().map(|o| MaybeRelocatable::RelocatableValue(Relocatable::from((r.segment_index, o))))
        }
        _ => None,
    }
}
fn o_mul(a: &MaybeRelocatable, b: &MaybeRelocatable) -> Option<MaybeRelocatable> {
    let p = stark_prime();
    match (a, b) {
        (MaybeRelocatable::Int(x), MaybeRelocatable::Int(y)) => {
            Some(MaybeRelocatable::Int(bigint_to_felt(&((felt_to_bigint(x) * felt_to_bigint(y)) % &p))))
        }
        _ => None,
    }
}
fn o_doi(m: &Mem, ap: usize, fp: usize, d: &DerefOrImmediate) -> Option<MaybeRelocatable> {
    match d {
        DerefOrImmediate::Deref(c) => o_cell(m, ap, fp, c)?.1,
        DerefOrImmediate::Immediate(v) => Some(MaybeRelocatable::Int(bigint_to_felt(&v.value))),
    }
}
fn o_res(m: &Mem, ap: usize, fp: usize, r: &ResOperand) -> Option<MaybeRelocatable> {
    match r {
        ResOperand::Deref(c) => o_cell(m, ap, fp, c)?.1,
        ResOperand::DoubleDeref(c, o) => match o_cell(m, ap, fp, c)?.1? {
            MaybeRelocatable::RelocatableValue(r) => {
                let a = r.offset as i64 + *o as i64;
                if a < 0 || r.segment_index < 0 {
                    return None;
                }
                m.get(&(r.segment_index as usize, a as usize)).cloned()
            }
            _ => None,
        },
        ResOperand::Immediate(v) => Some(MaybeRelocatable::Int(bigint_to_felt(&v.value))),
        ResOperand::BinOp(b) => {
            let x = o_cell(m, ap, fp, &b.a)?.1?;
            let y = o_doi(m, ap, fp, &b.b)?;
            match b.op {
                Operation::Add => o_add(&x, &y),
                Operation::Mul => o_mul(&x, &y),
            }
        }
    }
}
fn o_pc_plus(pc: (usize, usize), v: &MaybeRelocatable) -> Option<(usize, usize)> {
    match o_add(&MaybeRelocatable::RelocatableValue(Relocatable::from((pc.0 as isize, pc.1))), v)? {
        MaybeRelocatable::RelocatableValue(r) => Some((r.segment_index as usize, r.offset)),
        _ => None,
    }
}
fn o_as_pc(v: &MaybeRelocatable) -> Option<(usize, usize)> {
    match v {
        MaybeRelocatable::RelocatableValue(r) if r.segment_index >= 0 => Some((r.segment_index as usize, r.offset)),
        _ => None,
    }
}

/// `Ok(())` if the step the VM took is the one the instruction denotes; `Err(reason)` otherwise.
fn oracle(
    i: &Instruction,
    c: &StepCase,
    r: &Option<((usize, usize), usize, usize, Vec<((usize, usize), MaybeRelocatable)>)>,
    enc_len: usize,
) -> Result<(), String> {
    let size = i.body.op_size();
    if enc_len != size {
        return Err(format!("encoded length {} != op_size {}", enc_len, size));
    }
    let before: Mem = c.mem.iter().cloned().collect();
    let Some((npc, nap, nfp, after)) = r else {
        // The step failed.  If every operand was known and the instruction's assertion already
        // held (or it asserts nothing), a failure is wrong.
        let ok_before = match &i.body {
            InstructionBody::AssertEq(a) => {
                let lhs = o_cell(&before, c.ap, c.fp, &a.a).and_then(|x| x.1);
                let rhs = o_res(&before, c.ap, c.fp, &a.b);
                // Deref / immediate forms are encoded with op0 = [fp - 1], which the VM also reads.
                let op0_known = match &a.b {
                    ResOperand::Deref(_) | ResOperand::Immediate(_) => {
                        c.fp >= 1 && before.contains_key(&(1, c.fp - 1))
                    }
                    _ => true,
                };
                lhs.is_some() && lhs == rhs && op0_known
            }
            _ => false,
        };
        return if ok_before { Err("VM failed although the assertion holds on known cells".into()) } else { Ok(()) };
    };
    let after: Mem = after.iter().cloned().collect();
    for (k, v) in &before {
        if after.get(k) != Some(v) {
            return Err(format!("cell {:?} changed", k));
        }
    }
    let inc = if i.inc_ap { 1 } else { 0 };
    let seq_pc = (c.pc.0, c.pc.1 + size);
    let expect = |what: &str, got: String, want: String| -> Result<(), String> {
        if got == want { Ok(()) } else { Err(format!("{}: got {}, instruction denotes {}", what, got, want)) }
    };
    match &i.body {
        InstructionBody::AssertEq(a) => {
            let lhs = o_cell(&after, c.ap, c.fp, &a.a).and_then(|x| x.1);
            let rhs = o_res(&after, c.ap, c.fp, &a.b);
            if lhs.is_none() || lhs != rhs {
                return Err(format!("assert_eq does not hold afterwards: {:?} vs {:?}", lhs, rhs));
            }
            expect("pc", format!("{:?}", npc), format!("{:?}", seq_pc))?;
            expect("ap", nap.to_string(), (c.ap + inc).to_string())?;
            expect("fp", nfp.to_string(), c.fp.to_string())
        }
        InstructionBody::AddAp(a) => {
            let v = o_res(&after, c.ap, c.fp, &a.operand).ok_or("operand unknown after step")?;
            let want = o_add(&MaybeRelocatable::RelocatableValue(Relocatable::from((1, c.ap))), &v)
                .and_then(|x| o_as_pc(&x))
                .ok_or("ap += non-integer")?;
            expect("ap", nap.to_string(), want.1.to_string())?;
            expect("pc", format!("{:?}", npc), format!("{:?}", seq_pc))?;
            expect("fp", nfp.to_string(), c.fp.to_string())
        }
        InstructionBody::Jump(j) => {
            let t = o_doi(&after, c.ap, c.fp, &j.target).ok_or("target unknown")?;
            let want = if j.relative { o_pc_plus(c.pc, &t) } else { o_as_pc(&t) }.ok_or("bad target")?;
            expect("pc", format!("{:?}", npc), format!("{:?}", want))?;
            expect("ap", nap.to_string(), (c.ap + inc).to_string())?;
            expect("fp", nfp.to_string(), c.fp.to_string())
        }
        InstructionBody::Jnz(j) => {
            let cond = o_cell(&after, c.ap, c.fp, &j.condition).and_then(|x| x.1).ok_or("condition unknown")?;
            let zero = matches!(&cond, MaybeRelocatable::Int(f) if *f == Felt252::from(0u64));
            let want = if zero {
                seq_pc
            } else {
                let t = o_doi(&after, c.ap, c.fp, &j.jump_offset).ok_or("offset unknown")?;
                o_pc_plus(c.pc, &t).ok_or("bad offset")?
            };
            expect("pc", format!("{:?}", npc), format!("{:?}", want))?;
            expect("ap", nap.to_string(), (c.ap + inc).to_string())?;
            expect("fp", nfp.to_string(), c.fp.to_string())
        }
        InstructionBody::Call(j) => {
            let t = o_doi(&after, c.ap, c.fp, &j.target).ok_or("target unknown")?;
            let want = if j.relative { o_pc_plus(c.pc, &t) } else { o_as_pc(&t) }.ok_or("bad target")?;
            expect("pc", format!("{:?}", npc), format!("{:?}", want))?;
            expect("ap", nap.to_string(), (c.ap + 2).to_string())?;
            expect("fp", nfp.to_string(), (c.ap + 2).to_string())?;
            expect(
                "[ap] (saved fp)",
                format!("{:?}", after.get(&(1, c.ap))),
                format!("{:?}", Some(MaybeRelocatable::RelocatableValue(Relocatable::from((1, c.fp))))),
            )?;
            expect(
                "[ap+1] (return pc)",
                format!("{:?}", after.get(&(1, c.ap + 1))),
                format!(
                    "{:?}",
                    Some(MaybeRelocatable::RelocatableValue(Relocatable::from((seq_pc.0 as isize, seq_pc.1))))
                ),
            )
        }
        InstructionBody::Ret(_) => {
            let rpc = after.get(&(1, c.fp.wrapping_sub(1))).ok_or("[fp-1] unknown")?;
            let rfp = after.get(&(1, c.fp.wrapping_sub(2))).ok_or("[fp-2] unknown")?;
            let want_fp = match rfp {
                MaybeRelocatable::RelocatableValue(r) => r.offset,
                MaybeRelocatable::Int(f) => felt_to_bigint(f).to_usize().ok_or("fp not usize")?,
            };
            expect("pc", format!("{:?}", npc), format!("{:?}", o_as_pc(rpc).ok_or("return pc not an address")?))?;
            expect("fp", nfp.to_string(), want_fp.to_string())?;
            expect("ap", nap.to_string(), c.ap.to_string())
        }
        _ => Ok(()),
    }
}

fn rand_value(rng: &mut Rng) -> MaybeRelocatable {
    let p = stark_prime();
    match rng.below(10) {
        0 => MaybeRelocatable::Int(Felt252::from(0u64)),
        1 => MaybeRelocatable::Int(Felt252::from(1u64)),
        2 => MaybeRelocatable::Int(bigint_to_felt(&(&p - 1))),
        3 | 4 => MaybeRelocatable::Int(Felt252::from(rng.below(12))),
        5 => MaybeRelocatable::Int(bigint_to_felt(&rng.bits(251))),
        6 => MaybeRelocatable::Int(bigint_to_felt(&(&p - BigInt::from(rng.below(6))))),
        _ => MaybeRelocatable::RelocatableValue(Relocatable::from((
            rng.below(SEGS as u64) as isize,
            rng.below(SEG_LEN as u64 - 8) as usize,
        ))),
    }
}

/// A machine state for one step of `i`: random memory with holes, the encoded instruction at pc,
/// and (usually) the cells the instruction needs arranged so that the step can succeed.
fn gen_step_case(rng: &mut Rng, i: &Instruction, words: &[BigInt]) -> StepCase {
    let pc_off = rng.below(8) as usize;
    let pc_seg = if rng.below(8) == 0 { 2 } else { 0 };
    let ap = 6 + rng.below(8) as usize;
    let fp = 6 + rng.below(8) as usize;
    let mut mem: std::collections::BTreeMap<(usize, usize), MaybeRelocatable> = Default::default();
    for s in 1..SEGS {
        for o in 0..SEG_LEN - 8 {
            if rng.below(100) < 70 {
                mem.insert((s, o), rand_value(rng));
            }
        }
    }
    // make execution-segment cells near ap/fp more often unknown (deduction paths)
    for d in 0..4 {
        if rng.below(100) < 50 {
            mem.remove(&(1, ap + d));
        }
    }
    // Mostly-valid states: with probability 3/4 arrange the frame and the operand cells so that
    // the instruction can execute (the remaining quarter exercises the VM's failure paths).
    if rng.below(4) != 0 {
        let rel = |s: isize, o: usize| MaybeRelocatable::RelocatableValue(Relocatable::from((s, o)));
        let small = |rng: &mut Rng| MaybeRelocatable::Int(Felt252::from(rng.below(5)));
        mem.insert((1, fp - 1), rel(0, rng.below(12) as usize));
        mem.insert((1, fp - 2), rel(1, 6 + rng.below(6) as usize));
        let addr = |c: &CellRef| -> Option<(usize, usize)> {
            let b = match c.register {
                Register::AP => ap,
                Register::FP => fp,
            } as i64
                + c.offset as i64;
            if b < 0 { None } else { Some((1, b as usize)) }
        };
        let known_int = |mem: &mut std::collections::BTreeMap<_, _>, rng: &mut Rng, c: &CellRef| {
            if let Some(a) = addr(c) {
                if !matches!(mem.get(&a), Some(MaybeRelocatable::Int(_))) || rng.below(3) == 0 {
                    let v = if rng.below(4) == 0 { rand_value(rng) } else { small(rng) };
                    mem.insert(a, v);
                }
            }
        };
        let fix_doi = |mem: &mut std::collections::BTreeMap<_, _>, rng: &mut Rng, d: &DerefOrImmediate, want_rel: bool| {
            if let DerefOrImmediate::Deref(c) = d {
                if let Some(a) = addr(c) {
                    if want_rel {
                        mem.insert(a, rel(0, rng.below(12) as usize));
                    } else {
                        mem.insert(a, small(rng));
                    }
                }
            }
        };
        match &i.body {
            InstructionBody::AssertEq(x) => {
                match &x.b {
                    ResOperand::Deref(c) => known_int(&mut mem, rng, c),
                    ResOperand::DoubleDeref(c, o) => {
                        if let Some(a) = addr(c) {
                            let t = 4 + rng.below(10) as usize;
                            mem.insert(a, rel(2, t));
                            let ta = t as i64 + *o as i64;
                            if ta >= 0 {
                                mem.insert((2, ta as usize), small(rng));
                            }
                        }
                    }
                    ResOperand::Immediate(_) => {}
                    ResOperand::BinOp(b) => {
                        known_int(&mut mem, rng, &b.a);
                        if let DerefOrImmediate::Deref(c) = &b.b {
                            known_int(&mut mem, rng, c);
                        }
                    }
                }
                // leave the destination (or, sometimes, an operand) to be deduced
                match rng.below(4) {
                    0 => {}
                    1 => {
                        if let ResOperand::BinOp(b) = &x.b {
                            if let Some(a) = addr(&b.a) {
                                mem.remove(&a);
                            }
                        }
                    }
                    _ => {
                        if let Some(a) = addr(&x.a) {
                            mem.remove(&a);
                        }
                    }
                }
            }
            InstructionBody::AddAp(x) => {
                if let ResOperand::BinOp(b) = &x.operand {
                    known_int(&mut mem, rng, &b.a);
                    if let DerefOrImmediate::Deref(c) = &b.b {
                        known_int(&mut mem, rng, c);
                    }
                }
                if let ResOperand::Deref(c) = &x.operand {
                    known_int(&mut mem, rng, c);
                }
            }
            InstructionBody::Jump(j) => fix_doi(&mut mem, rng, &j.target, !j.relative),
            InstructionBody::Call(j) => {
                fix_doi(&mut mem, rng, &j.target, !j.relative);
                if rng.below(5) != 0 {
                    mem.remove(&(1, ap));
                    mem.remove(&(1, ap + 1));
                }
            }
            InstructionBody::Jnz(j) => {
                fix_doi(&mut mem, rng, &j.jump_offset, false);
                known_int(&mut mem, rng, &j.condition);
            }
            _ => {}
        }
    }
    for (k, w) in words.iter().enumerate() {
        mem.insert((pc_seg, pc_off + k), MaybeRelocatable::Int(bigint_to_felt(w)));
    }
    StepCase { mem: mem.into_iter().collect(), pc: (pc_seg, pc_off), ap, fp }
}

// ---------- leg 4: whole runs of small loaded programs ----------
const RUN_SEG_LEN: usize = 72;
const RUN_STEPS: usize = 14;

struct RunCase {
    mem: Vec<((usize, usize), MaybeRelocatable)>,
    ap: usize,
    fp: usize,
    pc: (usize, usize),
}

/// Steps the real VM until the first error or RUN_STEPS; returns the registers after every
/// successful step and the memory afterwards (what was inserted before a failing step's error
/// included: the model is compared on the successful prefix only, so the memory is probed right
/// after the last successful step).
fn impl_run(c: &RunCase) -> (Vec<((usize, usize), usize, usize)>, Vec<((usize, usize), MaybeRelocatable)>) {
    let mut vm = VirtualMachine::new(false, false);
    for _ in 0..SEGS {
        vm.add_memory_segment();
    }
    for ((s, o), v) in &c.mem {
        if vm.insert_value(Relocatable::from((*s as isize, *o)), v.clone()).is_err() {
            return (vec![], vec![]);
        }
    }
    vm.set_pc(Relocatable::from((c.pc.0 as isize, c.pc.1)));
    vm.set_ap(c.ap);
    vm.set_fp(c.fp);
    let probe = |vm: &VirtualMachine| {
        let mut after = vec![];
        for s in 0..SEGS {
            for o in 0..RUN_SEG_LEN {
                if let Some(v) = vm.get_maybe(&Relocatable::from((s as isize, o))) {
                    after.push(((s, o), v));
                }
            }
        }
        after
    };
    let mut states = vec![];
    let mut after = probe(&vm);
    for _ in 0..RUN_STEPS {
        if vm.step_instruction().is_err() {
            break;
        }
        let pc = vm.get_pc();
        if pc.segment_index < 0 {
            break;
        }
        states.push(((pc.segment_index as usize, pc.offset), vm.get_ap().offset, vm.get_fp().offset));
        after = probe(&vm);
    }
    (states, after)
}

/// A mostly-valid straight-line / looping / calling program over small values, loaded at (0, 0).
fn gen_run_case(rng: &mut Rng, pool: &[Instruction]) -> (Vec<Instruction>, RunCase) {
    let cell = |register, offset: i16| CellRef { register, offset };
    let imm = |v: i64| BigInt::from(v);
    let n = 3 + rng.below(6) as usize;
    let mut prog: Vec<Instruction> = vec![];
    // first pass: bodies with placeholder jump distances
    for k in 0..n {
        let inc = rng.below(4) != 0;
        let back = |rng: &mut Rng| -(1 + rng.below(3) as i16);
        let b = match rng.below(if k < 2 { 3 } else { 12 }) {
            0 | 1 => InstructionBody::AssertEq(AssertEqInstruction {
                a: cell(Register::AP, 0),
                b: ResOperand::Immediate((imm(rng.below(9) as i64 - 2)).into()),
            }),
            2 => InstructionBody::AssertEq(AssertEqInstruction {
                a: cell(Register::AP, 0),
                b: ResOperand::Deref(cell(Register::FP, back(rng) - 1)),
            }),
            3 | 4 => InstructionBody::AssertEq(AssertEqInstruction {
                a: cell(Register::AP, 0),
                b: ResOperand::BinOp(BinOpOperand {
                    op: if rng.bool() { Operation::Add } else { Operation::Mul },
                    a: cell(Register::AP, back(rng)),
                    b: if rng.bool() {
                        DerefOrImmediate::Deref(cell(Register::AP, back(rng)))
                    } else {
                        DerefOrImmediate::Immediate(imm(rng.below(7) as i64 - 3).into())
                    },
                }),
            }),
            // an operand to be deduced: [ap - 1] = [ap + 0] op imm
            5 => InstructionBody::AssertEq(AssertEqInstruction {
                a: cell(Register::AP, -1),
                b: ResOperand::BinOp(BinOpOperand {
                    op: if rng.bool() { Operation::Add } else { Operation::Mul },
                    a: cell(Register::AP, 0),
                    b: DerefOrImmediate::Immediate(imm(1 + rng.below(4) as i64).into()),
                }),
            }),
            6 => InstructionBody::Jump(JumpInstruction {
                target: DerefOrImmediate::Immediate(imm(0).into()),
                relative: true,
            }),
            7 => InstructionBody::Jnz(JnzInstruction {
                jump_offset: DerefOrImmediate::Immediate(imm(0).into()),
                condition: cell(Register::AP, -1),
            }),
            8 => InstructionBody::Call(CallInstruction {
                target: DerefOrImmediate::Immediate(imm(0).into()),
                relative: true,
            }),
            9 => InstructionBody::Ret(RetInstruction {}),
            10 => InstructionBody::AddAp(AddApInstruction {
                operand: ResOperand::Immediate(imm(rng.below(3) as i64).into()),
            }),
            _ => rng.pick(pool).body.clone(),
        };
        let inc = match b {
            InstructionBody::Call(_) | InstructionBody::Ret(_) | InstructionBody::AddAp(_) => false,
            _ => inc,
        };
        prog.push(Instruction::new(b, inc));
    }
    // second pass: immediate jump distances to instruction boundaries (sometimes off by one word)
    let mut starts = vec![0i64];
    for i in &prog {
        starts.push(starts.last().unwrap() + i.body.op_size() as i64);
    }
    for k in 0..n {
        let here = starts[k];
        let tgt = starts[rng.below(n as u64 + 1) as usize] + if rng.below(12) == 0 { 1 } else { 0 };
        let d = imm(tgt - here);
        match &mut prog[k].body {
            InstructionBody::Jump(j) if j.relative => {
                if let DerefOrImmediate::Immediate(v) = &mut j.target {
                    if v.value.is_zero() { *v = d.into(); }
                }
            }
            InstructionBody::Jnz(j) => {
                if let DerefOrImmediate::Immediate(v) = &mut j.jump_offset {
                    if v.value.is_zero() { *v = d.into(); }
                }
            }
            InstructionBody::Call(j) if j.relative => {
                if let DerefOrImmediate::Immediate(v) = &mut j.target {
                    if v.value.is_zero() { *v = d.into(); }
                }
            }
            _ => {}
        }
    }
    let mut mem: std::collections::BTreeMap<(usize, usize), MaybeRelocatable> = Default::default();
    // the bytecode is built by the toolchain's own CairoProgram::assemble (no constant segments)
    let bytecode = cairo_lang_sierra_to_casm::compiler::CairoProgram {
        instructions: prog.clone(),
        debug_info: cairo_lang_sierra_to_casm::compiler::CairoProgramDebugInfo { sierra_statement_info: vec![] },
        consts_info: Default::default(),
    }
    .assemble()
    .bytecode;
    for (at, w) in bytecode.iter().enumerate() {
        mem.insert((0, at), MaybeRelocatable::Int(bigint_to_felt(w)));
    }
    let fp = 6 + rng.below(4) as usize;
    let rel = |s: isize, o: usize| MaybeRelocatable::RelocatableValue(Relocatable::from((s, o)));
    for o in 0..fp.saturating_sub(2) {
        mem.insert((1, o), if rng.below(5) == 0 { rand_value(rng) } else { MaybeRelocatable::Int(Felt252::from(rng.below(6))) });
    }
    mem.insert((1, fp - 2), rel(1, 2 + rng.below(3) as usize));
    mem.insert((1, fp - 1), rel(0, starts[rng.below(n as u64 + 1) as usize] as usize));
    // now and then a cell ahead of ap is already known (a later assertion may then conflict)
    if rng.below(4) == 0 {
        mem.insert((1, fp + rng.below(4) as usize), MaybeRelocatable::Int(Felt252::from(rng.below(4))));
    }
    (prog, RunCase { mem: mem.into_iter().collect(), ap: fp, fp, pc: (0, 0) })
}

fn main() {
    quiet_panics();
    let args: Vec<String> = std::env::args().collect();
    let out_dir = &args[1];
    let thorough = args.get(2).map(|s| s == "thorough").unwrap_or(false);
    let mut rng = Rng::from_env();
    fs::create_dir_all(out_dir).unwrap();

    // ---------- leg 1: assemble / encode / op_size ----------
    let imms = boundary_imms();
    let mut cases: Vec<Instruction> = vec![];
    // (a) every shape x boundary offsets on the diagonal x boundary immediates
    for (k, o) in BOUNDARY_OFFS.iter().enumerate() {
        let mut ki = k;
        let mut f_off = || *o;
        let mut f_imm = || {
            ki += 1;
            imms[ki % imms.len()].clone()
        };
        cases.extend(all_shapes(&mut f_off, &mut f_imm));
    }
    // (b) every shape with independent boundary/random offsets
    let rounds = if thorough { 60 } else { 6 };
    for _ in 0..rounds {
        let rng_cell = std::cell::RefCell::new(&mut rng);
        let mut f_off = || {
            let mut r = rng_cell.borrow_mut();
            if r.bool() { *r.pick(&BOUNDARY_OFFS) } else { r.next() as i16 }
        };
        let mut f_imm = || {
            let mut r = rng_cell.borrow_mut();
            match r.below(3) {
                0 => r.pick(&imms).clone(),
                1 => r.bits(252),
                _ => -r.bits(200),
            }
        };
        cases.extend(all_shapes(&mut f_off, &mut f_imm));
    }
    let mut enc_lines = vec![];
    let mut size_failures: Vec<String> = vec![];
    let n_macro = macro_oracle(&mut size_failures);
    let mut encoded: Vec<(Instruction, Vec<BigInt>)> = vec![];
    let mut n_rejected = 0;
    for i in &cases {
        let (enc, size) = impl_encode(i);
        let e = match &enc {
            Some(ws) => format!("(Some {})", coq_list(&ws.iter().map(coq_z).collect::<Vec<_>>())),
            None => {
                n_rejected += 1;
                "None".into()
            }
        };
        enc_lines.push(format!("({}, {}, {})", instr(i), e, size));
        if let Some(ws) = &enc {
            blake_oracle(i, ws, &mut size_failures);
            if ws.len() != size {
                size_failures.push(format!(
                    "{{\"instruction\": {:?}, \"why\": \"encoded length {} != op_size {}\"}}",
                    i.to_string(), ws.len(), size
                ));
            }
            // the words must decode (cairo-vm) unless the instruction is a QM31 form the VM rejects
            if !matches!(i.body, InstructionBody::QM31AssertEq(_)) {
                if let Some(w) = ws[0].to_u128() {
                    if decode_instruction(w).is_err() {
                        size_failures.push(format!(
                            "{{\"instruction\": {:?}, \"why\": \"cairo-vm rejects the encoded word {}\"}}",
                            i.to_string(), w
                        ));
                    }
                } else {
                    size_failures.push(format!(
                        "{{\"instruction\": {:?}, \"why\": \"first encoded word is not a u128\"}}",
                        i.to_string()
                    ));
                }
            }
        }
        if let Some(ws) = enc {
            encoded.push((i.clone(), ws));
        }
    }

    // ---------- leg 2: cairo-vm decode_instruction ----------
    let mut dec_lines = vec![];
    let mut n_dec_ok = 0;
    let mut dec_case = |w: u128, lines: &mut Vec<String>| {
        let r = decode_instruction(w).ok();
        if r.is_some() {
            n_dec_ok += 1;
        }
        lines.push(format!("({}, {})", w, coq_opt(r.map(|i| vinstr(&i)))));
    };
    let stride = if thorough { 1 } else { 3 };
    for (k, (_, ws)) in encoded.iter().enumerate() {
        if k % stride != 0 {
            continue;
        }
        if let Some(w) = ws[0].to_u128() {
            dec_case(w, &mut dec_lines);
            // single-bit flips of the word (flag and extension region, and a few offset bits)
            let bit = 40 + rng.below(26);
            dec_case(w ^ (1u128 << bit), &mut dec_lines);
        }
    }
    let n_rand = if thorough { 20000 } else { 1500 };
    for _ in 0..n_rand {
        let w = match rng.below(4) {
            0 => rng.next() as u128,
            1 => (rng.next() as u128) | ((rng.below(4) as u128) << 63),
            2 => ((rng.next() as u128) << 64) | rng.next() as u128,
            _ => (rng.next() as u128) & 0x7fff_ffff_ffff_ffff | ((rng.below(5) as u128) << 63),
        };
        dec_case(w, &mut dec_lines);
    }

    // ---------- leg 3: one real VM step ----------
    let mut step_lines = vec![];
    let mut oracle_failures: Vec<String> = vec![];
    let mut n_step_ok = 0;
    let n_steps = if thorough { 30000 } else { 2500 };
    let small_offs: [i16; 9] = [-4, -3, -2, -1, 0, 1, 2, 3, 5];
    let mut stone: Vec<Instruction> = vec![];
    for _ in 0..(n_steps / 150 + 1) {
        let rng_cell = std::cell::RefCell::new(&mut rng);
        let mut f_off = || *rng_cell.borrow_mut().pick(&small_offs);
        let mut f_imm = || {
            let mut r = rng_cell.borrow_mut();
            match r.below(4) {
                0 => BigInt::from(r.below(6)),
                1 => -BigInt::from(r.below(4)),
                2 => r.pick(&imms).clone(),
                _ => r.bits(251),
            }
        };
        stone.extend(all_shapes(&mut f_off, &mut f_imm).into_iter().filter(|i| {
            !matches!(i.body, InstructionBody::Blake2sCompress(_) | InstructionBody::QM31AssertEq(_))
        }));
    }
    let mut produced = 0;
    let mut idx = 0;
    while produced < n_steps && idx < stone.len() * 4 {
        let i = &stone[idx % stone.len()];
        idx += 1;
        let (enc, _) = impl_encode(i);
        let Some(ws) = enc else { continue };
        let c = gen_step_case(&mut rng, i, &ws);
        let r = impl_step(&c);
        if r.is_some() {
            n_step_ok += 1;
        }
        if let Err(why) = oracle(i, &c, &r, ws.len()) {
            oracle_failures.push(format!(
                "{{\"instruction\": {:?}, \"pc\": \"{:?}\", \"ap\": {}, \"fp\": {}, \"memory\": {:?}, \"vm_result\": {:?}, \"why\": {:?}}}",
                i.to_string(), c.pc, c.ap, c.fp, format!("{:?}", c.mem), format!("{:?}", r), why
            ));
        }
        let mem = coq_list(
            &c.mem.iter().map(|((s, o), v)| format!("(({}, {}), {})", s, o, mr(v))).collect::<Vec<_>>(),
        );
        let res = match r {
            None => "None".to_string(),
            Some((pc, ap, fp, after)) => format!(
                "(Some (({}, {}), {}, {}, {}))",
                pc.0,
                pc.1,
                ap,
                fp,
                coq_list(
                    &after
                        .iter()
                        .map(|((s, o), v)| format!("(({}, {}), {})", s, o, mr(v)))
                        .collect::<Vec<_>>()
                )
            ),
        };
        step_lines.push(format!(
            "({}, {}, (({}, {}), {}, {}), {})",
            instr(i),
            mem,
            c.pc.0,
            c.pc.1,
            c.ap,
            c.fp,
            res
        ));
        produced += 1;
    }

    // ---------- leg 4: whole runs (fetch / decode / execute / insert, up to RUN_STEPS steps) ----------
    let mut run_lines = vec![];
    let n_runs = if thorough { 6000 } else { 600 };
    let mut run_steps_hist = vec![0usize; RUN_STEPS + 1];
    for _ in 0..n_runs {
        let (prog, c) = gen_run_case(&mut rng, &stone);
        let (states, after) = impl_run(&c);
        run_steps_hist[states.len()] += 1;
        let cells = |m: &Vec<((usize, usize), MaybeRelocatable)>| {
            coq_list(&m.iter().map(|((s, o), v)| format!("(({}, {}), {})", s, o, mr(v))).collect::<Vec<_>>())
        };
        run_lines.push(format!(
            "({}, {}, (({}, {}), {}, {}), {}%nat, {}, {})",
            coq_list(&prog.iter().map(instr).collect::<Vec<_>>()),
            cells(&c.mem),
            c.pc.0,
            c.pc.1,
            c.ap,
            c.fp,
            RUN_STEPS,
            coq_list(&states.iter().map(|(pc, ap, fp)| format!("(({}, {}), {}, {})", pc.0, pc.1, ap, fp)).collect::<Vec<_>>()),
            cells(&after)
        ));
    }

    // ---------- write shards ----------
    let shard = |name: &str, ty: &str, lines: &[String], per: usize| -> usize {
        let mut n = 0;
        for (k, chunk) in lines.chunks(per).enumerate() {
            let mut s = String::new();
            writeln!(s, "From C16 Require Import Casm Vm Corr.").unwrap();
            writeln!(s, "Local Open Scope Z_scope.").unwrap();
            writeln!(s, "Definition cases : list {} := [", ty).unwrap();
            writeln!(s, "{}", chunk.join(";\n")).unwrap();
            writeln!(s, "].").unwrap();
            writeln!(s, "Definition bad := Eval vm_compute in check_{} cases.", name).unwrap();
            writeln!(s, "Print bad.").unwrap();
            fs::write(format!("{}/{}_{:03}.v", out_dir, name, k), s).unwrap();
            n += 1;
        }
        n
    };
    let a = shard("enc", "enc_case", &enc_lines, 700);
    let b = shard("dec", "dec_case", &dec_lines, 700);
    let c = shard("step", "step_case", &step_lines, 150);
    let c = c + shard("run", "run_case", &run_lines, 60);
    let summary = format!(
        "{{\"enc_cases\": {}, \"enc_rejected_by_impl\": {}, \"dec_cases\": {}, \"dec_ok\": {}, \"step_cases\": {}, \"step_ok\": {}, \"run_cases\": {}, \"run_steps_histogram\": {:?}, \"shards\": {}, \"oracle_failures\": {}, \"macro_spellings\": {}}}",
        enc_lines.len(),
        n_rejected,
        dec_lines.len(),
        n_dec_ok,
        step_lines.len(),
        n_step_ok,
        run_lines.len(),
        run_steps_hist,
        a + b + c,
        oracle_failures.len() + size_failures.len(),
        n_macro
    );
    fs::write(format!("{}/summary.json", out_dir), &summary).unwrap();
    fs::write(format!("{}/oracle_failures.json", out_dir), format!("[{}]", oracle_failures.iter().chain(size_failures.iter()).cloned().collect::<Vec<_>>().join(",\n"))).unwrap();
    // a few samples for the evidence file
    let mut samples = String::new();
    for l in enc_lines.iter().step_by(enc_lines.len() / 3 + 1).take(3) {
        writeln!(samples, "enc {}", l).unwrap();
    }
    for l in dec_lines.iter().step_by(dec_lines.len() / 3 + 1).take(3) {
        writeln!(samples, "dec {}", l).unwrap();
    }
    fs::write(format!("{}/samples.txt", out_dir), samples).unwrap();
    println!("{}", summary);
}
