//! Coq term printers for the C19 case files.
use cairo_lang_sierra::program::{BranchTarget, Program, Statement};
use cairo_lang_starknet_classes::NestedIntList;
use num_bigint::{BigInt, BigUint, Sign};

/// A Coq `Z` literal; hexadecimal above 2^62 (decimal literals parse slowly).
pub fn z(v: &BigInt) -> String {
    let mag = v.magnitude();
    let body = if mag.bits() > 62 { format!("0x{}", mag.to_str_radix(16)) } else { mag.to_string() };
    if v.sign() == Sign::Minus { format!("(-{})", body) } else { body }
}
pub fn zu(v: &BigUint) -> String {
    z(&BigInt::from(v.clone()))
}
pub fn list(xs: &[String]) -> String {
    format!("[{}]", xs.join("; "))
}
pub fn list_n(xs: &[usize]) -> String {
    list(&xs.iter().map(|x| x.to_string()).collect::<Vec<_>>())
}
pub fn coq_string(s: &str) -> String {
    format!("\"{}\"", s.replace('"', "\"\""))
}
pub fn strings(xs: &[String]) -> String {
    list(&xs.iter().map(|s| coq_string(s)).collect::<Vec<_>>())
}

/// Statements as the segmentation sees them.
pub fn stmts(program: &Program) -> String {
    let v: Vec<String> = program
        .statements
        .iter()
        .map(|s| match s {
            Statement::Return(_) => "R".to_string(),
            Statement::Invocation(inv) => {
                if inv.branches.len() == 1 && inv.branches[0].target == BranchTarget::Fallthrough {
                    "F".to_string()
                } else {
                    let bs: Vec<String> = inv
                        .branches
                        .iter()
                        .map(|b| match b.target {
                            BranchTarget::Fallthrough => "FT".to_string(),
                            BranchTarget::Statement(i) => format!("J {}", i.0),
                        })
                        .collect();
                    format!("IV {}", list(&bs))
                }
            }
        })
        .collect();
    list(&v)
}

pub fn nested(n: &NestedIntList) -> String {
    match n {
        NestedIntList::Leaf(k) => format!("Leaf {}", k),
        NestedIntList::Node(v) => {
            format!("Node {}", list(&v.iter().map(|x| format!("({})", nested(x))).collect::<Vec<_>>()))
        }
    }
}

/// A shard file: preamble, definitions, the case lists and the `bad` evaluation.
pub fn shard(defs: &str, seg: &[String], lay: &[String], canon: &[String], ep: &[String], cst: &[String], ver: &[String]) -> String {
    let mut s = String::new();
    s.push_str("From C19 Require Import Class Corr.\n");
    s.push_str("Local Open Scope string_scope.\nLocal Open Scope Z_scope.\n");
    s.push_str(defs);
    let mut sect = |name: &str, ty: &str, cases: &[String]| {
        s.push_str(&format!("Definition {}_cases : list {} := [\n{}\n].\n", name, ty, cases.join(";\n")));
    };
    sect("seg", "seg_case", seg);
    sect("lay", "lay_case", lay);
    sect("canon", "canon_case", canon);
    sect("ep", "ep_case", ep);
    sect("const", "const_case", cst);
    sect("ver", "ver_case", ver);
    s.push_str(
        "Definition bad := Eval vm_compute in\n  (check_seg seg_cases ++ check_lay lay_cases ++ check_canon canon_cases\n  ++ check_ep ep_cases ++ check_const const_cases ++ check_ver ver_cases)%list.\nPrint bad.\n",
    );
    s
}
