//! Impl-level oracle: the invariants of property C19 checked directly on what
//! `CasmContractClass::from_contract_class_with_debug_info` returned, written from the property
//! text and independent of the Coq model.
use std::collections::BTreeSet;
use std::panic::AssertUnwindSafe;

use cairo_lang_sierra::ids::ConcreteTypeId;
use cairo_lang_sierra::program::Program;
use cairo_lang_sierra_to_casm::compiler::{CairoProgram, CairoProgramDebugInfo};
use cairo_lang_starknet_classes::NestedIntList;
use cairo_lang_starknet_classes::casm_contract_class::{
    CasmContractClass, CasmContractEntryPoint,
};
use cairo_lang_starknet_classes::compiler_version::VersionId;
use cairo_lang_starknet_classes::contract_class::{ContractClass, ContractEntryPoint};
use num_bigint::{BigInt, BigUint};
use num_traits::{One, Signed, Zero};
use serde_json::json;
use vcommon::catch;

pub struct Failure {
    pub class: String,
    pub variation: String,
    pub why: String,
    /// stable token used to match known findings
    pub fingerprint: String,
    pub detail: serde_json::Value,
}
impl Failure {
    pub fn to_json(&self) -> serde_json::Value {
        json!({"class": self.class, "variation": self.variation, "why": self.why,
               "fingerprint": self.fingerprint, "detail": self.detail})
    }
}

pub fn prime() -> BigUint {
    (BigUint::one() << 251) + BigUint::from(17u32) * (BigUint::one() << 192) + BigUint::one()
}

/// The order in which the Starknet OS expects the builtins of an entry point.
pub const PROTOCOL_ORDER: [&str; 9] = [
    "pedersen",
    "range_check",
    "bitwise",
    "ec_op",
    "poseidon",
    "segment_arena",
    "range_check96",
    "add_mod",
    "mul_mod",
];

fn builtin_of_generic(g: &str) -> Option<&'static str> {
    Some(match g {
        "Pedersen" => "pedersen",
        "RangeCheck" => "range_check",
        "Bitwise" => "bitwise",
        "EcOp" => "ec_op",
        "Poseidon" => "poseidon",
        "SegmentArena" => "segment_arena",
        "RangeCheck96" => "range_check96",
        "AddMod" => "add_mod",
        "MulMod" => "mul_mod",
        _ => return None,
    })
}

pub fn generic_of(program: &Program, ty: &ConcreteTypeId) -> Option<String> {
    program.type_declarations.get(ty.id as usize).map(|d| d.long_id.generic_id.0.to_string())
}

/// The builtin parameters of the function, as the property states them: all parameters before the
/// trailing (gas, system, calldata span).
fn builtin_params(program: &Program, fidx: usize) -> Result<Vec<String>, String> {
    let f = program.funcs.get(fidx).ok_or("entry point names no function")?;
    let ps = &f.signature.param_types;
    if ps.len() < 3 {
        return Err("fewer than 3 parameters".into());
    }
    let n = ps.len();
    if generic_of(program, &ps[n - 3]).as_deref() != Some("GasBuiltin") {
        return Err("third parameter from the end is not GasBuiltin".into());
    }
    if generic_of(program, &ps[n - 2]).as_deref() != Some("System") {
        return Err("second parameter from the end is not System".into());
    }
    let mut res = vec![];
    for p in &ps[..n - 3] {
        let g = generic_of(program, p).ok_or("undeclared parameter type")?;
        res.push(builtin_of_generic(&g).ok_or(format!("parameter of type {g} is not a builtin"))?.to_string());
    }
    Ok(res)
}

/// Instruction start offsets obtained by walking the bytecode (an instruction whose op1 is an
/// immediate -- flag bit 2, i.e. bit 50 of the word -- takes two words).  `None` if the walk does
/// not land on `code_end`.
pub fn decode_starts(bytecode: &[BigUint], code_end: usize) -> Option<BTreeSet<usize>> {
    let mut starts = BTreeSet::new();
    let mut pc = 0usize;
    while pc < code_end {
        starts.insert(pc);
        let w = bytecode.get(pc)?;
        let imm = ((w >> 50u32) & BigUint::one()) == BigUint::one();
        pc += if imm { 2 } else { 1 };
    }
    if pc == code_end { Some(starts) } else { None }
}

fn leaves(n: &NestedIntList, out: &mut Vec<usize>) {
    match n {
        NestedIntList::Leaf(k) => out.push(*k),
        NestedIntList::Node(v) => v.iter().for_each(|x| leaves(x, out)),
    }
}

pub struct Ctx<'a> {
    pub class_name: &'a str,
    pub variation: &'a str,
    pub cc: &'a ContractClass,
    pub program: &'a Program,
    pub sv: VersionId,
}

/// Every invariant of the property statement on one successful result.
pub fn check_result(
    cx: &Ctx<'_>,
    class: &CasmContractClass,
    dbg: &CairoProgramDebugInfo,
    cp: Option<&CairoProgram>,
    out: &mut Vec<Failure>,
) {
    let mut fail = |why: String, fp: &str, detail: serde_json::Value| {
        out.push(Failure {
            class: cx.class_name.to_string(),
            variation: cx.variation.to_string(),
            why,
            fingerprint: fp.to_string(),
            detail,
        })
    };
    let p = prime();
    let words: Vec<BigUint> = class.bytecode.iter().map(|w| w.value.clone()).collect();
    let n = words.len();

    // --- canonical words ---
    if class.prime != p {
        fail("class prime is not the Stark prime".into(), "prime", json!({}));
    }
    for (i, w) in words.iter().enumerate() {
        if *w >= p {
            fail(
                format!("bytecode word {} is not a canonical field element (>= P)", i),
                "noncanonical-word",
                json!({"index": i, "word": format!("0x{}", w.to_str_radix(16))}),
            );
            break;
        }
    }

    // --- instruction starts ---
    let infos = &dbg.sierra_statement_info;
    let code_end = infos.last().map(|s| s.end_offset).unwrap_or(0);
    let starts = decode_starts(&words, code_end);
    match &starts {
        None => fail(
            "walking the bytecode by instruction size does not end at the end of the code".into(),
            "decode-walk",
            json!({"code_end": code_end}),
        ),
        Some(starts) => {
            for (i, s) in infos.iter().enumerate() {
                if !(starts.contains(&s.start_offset) || s.start_offset == code_end) {
                    fail(
                        format!("start offset of statement {} is not an instruction start", i),
                        "statement-start",
                        json!({"statement": i, "offset": s.start_offset}),
                    );
                    break;
                }
            }
            // hints
            let mut prev: Option<usize> = None;
            for (pc, hs) in &class.hints {
                if !starts.contains(pc) {
                    fail(
                        format!("hint offset {} is not the start of an instruction", pc),
                        "hint-offset",
                        json!({"offset": pc}),
                    );
                    break;
                }
                if hs.is_empty() || prev.is_some_and(|q| q >= *pc) {
                    fail(
                        format!("hints table is not strictly increasing / has an empty entry at {}", pc),
                        "hint-order",
                        json!({"offset": pc}),
                    );
                    break;
                }
                prev = Some(*pc);
            }
        }
    }
    if let Some(py) = &class.pythonic_hints {
        let a: Vec<(usize, usize)> = py.iter().map(|(pc, h)| (*pc, h.len())).collect();
        let b: Vec<(usize, usize)> = class.hints.iter().map(|(pc, h)| (*pc, h.len())).collect();
        if a != b {
            fail("pythonic hints and hints have different offsets".into(), "pythonic-hints", json!({}));
        }
    }

    // --- entry points ---
    let tables: [(&str, &Vec<ContractEntryPoint>, &Vec<CasmContractEntryPoint>); 3] = [
        ("EXTERNAL", &cx.cc.entry_points_by_type.external, &class.entry_points_by_type.external),
        ("L1_HANDLER", &cx.cc.entry_points_by_type.l1_handler, &class.entry_points_by_type.l1_handler),
        ("CONSTRUCTOR", &cx.cc.entry_points_by_type.constructor, &class.entry_points_by_type.constructor),
    ];
    for (tname, src, dst) in tables {
        if src.len() != dst.len() {
            fail(format!("{tname}: number of entry points differs"), "ep-count", json!({}));
            continue;
        }
        for w in dst.windows(2) {
            if w[0].selector >= w[1].selector {
                fail(
                    format!("{tname}: entry points of the compiled class are not strictly sorted by selector"),
                    "ep-unsorted",
                    json!({"selector": format!("0x{}", w[0].selector.to_str_radix(16))}),
                );
                break;
            }
        }
        for (e, c) in src.iter().zip(dst.iter()) {
            let sel = format!("0x{}", e.selector.to_str_radix(16));
            if e.selector != c.selector {
                fail(format!("{tname}: selector changed"), "ep-selector", json!({"selector": sel}));
            }
            let Some(f) = cx.program.funcs.get(e.function_idx) else {
                fail(format!("{tname}: entry point names no function"), "ep-function", json!({"selector": sel}));
                continue;
            };
            // offset = first instruction of the function it names
            match infos.get(f.entry_point.0) {
                Some(si) if si.start_offset == c.offset => {}
                _ => fail(
                    format!("{tname}: offset is not the start offset of the function's entry statement"),
                    "ep-offset",
                    json!({"selector": sel, "offset": c.offset, "statement": f.entry_point.0}),
                ),
            }
            if let Some(starts) = &starts {
                if !starts.contains(&c.offset) {
                    fail(
                        format!("{tname}: offset {} is not the start of an instruction", c.offset),
                        "ep-offset-instr",
                        json!({"selector": sel, "offset": c.offset}),
                    );
                }
            }
            // builtins = the function's builtin parameters, in protocol order
            match builtin_params(cx.program, e.function_idx) {
                Ok(bs) => {
                    if bs != c.builtins {
                        fail(
                            format!("{tname}: builtins differ from the function's builtin parameters"),
                            "ep-builtins",
                            json!({"selector": sel, "params": bs, "class": c.builtins}),
                        );
                    }
                }
                Err(why) => fail(
                    format!("{tname}: accepted entry point whose signature is not (builtins.., gas, system, span): {why}"),
                    "ep-signature",
                    json!({"selector": sel}),
                ),
            }
            let idx: Vec<Option<usize>> =
                c.builtins.iter().map(|b| PROTOCOL_ORDER.iter().position(|x| x == b)).collect();
            let ordered = idx.iter().all(|i| i.is_some()) && idx.windows(2).all(|w| w[0] < w[1]);
            if !ordered {
                fail(
                    format!("{tname}: builtins are not in protocol order"),
                    "ep-builtin-order",
                    json!({"selector": sel, "class": c.builtins}),
                );
            }
        }
    }

    // --- segment lengths ---
    let seg_expected = cx.sv.major > 1 || (cx.sv.major == 1 && cx.sv.minor >= 5);
    match &class.bytecode_segment_lengths {
        None => {
            if seg_expected {
                fail("bytecode_segment_lengths missing for Sierra >= 1.5.0".into(), "seg-missing", json!({}));
            }
        }
        Some(nl) => {
            if !seg_expected {
                fail("bytecode_segment_lengths present for Sierra < 1.5.0".into(), "seg-present", json!({}));
            }
            let mut ls = vec![];
            leaves(nl, &mut ls);
            let sum: usize = ls.iter().sum();
            if sum != n {
                fail(
                    format!("segment lengths add up to {} but the bytecode has {} words", sum, n),
                    "seg-sum",
                    json!({"sum": sum, "len": n}),
                );
            }
            if n > 0 && ls.iter().any(|l| *l == 0) {
                fail("a bytecode segment has length 0".into(), "seg-zero", json!({}));
            }
            // boundaries = function starts and const segment starts
            if n > 0 {
                let mut bounds = BTreeSet::new();
                let mut acc = 0;
                for l in &ls {
                    bounds.insert(acc);
                    acc += l;
                }
                let mut expected = BTreeSet::new();
                let mut ok = true;
                for f in &cx.program.funcs {
                    match infos.get(f.entry_point.0) {
                        Some(si) => {
                            expected.insert(si.start_offset);
                        }
                        None => ok = false,
                    }
                }
                if let Some(cp) = cp {
                    let base = n - cp.consts_info.total_segments_size;
                    for seg in cp.consts_info.segments.values() {
                        expected.insert(base + seg.segment_offset);
                    }
                    expected.remove(&n);
                    if ok && bounds != expected {
                        fail(
                            "segment boundaries are not exactly the function starts and const segment starts".into(),
                            "seg-bounds",
                            json!({"bounds": bounds.iter().take(20).collect::<Vec<_>>(),
                                   "expected": expected.iter().take(20).collect::<Vec<_>>()}),
                        );
                    }
                }
            }
        }
    }

    // --- const segments are `ret` followed by data, after the code ---
    if let Some(cp) = cp {
        let ret_word = BigUint::from(0x208b7fff7fff7ffeu64);
        let base = n - cp.consts_info.total_segments_size;
        if base != code_end {
            fail("const segments do not start at the end of the code".into(), "const-base", json!({}));
        }
        for seg in cp.consts_info.segments.values() {
            if words.get(base + seg.segment_offset) != Some(&ret_word) {
                fail("const segment does not start with ret".into(), "const-ret", json!({}));
            }
        }
    }

    // --- hashes and JSON round trip ---
    let h = catch(AssertUnwindSafe(|| (class.compiled_class_hash(), class.legacy_compiled_class_hash())));
    match h {
        Err(msg) => fail(format!("class hash panics: {msg}"), "hash-panic", json!({})),
        Ok((h1, h2)) => {
            let text = serde_json::to_string(class).unwrap();
            match serde_json::from_str::<CasmContractClass>(&text) {
                Err(e) => fail(format!("class JSON does not parse back: {e}"), "json-parse", json!({})),
                Ok(back) => {
                    if back != *class {
                        fail("class changes under a JSON round trip".into(), "json-roundtrip", json!({}));
                    }
                    let h2b = catch(AssertUnwindSafe(|| {
                        (back.compiled_class_hash(), back.legacy_compiled_class_hash())
                    }));
                    if h2b.ok() != Some((h1, h2)) {
                        fail("class hash changes under a JSON round trip".into(), "hash-roundtrip", json!({}));
                    }
                    let text2 = serde_json::to_string(&back).unwrap();
                    if text2 != text {
                        fail("class JSON text is not stable".into(), "json-text", json!({}));
                    }
                }
            }
        }
    }
}

/// Independent canonical representative in [0, P).
pub fn canonical(w: &BigInt) -> BigUint {
    let p = BigInt::from(prime());
    let mut r = w % &p;
    if r.is_negative() {
        r += &p;
    }
    if r.is_zero() { BigUint::zero() } else { r.to_biguint().unwrap() }
}
