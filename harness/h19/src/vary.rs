//! Case generation: the real classes, their variations, boundary words, synthetic segmentation
//! inputs; runs the implementation, the oracle, and prints the Coq cases.
use std::collections::hash_map::DefaultHasher;
use std::fmt::Write as _;
use std::hash::{Hash, Hasher};
use std::panic::AssertUnwindSafe;

use cairo_lang_casm::hints::Hint;
use cairo_lang_sierra::ids::{ConcreteLibfuncId, ConcreteTypeId, FunctionId, VarId};
use cairo_lang_sierra::program::{
    BranchInfo, BranchTarget, ConcreteLibfuncLongId, Function, FunctionSignature, GenericArg,
    Invocation, Param, Program, Statement, StatementIdx,
};
use cairo_lang_sierra_to_casm::compiler::{
    CairoProgram, CairoProgramDebugInfo, ConstSegment, ConstsInfo, ReturnStatementDebugInfo,
    SierraStatementDebugInfo, StatementKindDebugInfo,
};
use cairo_lang_sierra_type_size::ProgramRegistryInfo;
use cairo_lang_starknet_classes::casm_contract_class::{
    CasmContractClass, CasmContractEntryPoint, ENTRY_POINT_BUILTIN_ORDER,
    StarknetSierraCompilationError as E,
};
use cairo_lang_starknet_classes::compiler_version::{VersionId, current_sierra_version_id};
use cairo_lang_starknet_classes::contract_class::{ContractClass, ContractEntryPoint};
use cairo_lang_starknet_classes::keccak::starknet_keccak;
use cairo_lang_starknet_classes::verif_exports::{SegmentationError, compute_bytecode_segment_lengths};
use cairo_lang_utils::ordered_hash_map::OrderedHashMap;
use num_bigint::{BigInt, BigUint};
use num_traits::{One, Signed};
use serde_json::json;
use vcommon::{Rng, catch};

use crate::oracle::{self, Failure};
use crate::print as pr;
use crate::{Loaded, Outcome, Stats, replicate_compile, run_impl};

/// Classes up to this many statements get the full Coq legs in the quick tier.
const QUICK_FULL_LIMIT: usize = 2000;

// ------------------------------------------------------------------------------------------
// the harness's own reading of the type shapes the checks look at
struct Tr<'a>(&'a Program);
impl Tr<'_> {
    fn long(&self, ty: &ConcreteTypeId) -> Option<&cairo_lang_sierra::program::ConcreteTypeLongId> {
        self.0.type_declarations.get(ty.id as usize).map(|d| &d.long_id)
    }
    fn gen_is(&self, ty: &ConcreteTypeId, g: &str) -> bool {
        self.long(ty).is_some_and(|l| l.generic_id.0 == g)
    }
    fn felt_array(&self, ty: &ConcreteTypeId) -> bool {
        match self.long(ty) {
            Some(l) if l.generic_id.0 == "Array" => match l.generic_args.as_slice() {
                [GenericArg::Type(e)] => self.gen_is(e, "felt252"),
                _ => false,
            },
            _ => false,
        }
    }
    fn felt_array_snapshot(&self, ty: &ConcreteTypeId) -> bool {
        match self.long(ty) {
            Some(l) if l.generic_id.0 == "Snapshot" => match l.generic_args.as_slice() {
                [GenericArg::Type(e)] => self.felt_array(e),
                _ => false,
            },
            _ => false,
        }
    }
    fn span(&self, ty: &ConcreteTypeId) -> bool {
        match self.long(ty) {
            Some(l) if l.generic_id.0 == "Struct" => match l.generic_args.as_slice() {
                [GenericArg::UserType(_), GenericArg::Type(e)] => self.felt_array_snapshot(e),
                _ => false,
            },
            _ => false,
        }
    }
    fn struct_members(&self, ty: &ConcreteTypeId) -> Option<Vec<&ConcreteTypeId>> {
        let l = self.long(ty)?;
        if l.generic_id.0 != "Struct" {
            return None;
        }
        let (first, rest) = l.generic_args.split_first()?;
        if !matches!(first, GenericArg::UserType(_)) {
            return None;
        }
        rest.iter().map(|a| if let GenericArg::Type(t) = a { Some(t) } else { None }).collect()
    }
    fn valid_ret(&self, ty: &ConcreteTypeId) -> bool {
        let Some(l) = self.long(ty) else { return false };
        if l.generic_id.0 != "Enum" {
            return false;
        }
        let [GenericArg::UserType(_), GenericArg::Type(ok_ty), GenericArg::Type(err_ty)] =
            l.generic_args.as_slice()
        else {
            return false;
        };
        match self.struct_members(ok_ty).as_deref() {
            Some([t0]) if self.span(t0) => {}
            _ => return false,
        }
        if self.felt_array(err_ty) {
            return true;
        }
        match self.struct_members(err_ty).as_deref() {
            Some([panic_ty, data]) => {
                matches!(self.struct_members(panic_ty).as_deref(), Some([])) && self.felt_array(data)
            }
            _ => false,
        }
    }
}

fn coq_gid(g: &str) -> Option<&'static str> {
    Some(match g {
        "Pedersen" => "Pedersen",
        "RangeCheck" => "RangeCheck",
        "Bitwise" => "Bitwise",
        "EcOp" => "EcOp",
        "Poseidon" => "Poseidon",
        "SegmentArena" => "SegmentArena",
        "RangeCheck96" => "RangeCheck96",
        "AddMod" => "AddMod",
        "MulMod" => "MulMod",
        "GasBuiltin" => "GasBuiltin",
        "System" => "System",
        _ => return None,
    })
}

fn print_types(program: &Program) -> String {
    let tr = Tr(program);
    let v: Vec<String> = program
        .type_declarations
        .iter()
        .enumerate()
        .map(|(i, d)| {
            let id = ConcreteTypeId::new(i as u64);
            let g = coq_gid(&d.long_id.generic_id.0);
            let (s, r) = (tr.span(&id), tr.valid_ret(&id));
            match (g, s, r) {
                (None, false, false) => "OT".to_string(),
                (g, s, r) => format!("T {} {} {}", g.map(|x| x.to_string()).unwrap_or("(OtherG 0)".into()), s, r),
            }
        })
        .collect();
    pr::list(&v)
}

fn print_func(f: &Function) -> String {
    format!(
        "({}, {}, {})",
        f.entry_point.0,
        pr::list(&f.signature.param_types.iter().map(|t| t.id.to_string()).collect::<Vec<_>>()),
        pr::list(&f.signature.ret_types.iter().map(|t| t.id.to_string()).collect::<Vec<_>>())
    )
}

fn print_eps(es: &[ContractEntryPoint]) -> String {
    pr::list(&es.iter().map(|e| format!("({}, {})", pr::zu(&e.selector), e.function_idx)).collect::<Vec<_>>())
}
fn print_ceps(es: &[CasmContractEntryPoint]) -> String {
    format!(
        "(map mk_cep {})",
        pr::list(
            &es.iter()
                .map(|e| format!("({}, {}, {})", pr::zu(&e.selector), e.offset, pr::strings(&e.builtins)))
                .collect::<Vec<_>>()
        )
    )
}

fn err_name(e: &E) -> &'static str {
    match e {
        E::CompilationError(_) => "CompilationError",
        E::MetadataError(_) => "MetadataError",
        E::AllowedLibfuncsError(_) => "AllowedLibfuncsError",
        E::SegmentationError(_) => "SegmentationError",
        E::EntryPointError => "EntryPointError",
        E::InvalidEntryPointSignatureMissingArgs => "InvalidEntryPointSignatureMissingArgs",
        E::InvalidEntryPointSignature => "InvalidEntryPointSignature",
        E::InvalidConstructorEntryPoint => "InvalidConstructorEntryPoint",
        E::InvalidBuiltinType(_) => "InvalidBuiltinType",
        E::InvalidEntryPointSignatureWrongBuiltinsOrder => "InvalidEntryPointSignatureWrongBuiltinsOrder",
        E::EntryPointsOutOfOrder => "EntryPointsOutOfOrder",
        E::DuplicateEntryPointSelector { .. } => "DuplicateEntryPointSelector",
        E::DuplicateEntryPointSierraFunction { .. } => "DuplicateEntryPointSierraFunction",
        E::UnsupportedSierraVersion { .. } => "UnsupportedSierraVersion",
    }
}

/// The implementation's answer as a Coq `ep_res`.
fn print_ep_res(o: &Outcome) -> String {
    match o {
        Outcome::Ok(c, _) => format!(
            "EOk {} {} {}",
            print_ceps(&c.entry_points_by_type.external),
            print_ceps(&c.entry_points_by_type.l1_handler),
            print_ceps(&c.entry_points_by_type.constructor)
        ),
        Outcome::Panic(_) => "EPanic".into(),
        Outcome::Err(e) => match e {
            E::CompilationError(_) | E::MetadataError(_) | E::AllowedLibfuncsError(_) | E::SegmentationError(_) => {
                "EPost".into()
            }
            E::InvalidBuiltinType(t) => format!("EErr (InvalidBuiltinType {})", t.id),
            E::DuplicateEntryPointSelector { selector } => {
                format!("EErr (DuplicateEntryPointSelector {})", pr::zu(selector))
            }
            E::DuplicateEntryPointSierraFunction { index } => {
                format!("EErr (DuplicateEntryPointSierraFunction {})", index)
            }
            E::UnsupportedSierraVersion { .. } => "EErr UnsupportedSierraVersion".into(),
            other => format!("EErr {}", err_name(other)),
        },
    }
}

fn code_of(cp: &CairoProgram, n_stmts: usize) -> Vec<Vec<usize>> {
    // instructions of statement i = instructions[instruction_idx(i) .. instruction_idx(i+1)]
    let infos = &cp.debug_info.sierra_statement_info;
    (0..n_stmts)
        .map(|i| {
            let a = infos[i].instruction_idx;
            let b = if i + 1 < n_stmts { infos[i + 1].instruction_idx } else { cp.instructions.len() };
            cp.instructions[a..b]
                .iter()
                .map(|ins| ins.body.op_size() + if ins.hints.is_empty() { 0 } else { 10 })
                .collect()
        })
        .collect()
}

fn seg_lens_of(cp: &CairoProgram) -> Vec<usize> {
    cp.consts_info.segments.values().map(|s| s.values.len()).collect()
}

fn print_seg_result(r: &Result<Result<cairo_lang_starknet_classes::NestedIntList, SegmentationError>, String>) -> String {
    match r {
        Ok(Ok(n)) => format!("(Ok ({}))", pr::nested(n)),
        Ok(Err(SegmentationError::NoFunctionStartAtZero)) => "(Err NoFunctionStartAtZero)".into(),
        Ok(Err(SegmentationError::JumpOutsideFunction(i))) => format!("(Err (JumpOutsideFunction {}))", i.0),
        Err(_) => "Panic".into(),
    }
}

fn seg_case(program: &Program, cp: &CairoProgram, len: usize, stmts_ref: Option<&str>, starts_ref: Option<&str>) -> (String, u8) {
    let r = catch(AssertUnwindSafe(|| compute_bytecode_segment_lengths(program, cp, len)));
    let kind = match &r {
        Ok(Ok(_)) => 0,
        Ok(Err(_)) => 1,
        Err(_) => 2,
    };
    let fe: Vec<usize> = program.funcs.iter().map(|f| f.entry_point.0).collect();
    let starts: Vec<usize> = cp.debug_info.sierra_statement_info.iter().map(|s| s.start_offset).collect();
    let offs: Vec<usize> = cp.consts_info.segments.values().map(|s| s.segment_offset).collect();
    (
        format!(
            "({}, {}, {}, {}, {}, {}, {})",
            pr::list_n(&fe),
            stmts_ref.map(|s| s.to_string()).unwrap_or_else(|| pr::stmts(program)),
            starts_ref.map(|s| s.to_string()).unwrap_or_else(|| pr::list_n(&starts)),
            cp.consts_info.total_segments_size,
            pr::list_n(&offs),
            len,
            print_seg_result(&r)
        ),
        kind,
    )
}

fn hash_str(s: &str) -> u64 {
    let mut h = DefaultHasher::new();
    s.hash(&mut h);
    h.finish()
}

// ------------------------------------------------------------------------------------------
enum Expect {
    Any,
    Ok,
    SameAsBase,
    Err(&'static str),
}

struct Var {
    kind: &'static str,
    cc: ContractClass,
    program: Option<Program>, // None = the extracted program unchanged
    sv: VersionId,
    pythonic: bool,
    max: usize,
    lenient: bool,
    expect: Expect,
}

fn find_type(program: &Program, generic: &str) -> Option<ConcreteTypeId> {
    program
        .type_declarations
        .iter()
        .position(|d| d.long_id.generic_id.0 == generic)
        .map(|i| ConcreteTypeId::new(i as u64))
}

fn mutate_sig(
    program: &Program,
    fidx: usize,
    f: impl FnOnce(&mut Vec<ConcreteTypeId>, &mut Vec<ConcreteTypeId>),
) -> Program {
    let mut p = program.clone();
    let func = &mut p.funcs[fidx];
    let mut ps = func.signature.param_types.clone();
    let mut rs = func.signature.ret_types.clone();
    f(&mut ps, &mut rs);
    func.params =
        ps.iter().enumerate().map(|(i, ty)| Param { id: VarId::new(i as u64), ty: ty.clone() }).collect();
    func.signature = FunctionSignature { param_types: ps, ret_types: rs };
    p
}

fn variations(l: &Loaded, base_len: usize, code_len: usize, thorough: bool, rng: &mut Rng) -> Vec<Var> {
    let cur = current_sierra_version_id();
    let mut vs: Vec<Var> = vec![];
    let base = |kind: &'static str, cc: ContractClass, expect: Expect| Var {
        kind,
        cc,
        program: None,
        sv: l.sv,
        pythonic: true,
        max: usize::MAX,
        lenient: false,
        expect,
    };
    let reps = if thorough { 4 } else { 1 };
    let ext = &l.cc.entry_points_by_type.external;
    let ctor_sel = starknet_keccak(b"constructor");

    vs.push(Var { pythonic: false, ..base("no_pythonic_hints", l.cc.clone(), Expect::SameAsBase) });

    // ---- entry point tables ----
    for _ in 0..reps {
        if ext.len() >= 2 {
            let i = rng.below(ext.len() as u64 - 1) as usize;
            let mut cc = l.cc.clone();
            cc.entry_points_by_type.external.swap(i, i + 1);
            vs.push(base("swap_adjacent", cc, Expect::Err("EntryPointsOutOfOrder")));
            let mut cc = l.cc.clone();
            cc.entry_points_by_type.external.reverse();
            vs.push(base("reverse", cc, Expect::Err("EntryPointsOutOfOrder")));
            // a far swap: the first offending window decides between OutOfOrder and Duplicate
            let j = rng.below(ext.len() as u64) as usize;
            let mut cc = l.cc.clone();
            cc.entry_points_by_type.external.swap(i, j);
            vs.push(base("swap_far", cc, if i == j { Expect::SameAsBase } else { Expect::Err("EntryPointsOutOfOrder") }));
        }
        if !ext.is_empty() {
            let i = rng.below(ext.len() as u64) as usize;
            let mut cc = l.cc.clone();
            let e = cc.entry_points_by_type.external[i].clone();
            cc.entry_points_by_type.external.insert(i, e);
            vs.push(base("duplicate_selector", cc, Expect::Err("DuplicateEntryPointSelector")));
            // the same function under a second selector (allowed twice, not three times)
            let gap = |k: usize| -> bool {
                ext.get(k + 1).is_none_or(|n| n.selector > &ext[k].selector + BigUint::from(2u32))
            };
            if gap(i) {
                let mut cc = l.cc.clone();
                let mut e = cc.entry_points_by_type.external[i].clone();
                e.selector += BigUint::one();
                cc.entry_points_by_type.external.insert(i + 1, e.clone());
                vs.push(base("alias_twice", cc.clone(), Expect::Ok));
                e.selector += BigUint::one();
                cc.entry_points_by_type.external.insert(i + 2, e);
                vs.push(base("alias_three_times", cc, Expect::Err("DuplicateEntryPointSierraFunction")));
            }
            // subsets
            let mut cc = l.cc.clone();
            let keep: Vec<bool> = (0..ext.len()).map(|_| rng.below(3) != 0).collect();
            let mut it = keep.iter();
            cc.entry_points_by_type.external.retain(|_| *it.next().unwrap());
            vs.push(base("subset", cc, Expect::Ok));
            let mut cc = l.cc.clone();
            cc.entry_points_by_type.external.clear();
            cc.entry_points_by_type.l1_handler.clear();
            cc.entry_points_by_type.constructor.clear();
            vs.push(base("no_entry_points", cc, Expect::Ok));
            // move one external entry point to the l1 handlers / constructor
            let mut cc = l.cc.clone();
            let e = cc.entry_points_by_type.external.remove(i);
            let pos = cc.entry_points_by_type.l1_handler.iter().position(|x| x.selector >= e.selector);
            let dup = cc.entry_points_by_type.l1_handler.iter().any(|x| x.selector == e.selector);
            let at = pos.unwrap_or(cc.entry_points_by_type.l1_handler.len());
            cc.entry_points_by_type.l1_handler.insert(at, e.clone());
            vs.push(base("external_to_l1_handler", cc, if dup { Expect::Err("DuplicateEntryPointSelector") } else { Expect::Ok }));
            let mut cc = l.cc.clone();
            cc.entry_points_by_type.constructor = vec![e.clone()];
            vs.push(base("constructor_with_other_selector", cc, Expect::Err("InvalidConstructorEntryPoint")));
            let mut cc = l.cc.clone();
            cc.entry_points_by_type.constructor =
                vec![ContractEntryPoint { selector: ctor_sel.clone(), function_idx: e.function_idx }];
            vs.push(base("constructor_alias_of_external", cc, Expect::Ok));
            let mut cc = l.cc.clone();
            cc.entry_points_by_type.constructor = vec![
                ContractEntryPoint { selector: ctor_sel.clone(), function_idx: e.function_idx },
                ContractEntryPoint { selector: &ctor_sel + BigUint::one(), function_idx: e.function_idx },
            ];
            vs.push(base("two_constructors", cc, Expect::Err("InvalidConstructorEntryPoint")));
            // function indices
            let mut cc = l.cc.clone();
            cc.entry_points_by_type.external[i].function_idx = l.program.funcs.len() + rng.below(3) as usize;
            vs.push(base("function_index_out_of_range", cc, Expect::Err("EntryPointError")));
            let mut cc = l.cc.clone();
            cc.entry_points_by_type.external[i].function_idx = rng.below(l.program.funcs.len() as u64) as usize;
            vs.push(Var { lenient: true, ..base("function_index_random", cc, Expect::Any) });
        }
    }

    // ---- signatures (mutated programs) ----
    let gas = find_type(&l.program, "GasBuiltin");
    let sys = find_type(&l.program, "System");
    let felt = find_type(&l.program, "felt252");
    for _ in 0..reps {
        if ext.is_empty() {
            break;
        }
        let i = rng.below(ext.len() as u64) as usize;
        let fidx = ext[i].function_idx;
        let f = &l.program.funcs[fidx];
        let nb = f.signature.param_types.len().saturating_sub(3);
        let mut push = |kind: &'static str, p: Program, expect: Expect| {
            vs.push(Var { program: Some(p), lenient: true, ..base(kind, l.cc.clone(), expect) })
        };
        if nb >= 2 {
            let a = rng.below(nb as u64) as usize;
            let mut b = rng.below(nb as u64 - 1) as usize;
            if b >= a {
                b += 1;
            }
            push(
                "sig_swap_builtins",
                mutate_sig(&l.program, fidx, |ps, rs| {
                    ps.swap(a, b);
                    rs.swap(a, b);
                }),
                Expect::Err("InvalidEntryPointSignatureWrongBuiltinsOrder"),
            );
            push(
                "sig_swap_builtins_params_only",
                mutate_sig(&l.program, fidx, |ps, _| ps.swap(a, b)),
                Expect::Err("InvalidEntryPointSignature"),
            );
        }
        if nb >= 1 {
            let a = rng.below(nb as u64) as usize;
            push(
                "sig_remove_builtin",
                mutate_sig(&l.program, fidx, |ps, rs| {
                    ps.remove(a);
                    rs.remove(a);
                }),
                Expect::Any,
            );
            push(
                "sig_duplicate_builtin",
                mutate_sig(&l.program, fidx, |ps, rs| {
                    let t = ps[a].clone();
                    ps.insert(a, t.clone());
                    rs.insert(a, t);
                }),
                Expect::Err("InvalidEntryPointSignatureWrongBuiltinsOrder"),
            );
        }
        for (name, ty) in [("sig_system_mid_list", &sys), ("sig_gas_mid_list", &gas), ("sig_felt_as_builtin", &felt)] {
            if let Some(t) = ty {
                let a = rng.below(nb as u64 + 1) as usize;
                let t = t.clone();
                push(
                    name,
                    mutate_sig(&l.program, fidx, |ps, rs| {
                        ps.insert(a, t.clone());
                        rs.insert(a, t);
                    }),
                    Expect::Err("InvalidBuiltinType"),
                );
            }
        }
        // a protocol builtin the function does not use, at a random position
        let order = ["Pedersen", "RangeCheck", "Bitwise", "EcOp", "Poseidon", "SegmentArena", "RangeCheck96", "AddMod", "MulMod"];
        let g = order[rng.below(9) as usize];
        if let Some(t) = find_type(&l.program, g) {
            let a = rng.below(nb as u64 + 1) as usize;
            push(
                "sig_insert_builtin",
                mutate_sig(&l.program, fidx, |ps, rs| {
                    ps.insert(a, t.clone());
                    rs.insert(a, t);
                }),
                Expect::Any,
            );
        }
        if f.signature.param_types.len() >= 3 {
            let n = f.signature.param_types.len();
            push(
                "sig_swap_gas_system",
                mutate_sig(&l.program, fidx, |ps, rs| {
                    ps.swap(n - 3, n - 2);
                    rs.swap(n - 3, n - 2);
                }),
                Expect::Err("InvalidEntryPointSignatureWrongBuiltinsOrder"),
            );
            if let Some(t) = &felt {
                let t = t.clone();
                push(
                    "sig_span_replaced",
                    mutate_sig(&l.program, fidx, |ps, _| *ps.last_mut().unwrap() = t),
                    Expect::Err("InvalidEntryPointSignature"),
                );
            }
            push(
                "sig_drop_span",
                mutate_sig(&l.program, fidx, |ps, _| {
                    ps.pop();
                }),
                Expect::Err("InvalidEntryPointSignature"),
            );
            push("sig_no_params", mutate_sig(&l.program, fidx, |ps, _| ps.clear()), Expect::Err("InvalidEntryPointSignatureMissingArgs"));
            push("sig_two_rets", mutate_sig(&l.program, fidx, |_, rs| rs.truncate(2)), Expect::Err("InvalidEntryPointSignature"));
            push("sig_no_rets", mutate_sig(&l.program, fidx, |_, rs| rs.clear()), Expect::Err("InvalidEntryPointSignature"));
            let span = f.signature.param_types.last().unwrap().clone();
            push(
                "sig_ret_replaced",
                mutate_sig(&l.program, fidx, |_, rs| *rs.last_mut().unwrap() = span),
                Expect::Err("InvalidEntryPointSignature"),
            );
        }
    }

    // ---- Sierra versions ----
    for (kind, sv, expect) in [
        ("version_minor_above_current", VersionId { major: cur.major, minor: cur.minor + 1, patch: 0 }, Expect::Err("UnsupportedSierraVersion")),
        ("version_major_above_current", VersionId { major: cur.major + 1, minor: 0, patch: 0 }, Expect::Err("UnsupportedSierraVersion")),
        ("version_major_zero", VersionId { major: 0, minor: cur.minor, patch: 0 }, Expect::Err("UnsupportedSierraVersion")),
        ("version_current", cur, Expect::Ok),
        ("version_1_5", VersionId { major: 1, minor: 5, patch: 0 }, Expect::Ok),
        ("version_1_4", VersionId { major: 1, minor: 4, patch: 9 }, Expect::Ok),
    ] {
        vs.push(Var { sv, ..base(kind, l.cc.clone(), expect) });
    }

    // ---- bytecode size limits ----
    let mut limits = vec![base_len, base_len.saturating_sub(1), base_len + 1, code_len, code_len.saturating_sub(1), 0, 1];
    for _ in 0..(if thorough { 6 } else { 2 }) {
        limits.push(rng.below(base_len as u64 + 2) as usize);
    }
    for m in limits {
        let expect = if base_len <= m { Expect::SameAsBase } else { Expect::Err("CompilationError") };
        vs.push(Var { max: m, ..base("max_bytecode_size", l.cc.clone(), expect) });
    }
    // Before Sierra 1.4 the metadata computation runs two gas solvers and asserts that they agree
    // (sierra-gas gas_info.rs "Comparison failed."); with a changed set of entry points they need
    // not, so what happens after the modelled checks is not predictable there.
    for v in vs.iter_mut() {
        let legacy = !v.sv.supports(VersionId { major: 1, minor: 4, patch: 0 });
        if legacy && v.cc.entry_points_by_type != l.cc.entry_points_by_type {
            v.lenient = true;
            if matches!(v.expect, Expect::Ok) {
                v.expect = Expect::Any;
            }
        }
    }
    vs
}

fn same_class(a: &CasmContractClass, b: &CasmContractClass, ignore_pythonic: bool) -> bool {
    if ignore_pythonic {
        let mut a2 = a.clone();
        let mut b2 = b.clone();
        a2.pythonic_hints = None;
        b2.pythonic_hints = None;
        a2 == b2
    } else {
        a == b
    }
}

// ------------------------------------------------------------------------------------------
pub fn class_shard(
    k: usize,
    l: &Loaded,
    thorough: bool,
    rng: &mut Rng,
    stats: &mut Stats,
    failures: &mut Vec<Failure>,
    samples: &mut String,
) -> String {
    let cur = current_sierra_version_id();
    let mut defs = String::new();
    let (mut seg, mut lay, mut canon, mut ep, mut cst, mut ver) = (vec![], vec![], vec![], vec![], vec![], vec![]);
    let mut fail = |variation: &str, why: String, fp: &str, detail: serde_json::Value| {
        failures.push(Failure {
            class: l.name.clone(),
            variation: variation.to_string(),
            why,
            fingerprint: fp.to_string(),
            detail,
        })
    };

    // constants of the implementation (once)
    if k == 0 {
        let names: Vec<String> = ENTRY_POINT_BUILTIN_ORDER.iter().map(|g| g.0.to_string()).collect();
        cst.push(format!("({}, {})", pr::strings(&names), pr::zu(&starknet_keccak(b"constructor"))));
    }

    // ---- the class as checked in ----
    stats.impl_runs += 1;
    let base = run_impl(&l.cc, &l.program, l.sv, true, usize::MAX);
    let (bclass, bdbg) = match &base {
        Outcome::Ok(c, d) => (c.as_ref(), d),
        Outcome::Err(e) => {
            let what = if l.from_source {
                "CasmContractClass::from_contract_class rejects the contract class the compiler just produced"
            } else {
                "checked-in class does not compile"
            };
            fail(
                "base",
                format!("{what}: {e}"),
                if l.from_source { "compiler-output-rejected" } else { "base-compile" },
                json!({"source": l.origin, "contract": l.name,
                       "entry_points_by_type": serde_json::to_value(&l.cc.entry_points_by_type).unwrap()}),
            );
            return pr::shard("", &seg, &lay, &canon, &ep, &cst, &ver);
        }
        Outcome::Panic(m) => {
            fail("base", format!("compiling the class panics: {m}"), "base-panic", json!({"source": l.origin, "contract": l.name}));
            return pr::shard("", &seg, &lay, &canon, &ep, &cst, &ver);
        }
    };
    stats.ok_runs += 1;
    let n_stmts = l.program.statements.len();
    let full = thorough || n_stmts <= QUICK_FULL_LIMIT;
    let cp = match replicate_compile(&l.cc, &l.program, l.sv, usize::MAX) {
        Ok(cp) => Some(cp),
        Err(e) => {
            fail("base", format!("harness could not repeat the compilation: {e}"), "replicate", json!({}));
            None
        }
    };
    if let Some(cp) = &cp {
        if cp.debug_info != *bdbg {
            fail("base", "repeated compilation gives different debug info".into(), "replicate-debug", json!({}));
        }
        // the class bytecode and hints are those of the assembled program
        let asm = cp.assemble();
        let canon_words: Vec<BigUint> = asm.bytecode.iter().map(oracle::canonical).collect();
        let class_words: Vec<BigUint> = bclass.bytecode.iter().map(|w| w.value.clone()).collect();
        if canon_words != class_words {
            let i = canon_words.iter().zip(class_words.iter()).position(|(a, b)| a != b);
            fail(
                "base",
                "class bytecode is not the canonical form of the assembled words".into(),
                "bytecode-assembled",
                json!({"first_difference": i}),
            );
        }
        let hints_a: Vec<(usize, Vec<Hint>)> = asm.hints.clone();
        if hints_a != bclass.hints {
            fail("base", "class hints differ from the assembled program's hints".into(), "hints-assembled", json!({}));
        }
        stats.canon_words += asm.bytecode.len();
        stats.canon_negative_words += asm.bytecode.iter().filter(|w| w.is_negative()).count();
    }
    let cx = oracle::Ctx { class_name: &l.name, variation: "base", cc: &l.cc, program: &l.program, sv: l.sv };
    oracle::check_result(&cx, bclass, bdbg, cp.as_ref(), failures);
    stats.oracle_checked += 1;

    // ---- reproducibility: other routes to the same class ----
    {
        // contract class through JSON
        let text = serde_json::to_string(&l.cc).unwrap();
        match serde_json::from_str::<ContractClass>(&text) {
            Ok(cc2) if cc2 == l.cc => {}
            _ => failures.push(Failure {
                class: l.name.clone(),
                variation: "contract_class_json".into(),
                why: "contract class changes under a JSON round trip".into(),
                fingerprint: "cc-json".into(),
                detail: json!({}),
            }),
        }
        // re-publishing the extracted program gives the same felts (after the version header) and
        // the same compiled class; debug info population does not matter
        let republished = ContractClass::new(&l.program, l.cc.entry_points_by_type.clone(), l.cc.abi.clone(), Default::default());
        match republished {
            Ok(cc2) => {
                if cc2.sierra_program.get(6..) != l.cc.sierra_program.get(6..) {
                    failures.push(Failure {
                        class: l.name.clone(),
                        variation: "republish".into(),
                        why: "serialising the extracted program does not give back the published felts".into(),
                        fingerprint: "republish-felts".into(),
                        detail: json!({}),
                    });
                }
                match cc2.extract_sierra_program(true) {
                    Ok(ex2) => {
                        if ex2.program != l.program {
                            failures.push(Failure {
                                class: l.name.clone(),
                                variation: "republish".into(),
                                why: "extract(new(extract(class))) differs from extract(class)".into(),
                                fingerprint: "republish-program".into(),
                                detail: json!({}),
                            });
                        }
                        stats.impl_runs += 1;
                        match run_impl(&cc2, &ex2.program, l.sv, true, usize::MAX) {
                            Outcome::Ok(c2, _) if *c2 == *bclass => stats.ok_runs += 1,
                            _ => failures.push(Failure {
                                class: l.name.clone(),
                                variation: "republish".into(),
                                why: "the class compiled from the re-published contract class differs".into(),
                                fingerprint: "republish-class".into(),
                                detail: json!({}),
                            }),
                        }
                    }
                    Err(e) => failures.push(Failure {
                        class: l.name.clone(),
                        variation: "republish".into(),
                        why: format!("re-published class does not extract: {e:?}"),
                        fingerprint: "republish-extract".into(),
                        detail: json!({}),
                    }),
                }
            }
            Err(e) => failures.push(Failure {
                class: l.name.clone(),
                variation: "republish".into(),
                why: format!("extracted program does not serialise: {e:?}"),
                fingerprint: "republish-new".into(),
                detail: json!({}),
            }),
        }
        if let Ok(exd) = l.cc.extract_sierra_program(true) {
            stats.impl_runs += 1;
            match run_impl(&l.cc, &exd.program, l.sv, true, usize::MAX) {
                Outcome::Ok(c2, _) if *c2 == *bclass => stats.ok_runs += 1,
                _ => failures.push(Failure {
                    class: l.name.clone(),
                    variation: "populate_debug_info".into(),
                    why: "populating debug names changes the compiled class".into(),
                    fingerprint: "debug-names".into(),
                    detail: json!({}),
                }),
            }
        }
    }

    // ---- Coq definitions shared by the cases of this class ----
    let starts: Vec<usize> = bdbg.sierra_statement_info.iter().map(|s| s.start_offset).collect();
    writeln!(defs, "(* {} : {} statements, {} functions, {} words *)", l.name, n_stmts, l.program.funcs.len(), bclass.bytecode.len()).unwrap();
    writeln!(defs, "Definition tys : tytab := {}.", print_types(&l.program)).unwrap();
    writeln!(defs, "Definition funcs : list func := map mk_func {}.", pr::list(&l.program.funcs.iter().map(print_func).collect::<Vec<_>>())).unwrap();
    writeln!(defs, "Definition starts : list Z := {}.", pr::list_n(&starts)).unwrap();
    let mut code_len = bdbg.sierra_statement_info.last().map(|s| s.end_offset).unwrap_or(0);
    if let (true, Some(cp)) = (full, &cp) {
        stats.coq_full_classes += 1;
        writeln!(defs, "Definition stmts : list stmt := {}.", pr::stmts(&l.program)).unwrap();
        let code = code_of(cp, n_stmts);
        writeln!(
            defs,
            "Definition cd : code := mk_code {}.",
            pr::list(&code.iter().map(|s| pr::list_n(s)).collect::<Vec<_>>())
        )
        .unwrap();
        let segs = seg_lens_of(cp);
        writeln!(defs, "Definition segs : list Z := {}.", pr::list_n(&segs)).unwrap();
        code_len = cp.instructions.iter().map(|i| i.body.op_size()).sum();

        // leg 1: segmentation through the hook, on the real program
        let (c, kind) = seg_case(&l.program, cp, bclass.bytecode.len(), Some("stmts"), Some("starts"));
        stats.seg_cases += 1;
        match kind {
            0 => stats.seg_ok += 1,
            1 => stats.seg_err += 1,
            _ => stats.seg_panic += 1,
        }
        stats.distinct.insert(hash_str(&c) ^ k as u64);
        seg.push(c);
        // the class field is what the hook computes (when the version enables it)
        if let Some(nl) = &bclass.bytecode_segment_lengths {
            let r = catch(AssertUnwindSafe(|| compute_bytecode_segment_lengths(&l.program, cp, bclass.bytecode.len())));
            if !matches!(&r, Ok(Ok(x)) if x == nl) {
                failures.push(Failure {
                    class: l.name.clone(),
                    variation: "base".into(),
                    why: "bytecode_segment_lengths of the class is not what compute_bytecode_segment_lengths returns".into(),
                    fingerprint: "seg-field".into(),
                    detail: json!({}),
                });
            }
        }
        // leg 2: layout, full record
        let infos = &cp.debug_info.sierra_statement_info;
        let offs: Vec<usize> = cp.consts_info.segments.values().map(|s| s.segment_offset).collect();
        let c = format!(
            "({}, cd, segs, LFull starts {} {} {} {} {} {} {})",
            usize::MAX,
            pr::list_n(&infos.iter().map(|s| s.end_offset).collect::<Vec<_>>()),
            pr::list_n(&infos.iter().map(|s| s.instruction_idx).collect::<Vec<_>>()),
            code_len,
            pr::list_n(&offs),
            cp.consts_info.total_segments_size,
            pr::list_n(&bclass.hints.iter().map(|(pc, _)| *pc).collect::<Vec<_>>()),
            bclass.bytecode.len()
        );
        stats.lay_cases += 1;
        stats.distinct.insert(hash_str(&c) ^ k as u64);
        lay.push(c);
        // leg 3: canonicalisation of every assembled word
        let asm = cp.assemble();
        let c = format!(
            "({}, {})",
            pr::list(&asm.bytecode.iter().map(pr::z).collect::<Vec<_>>()),
            pr::list(&bclass.bytecode.iter().map(|w| pr::zu(&w.value)).collect::<Vec<_>>())
        );
        stats.canon_cases += 1;
        stats.distinct.insert(hash_str(&c));
        canon.push(c);
    }
    // leg 4: the entry point tables of the class as checked in
    let eps = &l.cc.entry_points_by_type;
    let mk_class = |cc: &ContractClass, sv: VersionId, funcs: &str| {
        format!(
            "mk_class {} {} {} {} {} {} {} tys {}",
            sv.major,
            sv.minor,
            cur.major,
            cur.minor,
            print_eps(&cc.entry_points_by_type.constructor),
            print_eps(&cc.entry_points_by_type.external),
            print_eps(&cc.entry_points_by_type.l1_handler),
            funcs
        )
    };
    let _ = eps;
    let c = format!("({}, starts, false, {})", mk_class(&l.cc, l.sv, "funcs"), print_ep_res(&base));
    stats.ep_cases += 1;
    stats.distinct.insert(hash_str(&c) ^ k as u64);
    if samples.len() < 4000 {
        writeln!(samples, "ep {} base: {}", l.name, &c[..c.len().min(400)]).unwrap();
    }
    ep.push(c);
    ver.push(format!("({}, {}, {})", l.sv.major, l.sv.minor, bclass.bytecode_segment_lengths.is_some()));
    stats.ver_cases += 1;

    // ---- variations ----
    for v in variations(l, bclass.bytecode.len(), code_len, thorough, rng) {
        *stats.variation_kinds.entry(v.kind.to_string()).or_default() += 1;
        let program = v.program.as_ref().unwrap_or(&l.program);
        stats.impl_runs += 1;
        let out = run_impl(&v.cc, program, v.sv, v.pythonic, v.max);
        let vname = format!("{} (max={}, sierra {}.{}, pythonic={})", v.kind, v.max, v.sv.major, v.sv.minor, v.pythonic);
        let replay = |o: &Outcome| {
            json!({"class_json": l.origin.clone(),
                   "variation": v.kind, "max_bytecode_size": v.max,
                   "sierra_version": format!("{}.{}.{}", v.sv.major, v.sv.minor, v.sv.patch),
                   "entry_points_by_type": serde_json::to_value(&v.cc.entry_points_by_type).unwrap(),
                   "mutated_function_signatures": v.program.as_ref().map(|p| p.funcs.iter().zip(l.program.funcs.iter()).enumerate()
                        .filter(|(_, (a, b))| a != b).map(|(i, (a, _))| format!("{}: {}", i, print_func(a))).collect::<Vec<_>>()),
                   "result": match o { Outcome::Ok(..) => "Ok".to_string(), Outcome::Err(e) => format!("{e:?}"), Outcome::Panic(m) => format!("panic: {m}") }})
        };
        match &out {
            Outcome::Ok(c, d) => {
                stats.ok_runs += 1;
                // every invariant of the property on this result too
                let same_program = v.program.is_none()
                    && v.sv == l.sv
                    && v.cc.entry_points_by_type == l.cc.entry_points_by_type;
                let vcp = if same_program { cp.clone() } else { replicate_compile(&v.cc, program, v.sv, v.max).ok() };
                let cx = oracle::Ctx { class_name: &l.name, variation: &vname, cc: &v.cc, program, sv: v.sv };
                oracle::check_result(&cx, c, d, vcp.as_ref(), failures);
                stats.oracle_checked += 1;
            }
            Outcome::Err(e) => {
                let post = matches!(e, E::CompilationError(_) | E::MetadataError(_) | E::AllowedLibfuncsError(_) | E::SegmentationError(_));
                if post {
                    stats.post_runs += 1
                } else {
                    stats.err_runs += 1
                }
                *stats.err_kinds.entry(err_name(e).to_string()).or_default() += 1;
            }
            Outcome::Panic(_) => stats.panic_runs += 1,
        }
        // what the construction of the variation implies
        let ok = match (&v.expect, &out) {
            (Expect::Any, _) => true,
            (Expect::Ok, Outcome::Ok(..)) => true,
            (Expect::SameAsBase, Outcome::Ok(c, _)) => same_class(c, bclass, !v.pythonic),
            (Expect::Err(name), Outcome::Err(e)) => err_name(e) == *name,
            _ => false,
        };
        if !ok {
            let what = match &v.expect {
                Expect::Ok => "accepted".to_string(),
                Expect::SameAsBase => "the same class as without the variation".to_string(),
                Expect::Err(n) => format!("rejected with {n}"),
                Expect::Any => unreachable!(),
            };
            failures.push(Failure {
                class: l.name.clone(),
                variation: vname.clone(),
                why: format!("variation {} should be {}", v.kind, what),
                fingerprint: format!("expect-{}", v.kind),
                detail: replay(&out),
            });
        }
        if let Outcome::Panic(m) = &out {
            // data, not a verdict on the property: recorded for the report
            stats.panics.push(format!("{} / {}: {}", l.name, vname, m));
        }

        // Coq cases
        if v.kind == "max_bytecode_size" {
            if full && cp.is_some() {
                let r = match &out {
                    Outcome::Ok(c, _) => format!("LLen {}", c.bytecode.len()),
                    Outcome::Err(E::CompilationError(e)) if format!("{e:?}").contains("CodeSizeLimitExceeded") => {
                        stats.lay_rejected += 1;
                        "LErr".to_string()
                    }
                    other => {
                        failures.push(Failure {
                            class: l.name.clone(),
                            variation: vname.clone(),
                            why: "size-limited compilation neither succeeds nor reports CodeSizeLimitExceeded".into(),
                            fingerprint: "limit-verdict".into(),
                            detail: replay(other),
                        });
                        continue;
                    }
                };
                let c = format!("({}, cd, segs, {})", v.max, r);
                stats.lay_cases += 1;
                stats.distinct.insert(hash_str(&c) ^ k as u64);
                lay.push(c);
            }
            continue;
        }
        // a mutated program the registry already rejects never reaches the modelled checks
        if v.program.is_some() && ProgramRegistryInfo::new(program).is_err() {
            continue;
        }
        let funcs_term = match &v.program {
            None => "funcs".to_string(),
            Some(p) => {
                let mut t = "funcs".to_string();
                for (i, (a, b)) in p.funcs.iter().zip(l.program.funcs.iter()).enumerate() {
                    if a != b {
                        t = format!("(upd {} {} (mk_func {}))", t, i, print_func(a));
                    }
                }
                t
            }
        };
        let starts_term = match &out {
            Outcome::Ok(_, d) => {
                let s: Vec<usize> = d.sierra_statement_info.iter().map(|s| s.start_offset).collect();
                if s == starts {
                    "starts".to_string()
                } else if full {
                    pr::list_n(&s)
                } else {
                    continue; // too large to print once per variation
                }
            }
            _ => "[]".to_string(),
        };
        let c = format!("({}, {}, {}, {})", mk_class(&v.cc, v.sv, &funcs_term), starts_term, v.lenient, print_ep_res(&out));
        stats.ep_cases += 1;
        stats.distinct.insert(hash_str(&c) ^ k as u64);
        if k % 7 == 3 && samples.len() < 6000 && !matches!(out, Outcome::Ok(..)) {
            writeln!(samples, "ep {} {}: {}", l.name, v.kind, &c[c.len().saturating_sub(160)..]).unwrap();
        }
        ep.push(c);
        if v.kind.starts_with("version_") {
            if let Outcome::Ok(c, _) = &out {
                ver.push(format!("({}, {}, {})", v.sv.major, v.sv.minor, c.bytecode_segment_lengths.is_some()));
                stats.ver_cases += 1;
            }
        }
    }
    pr::shard(&defs, &seg, &lay, &canon, &ep, &cst, &ver)
}

// ------------------------------------------------------------------------------------------
/// Boundary words through the canonicaliser: a `const_as_immediate<Const<felt252, _>>` declaration
/// of a real class is replaced by `felt252_const<v>` in a hand-built `ExtractedSierraProgram`.
pub fn canon_probe_shard(
    loaded: &[Loaded],
    thorough: bool,
    rng: &mut Rng,
    stats: &mut Stats,
    failures: &mut Vec<Failure>,
    samples: &mut String,
) -> String {
    let mut canon = vec![];
    let p = BigInt::from(oracle::prime());
    let one = BigInt::one();
    let mut values: Vec<BigInt> = vec![
        BigInt::from(0),
        BigInt::from(1),
        BigInt::from(-1),
        &p - &one,
        -(&p - &one),
        p.clone(),
        -p.clone(),
        &p + &one,
        -(&p + &one),
        &p * BigInt::from(2),
        -(&p * BigInt::from(2)),
        &p * BigInt::from(3) - &one,
        -(BigInt::one() << 256u32),
        (BigInt::one() << 300u32) + BigInt::from(5),
        -((BigInt::one() << 300u32) + BigInt::from(5)),
    ];
    for _ in 0..(if thorough { 40 } else { 8 }) {
        let v = match rng.below(4) {
            0 => rng.bits(252),
            1 => -rng.bits(252),
            2 => -(&p * BigInt::from(rng.below(1000) + 1)),
            _ => -rng.bits(600),
        };
        values.push(v);
    }
    // the smallest class that has a felt252 constant
    let mut cands: Vec<&Loaded> = loaded
        .iter()
        .filter(|l| {
            l.sv.major == 1 && l.sv.minor >= 5
                && l.program.libfunc_declarations.iter().any(|d| d.long_id.generic_id.0 == "const_as_immediate")
        })
        .collect();
    cands.sort_by_key(|l| l.program.statements.len());
    let Some(l) = cands.first() else {
        return pr::shard("", &[], &[], &[], &[], &[], &[]);
    };
    let tr = Tr(&l.program);
    let Some(di) = l.program.libfunc_declarations.iter().position(|d| {
        d.long_id.generic_id.0 == "const_as_immediate"
            && matches!(d.long_id.generic_args.as_slice(), [GenericArg::Type(t)]
                if tr.long(t).is_some_and(|ct| matches!(ct.generic_args.first(), Some(GenericArg::Type(inner)) if tr.gen_is(inner, "felt252"))))
    }) else {
        return pr::shard("", &[], &[], &[], &[], &[], &[]);
    };
    for v in values {
        let mut program = l.program.clone();
        program.libfunc_declarations[di].long_id = ConcreteLibfuncLongId {
            generic_id: "felt252_const".into(),
            generic_args: vec![GenericArg::Value(v.clone())],
        };
        stats.impl_runs += 1;
        *stats.variation_kinds.entry("felt252_const_word".into()).or_default() += 1;
        let out = run_impl(&l.cc, &program, l.sv, false, usize::MAX);
        let vname = format!("felt252_const<{}> in a hand-built ExtractedSierraProgram", v);
        match &out {
            Outcome::Ok(c, d) => {
                stats.ok_runs += 1;
                let cp = replicate_compile(&l.cc, &program, l.sv, usize::MAX).ok();
                let before = failures.len();
                let cx = oracle::Ctx { class_name: &l.name, variation: &vname, cc: &l.cc, program: &program, sv: l.sv };
                oracle::check_result(&cx, c, d, cp.as_ref(), failures);
                stats.oracle_checked += 1;
                for f in failures[before..].iter_mut() {
                    if f.fingerprint == "noncanonical-word" {
                        // how to reproduce, self-contained
                        let negative_multiple = v.is_negative() && (&v % &p) == BigInt::from(0);
                        if negative_multiple {
                            f.fingerprint = "noncanonical-word-negative-multiple-of-P".into();
                        }
                        f.detail = json!({
                            "class_json": l.origin.clone(),
                            "how": "cc = serde_json::from_str(class_json); ex = cc.extract_sierra_program(false); \
                                    ex.program.libfunc_declarations[decl].long_id = ConcreteLibfuncLongId{generic_id: \"felt252_const\", generic_args: [Value(value)]}; \
                                    CasmContractClass::from_contract_class(cc, ex, false, usize::MAX)",
                            "decl": di,
                            "replaced_libfunc": format!("{}", l.program.libfunc_declarations[di].long_id),
                            "value": v.to_string(),
                            "word": f.detail.get("word").cloned(),
                            "index": f.detail.get("index").cloned(),
                        });
                    }
                }
                if let Some(cp) = &cp {
                    let asm = cp.assemble();
                    let cs = format!(
                        "({}, {})",
                        pr::list(&asm.bytecode.iter().map(pr::z).collect::<Vec<_>>()),
                        pr::list(&c.bytecode.iter().map(|w| pr::zu(&w.value)).collect::<Vec<_>>())
                    );
                    stats.canon_cases += 1;
                    stats.canon_words += asm.bytecode.len();
                    stats.canon_negative_words += asm.bytecode.iter().filter(|w| w.is_negative()).count();
                    stats.distinct.insert(hash_str(&cs));
                    if samples.len() < 8000 {
                        let shown = canon_word_of(&asm.bytecode, &v);
                        writeln!(samples, "canon felt252_const<{}> -> class word {}", v, shown.map(|i| format!("0x{}", c.bytecode[i].value.to_str_radix(16))).unwrap_or("?".into())).unwrap();
                    }
                    canon.push(cs);
                }
            }
            Outcome::Err(e) => {
                stats.post_runs += 1;
                *stats.err_kinds.entry(err_name(e).to_string()).or_default() += 1;
            }
            Outcome::Panic(_) => stats.panic_runs += 1,
        }
    }
    pr::shard("", &[], &[], &canon, &[], &[], &[])
}

fn canon_word_of(words: &[BigInt], v: &BigInt) -> Option<usize> {
    words.iter().position(|w| w == v)
}

// ------------------------------------------------------------------------------------------
/// Random programs / offsets for `compute_bytecode_segment_lengths` in isolation (through the
/// `verif_exports` hook), including inputs on which it errs or panics.
pub fn synthetic_seg_shards(thorough: bool, rng: &mut Rng, stats: &mut Stats, samples: &mut String) -> Vec<String> {
    let total = if thorough { 6000 } else { 900 };
    let mut cases = vec![];
    for t in 0..total {
        let nice = rng.below(100) < 55;
        let n = rng.below(10) as usize + if nice { 1 } else { 0 };
        let mut statements: Vec<Statement> = vec![];
        let mut entries: Vec<usize> = vec![];
        if nice {
            // consecutive functions, jumps stay inside, last statement returns
            let mut at = 0;
            while at < n {
                let len = (rng.below(4) as usize + 1).min(n - at);
                entries.push(at);
                for i in at..at + len {
                    if i + 1 == at + len {
                        statements.push(Statement::Return(vec![]));
                    } else {
                        let nb = rng.below(3) as usize + 1;
                        let branches = (0..nb)
                            .map(|b| BranchInfo {
                                target: if b == 0 {
                                    BranchTarget::Fallthrough
                                } else {
                                    BranchTarget::Statement(StatementIdx(at + rng.below(len as u64) as usize))
                                },
                                results: vec![],
                            })
                            .collect();
                        statements.push(Statement::Invocation(Invocation {
                            libfunc_id: ConcreteLibfuncId::new(0),
                            args: vec![],
                            branches,
                        }));
                    }
                }
                at += len;
            }
            if rng.below(10) == 0 {
                // a declaration order that is not the statement order
                entries.reverse();
            }
            if rng.below(12) == 0 && !entries.is_empty() {
                let e = entries[rng.below(entries.len() as u64) as usize];
                entries.push(e);
            }
        } else {
            for _ in 0..n {
                if rng.below(10) < 3 {
                    statements.push(Statement::Return(vec![]));
                } else {
                    let nb = rng.below(4) as usize;
                    let branches = (0..nb)
                        .map(|_| BranchInfo {
                            target: if rng.bool() {
                                BranchTarget::Fallthrough
                            } else {
                                BranchTarget::Statement(StatementIdx(rng.below(n as u64 + 2) as usize))
                            },
                            results: vec![],
                        })
                        .collect();
                    statements.push(Statement::Invocation(Invocation {
                        libfunc_id: ConcreteLibfuncId::new(0),
                        args: vec![],
                        branches,
                    }));
                }
            }
            let k = rng.below(4) as usize;
            for _ in 0..k {
                entries.push(rng.below(n as u64 + 2) as usize);
            }
            if rng.below(10) < 7 {
                entries.push(0);
            }
        }
        let funcs: Vec<Function> = entries
            .iter()
            .enumerate()
            .map(|(i, e)| Function {
                id: FunctionId::new(i as u64),
                signature: FunctionSignature { param_types: vec![], ret_types: vec![] },
                params: vec![],
                entry_point: StatementIdx(*e),
            })
            .collect();
        let program = Program { type_declarations: vec![], libfunc_declarations: vec![], statements, funcs };
        // statement offsets
        let mut starts = vec![];
        let mut off = 0usize;
        for _ in 0..n {
            starts.push(off);
            off += rng.below(4) as usize;
        }
        let mut code_len = off;
        if !nice || rng.below(12) == 0 {
            match rng.below(5) {
                0 if n >= 2 => {
                    let i = rng.below(n as u64) as usize;
                    let j = rng.below(n as u64) as usize;
                    starts.swap(i, j);
                }
                1 if n >= 1 => {
                    starts.pop();
                }
                2 if n >= 1 => {
                    let i = rng.below(n as u64) as usize;
                    starts[i] += rng.below(6) as usize;
                }
                3 if n >= 1 => starts[0] = rng.below(3) as usize,
                _ => {}
            }
        }
        // const segments
        let nseg = rng.below(3) as usize;
        let mut segments: OrderedHashMap<u32, ConstSegment> = Default::default();
        let mut tot = 0usize;
        for s in 0..nseg {
            let len = rng.below(4) as usize;
            segments.insert(
                s as u32,
                ConstSegment {
                    values: (0..len).map(|_| BigInt::from(rng.below(100))).collect(),
                    const_offset: Default::default(),
                    segment_offset: tot,
                },
            );
            tot += 1 + len;
        }
        let mut total_segments_size = tot;
        let mut len = code_len + tot;
        if !nice || rng.below(12) == 0 {
            match rng.below(6) {
                0 => len = 0,
                1 => len = rng.below(len as u64 + 3) as usize,
                2 => total_segments_size += rng.below(4) as usize,
                3 => code_len += 1,
                _ => {}
            }
        }
        let _ = code_len;
        let cp = CairoProgram {
            instructions: vec![],
            debug_info: CairoProgramDebugInfo {
                sierra_statement_info: starts
                    .iter()
                    .map(|s| SierraStatementDebugInfo {
                        start_offset: *s,
                        end_offset: *s,
                        instruction_idx: 0,
                        additional_kind_info: StatementKindDebugInfo::Return(ReturnStatementDebugInfo { ref_values: vec![] }),
                    })
                    .collect(),
            },
            consts_info: ConstsInfo { segments, total_segments_size, circuit_segments: Default::default() },
        };
        let (c, kind) = seg_case(&program, &cp, len, None, None);
        stats.seg_cases += 1;
        match kind {
            0 => stats.seg_ok += 1,
            1 => stats.seg_err += 1,
            _ => stats.seg_panic += 1,
        }
        stats.distinct.insert(hash_str(&c));
        if t % 97 == 5 && samples.len() < 12000 {
            writeln!(samples, "seg {}", c).unwrap();
        }
        cases.push(c);
    }
    cases.chunks(300).map(|ch| pr::shard("", ch, &[], &[], &[], &[], &[])).collect()
}
