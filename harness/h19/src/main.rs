//! h19 -- correspondence and impl-level oracle for C19 (compiled Starknet classes).
//!
//! usage: h19 <out_dir> [quick|thorough]
//! Inputs: every `*.contract_class.json` under /repo/crates/cairo-lang-starknet/test_data, plus
//! generated variations (entry point permutations/duplicates/subsets, mutated signatures, Sierra
//! versions, pythonic hints on/off, bytecode size limits, hand-built programs with
//! `felt252_const<v>`), plus synthetic inputs for the segmentation hook.
//! Outputs: `cls_<nnn>.v` / `syn_<nnn>.v` case shards for C19/Corr.v, `summary.json`,
//! `samples.txt`, `oracle_failures.json`.
mod oracle;
mod gencontract;
mod print;
mod source;
mod vary;

use std::fmt::Write as _;
use std::fs;
use std::panic::AssertUnwindSafe;

use cairo_lang_sierra::extensions::gas::{CostTokenMap, CostTokenType};
use cairo_lang_sierra::program::Program;
use cairo_lang_sierra_to_casm::compiler::{
    CairoProgram, CairoProgramDebugInfo, SierraToCasmConfig,
};
use cairo_lang_sierra_to_casm::metadata::{MetadataComputationConfig, calc_metadata};
use cairo_lang_sierra_type_size::ProgramRegistryInfo;
use cairo_lang_starknet_classes::casm_contract_class::{
    CasmContractClass, ENTRY_POINT_COST, StarknetSierraCompilationError,
};
use cairo_lang_starknet_classes::compiler_version::VersionId;
use cairo_lang_starknet_classes::contract_class::{ContractClass, ExtractedSierraProgram};
use vcommon::{Rng, catch, quiet_panics};

/// Root of the tree under test: $VERIF_REPO (set by lib/seedeval.sh for scratch worktrees), else /repo.
pub fn repo() -> String {
    std::env::var("VERIF_REPO").ok().filter(|s| !s.is_empty()).unwrap_or_else(|| "/repo".to_string())
}
pub fn test_data() -> String {
    format!("{}/crates/cairo-lang-starknet/test_data", repo())
}

pub enum Outcome {
    Ok(Box<CasmContractClass>, CairoProgramDebugInfo),
    Err(StarknetSierraCompilationError),
    Panic(String),
}

/// The implementation under test.
pub fn run_impl(
    cc: &ContractClass,
    program: &Program,
    sv: VersionId,
    pythonic: bool,
    max: usize,
) -> Outcome {
    let cc = cc.clone();
    let ex = ExtractedSierraProgram {
        program: program.clone(),
        sierra_version: sv,
        compiler_version: VersionId { major: 2, minor: 0, patch: 0 },
    };
    match catch(AssertUnwindSafe(move || {
        CasmContractClass::from_contract_class_with_debug_info(cc, ex, pythonic, max)
    })) {
        Ok(Ok((c, d))) => Outcome::Ok(Box::new(c), d),
        Ok(Err(e)) => Outcome::Err(e),
        Err(msg) => Outcome::Panic(format!("{} @ {}", msg, vcommon::last_panic_location())),
    }
}

/// The same metadata + sierra-to-casm calls `from_contract_class_with_debug_info` makes, to get at
/// the `CairoProgram` (instructions, consts) that the class constructor does not return.  The
/// oracle checks that its debug info is the one the constructor returned.
pub fn replicate_compile(
    cc: &ContractClass,
    program: &Program,
    sv: VersionId,
    max: usize,
) -> Result<CairoProgram, String> {
    let r = catch(AssertUnwindSafe(|| -> Result<CairoProgram, String> {
        let info = ProgramRegistryInfo::new(program).map_err(|e| format!("{e:?}"))?;
        let eps = &cc.entry_points_by_type;
        let ids = eps
            .constructor
            .iter()
            .chain(eps.external.iter())
            .chain(eps.l1_handler.iter())
            .map(|e| program.funcs[e.function_idx].id.clone());
        let no_eq_solver = sv.supports(VersionId { major: 1, minor: 4, patch: 0 });
        let config = MetadataComputationConfig {
            function_set_costs: ids
                .map(|id| (id, CostTokenMap::from_iter([(CostTokenType::Const, ENTRY_POINT_COST)])))
                .collect(),
            linear_gas_solver: no_eq_solver,
            linear_ap_change_solver: no_eq_solver,
            skip_non_linear_solver_comparisons: false,
            compute_runtime_costs: false,
        };
        let metadata = calc_metadata(program, &info, config).map_err(|e| format!("{e:?}"))?;
        cairo_lang_sierra_to_casm::compiler::compile(
            program,
            &info,
            &metadata,
            SierraToCasmConfig { gas_usage_check: true, max_bytecode_size: max },
        )
        .map_err(|e| format!("{e:?}"))
    }));
    match r {
        Ok(x) => x,
        Err(p) => Err(format!("panic: {p}")),
    }
}

pub struct Loaded {
    pub name: String,
    pub cc: ContractClass,
    pub program: Program,
    pub sv: VersionId,
    /// where the class came from (a JSON file, or a source crate and contract path)
    pub origin: String,
    /// the class was produced by the compiler in this run (it must be accepted)
    pub from_source: bool,
}

fn load_all() -> Vec<Loaded> {
    let mut paths: Vec<_> = fs::read_dir(test_data())
        .unwrap()
        .map(|e| e.unwrap().path())
        .filter(|p| p.to_str().unwrap().ends_with(".contract_class.json"))
        .collect();
    paths.sort();
    let mut res = vec![];
    for p in paths {
        let name = p.file_name().unwrap().to_str().unwrap().replace(".contract_class.json", "");
        let text = fs::read_to_string(&p).unwrap();
        let cc: ContractClass = match serde_json::from_str(&text) {
            Ok(c) => c,
            Err(_) => continue,
        };
        let ex = match cc.extract_sierra_program(false) {
            Ok(e) => e,
            Err(_) => continue,
        };
        res.push(Loaded { name, cc, program: ex.program, sv: ex.sierra_version, origin: p.display().to_string(), from_source: false });
    }
    res
}

#[derive(Default)]
pub struct Stats {
    pub classes: usize,
    pub impl_runs: usize,
    pub ok_runs: usize,
    pub err_runs: usize,
    pub post_runs: usize,
    pub panic_runs: usize,
    pub oracle_checked: usize,
    pub seg_cases: usize,
    pub seg_ok: usize,
    pub seg_err: usize,
    pub seg_panic: usize,
    pub lay_cases: usize,
    pub lay_rejected: usize,
    pub canon_cases: usize,
    pub canon_words: usize,
    pub canon_negative_words: usize,
    pub ep_cases: usize,
    pub ver_cases: usize,
    pub err_kinds: std::collections::BTreeMap<String, usize>,
    pub variation_kinds: std::collections::BTreeMap<String, usize>,
    pub distinct: std::collections::BTreeSet<u64>,
    pub coq_full_classes: usize,
    pub panics: Vec<String>,
    pub source_compiled: usize,
    pub source_equals_golden: usize,
    pub source_error: String,
    pub gen_contracts: usize,
    pub gen_entry_points: usize,
    pub gen_l1_handlers: usize,
    pub gen_stable_recompilations: usize,
}

/// Classes the compiler of the tree under test produces now: generated contracts (both tiers) and
/// the contracts of cairo_level_tests (thorough tier).  Each goes through the ContractClass/ABI
/// checks here and then, as one more class, through everything `class_shard` does (it must be
/// accepted by `from_contract_class`, all CASM invariants, round trips, re-publication, variations).
fn source_legs(
    out_dir: &str,
    thorough: bool,
    rng: &mut Rng,
    loaded: &mut Vec<Loaded>,
    stats: &mut Stats,
    failures: &mut Vec<oracle::Failure>,
    samples: &mut String,
) {
    let push = |name: String, origin: String, cc: ContractClass, g: Option<&gencontract::GenContract>,
                    loaded: &mut Vec<Loaded>, failures: &mut Vec<oracle::Failure>| {
        match cc.extract_sierra_program(false) {
            Ok(ex) => {
                source::check_compiler_output(&name, &origin, &cc, &ex.program, g, failures);
                loaded.push(Loaded { name, cc, program: ex.program, sv: ex.sierra_version, origin, from_source: true });
            }
            Err(e) => failures.push(oracle::Failure {
                class: name.clone(),
                variation: "compiler output".into(),
                why: format!("the class the compiler produced does not extract: {e:?}"),
                fingerprint: "source-extract".into(),
                detail: serde_json::json!({"source": origin, "contract": name}),
            }),
        }
    };
    // ---- generated contracts ----
    let (n_crates, per_crate) = if thorough { (3, 6) } else { (1, 4) };
    for c in 0..n_crates {
        let dir = format!("{}/gen_src/crate_{}", out_dir, c);
        fs::create_dir_all(&dir).unwrap();
        let (src, gens) = gencontract::generate(rng, per_crate);
        fs::write(format!("{dir}/cairo_project.toml"), "[crate_roots]\ngen_contracts = \".\"\n\n[config.global]\nedition = \"2024_07\"\n").unwrap();
        fs::write(format!("{dir}/lib.cairo"), &src).unwrap();
        let first = match source::compile_crate(&dir) {
            Ok(x) => x,
            Err(e) => {
                failures.push(oracle::Failure {
                    class: format!("gen:crate_{c}"),
                    variation: "compile".into(),
                    why: format!("the compiler rejects a generated contract crate: {}", e.lines().take(12).collect::<Vec<_>>().join(" | ")),
                    fingerprint: "gen-compile".into(),
                    detail: serde_json::json!({"source": dir}),
                });
                continue;
            }
        };
        // a second, independent compilation gives the same classes (and hence the same hashes)
        match source::compile_crate(&dir) {
            Ok(second) => {
                for ((n1, c1), (n2, c2)) in first.iter().zip(second.iter()) {
                    if n1 != n2 || c1 != c2 {
                        failures.push(oracle::Failure {
                            class: format!("gen:{n1}"),
                            variation: "recompile".into(),
                            why: "two compilations of the same source give different contract classes".into(),
                            fingerprint: "gen-unstable".into(),
                            detail: serde_json::json!({"source": dir, "contract": n1}),
                        });
                    } else {
                        // ... and the same compiled class hashes
                        let h = |c: &ContractClass| -> Option<String> {
                            let ex = c.extract_sierra_program(false).ok()?;
                            match run_impl(c, &ex.program, ex.sierra_version, false, usize::MAX) {
                                Outcome::Ok(casm, _) => vcommon::catch(std::panic::AssertUnwindSafe(|| {
                                    format!("{:x}/{:x}", casm.compiled_class_hash().to_biguint(), casm.legacy_compiled_class_hash().to_biguint())
                                }))
                                .ok(),
                                _ => None,
                            }
                        };
                        let (h1, h2) = (h(c1), h(c2));
                        if h1.is_some() && h1 != h2 {
                            failures.push(oracle::Failure {
                                class: format!("gen:{n1}"),
                                variation: "recompile".into(),
                                why: "two compilations of the same source give different compiled class hashes".into(),
                                fingerprint: "gen-unstable-hash".into(),
                                detail: serde_json::json!({"source": dir, "contract": n1}),
                            });
                        } else {
                            stats.gen_stable_recompilations += 1;
                        }
                    }
                }
            }
            Err(e) => stats.source_error = e,
        }
        if first.len() != gens.len() {
            failures.push(oracle::Failure {
                class: format!("gen:crate_{c}"),
                variation: "compile".into(),
                why: format!("{} contracts in the source, {} classes compiled", gens.len(), first.len()),
                fingerprint: "gen-count".into(),
                detail: serde_json::json!({"source": dir}),
            });
        }
        for (path, cc) in first {
            let g = gens.iter().find(|g| path.ends_with(&format!("::{}", g.module)));
            stats.gen_contracts += 1;
            if let Some(g) = g {
                stats.gen_entry_points += g.fns.len();
                stats.gen_l1_handlers += g.fns.iter().filter(|f| f.kind == gencontract::Kind::L1Handler).count();
                if samples.len() < 3000 {
                    use std::fmt::Write as _;
                    writeln!(
                        samples,
                        "gen {}: {}",
                        path,
                        g.fns.iter().map(|f| format!("{:?} {} [{:?}; {}]", f.kind, f.name, f.body, f.how)).collect::<Vec<_>>().join(", ")
                    )
                    .unwrap();
                }
                // the builtins each entry point needs, known from the source
                if let Ok(ex) = cc.extract_sierra_program(false) {
                    if let Outcome::Ok(casm, _) = run_impl(&cc, &ex.program, ex.sierra_version, false, usize::MAX) {
                        stats.impl_runs += 1;
                        stats.ok_runs += 1;
                        let all = casm
                            .entry_points_by_type
                            .external
                            .iter()
                            .chain(casm.entry_points_by_type.l1_handler.iter())
                            .chain(casm.entry_points_by_type.constructor.iter());
                        let all: Vec<_> = all.collect();
                        for f in &g.fns {
                            let sel = f.selector();
                            match all.iter().find(|e| e.selector == sel) {
                                Some(e) => {
                                    for b in f.body.required_builtins() {
                                        if !e.builtins.iter().any(|x| x == b) {
                                            failures.push(oracle::Failure {
                                                class: format!("gen:{path}"),
                                                variation: "builtins".into(),
                                                why: format!("entry point `{}` uses {:?} but its builtin list {:?} lacks {}", f.name, f.body, e.builtins, b),
                                                fingerprint: "gen-builtins".into(),
                                                detail: serde_json::json!({"source": dir, "contract": path, "function": f.name}),
                                            });
                                        }
                                    }
                                }
                                None => failures.push(oracle::Failure {
                                    class: format!("gen:{path}"),
                                    variation: "entry points".into(),
                                    why: format!("function `{}` of the source has no entry point in the compiled class", f.name),
                                    fingerprint: "gen-missing-entry".into(),
                                    detail: serde_json::json!({"source": dir, "contract": path, "function": f.name}),
                                }),
                            }
                        }
                    }
                }
            }
            push(format!("gen:{path}"), format!("{dir}/lib.cairo"), cc, g, loaded, failures);
        }
    }
    // ---- the repo's own contracts, from source ----
    if thorough {
        let krate = source::contracts_crate();
        match source::compile_crate(&krate) {
            Ok(cs) => {
                for (path, cc) in cs {
                    stats.source_compiled += 1;
                    // informational: does it still equal the checked-in class?
                    let golden = path.strip_prefix("cairo_level_tests::contracts::").unwrap_or(&path).replace("::", "__");
                    if loaded.iter().any(|l| l.name == golden && l.cc == cc) {
                        stats.source_equals_golden += 1;
                    }
                    push(format!("src:{path}"), krate.clone(), cc, None, loaded, failures);
                }
            }
            Err(e) => stats.source_error = e,
        }
    }
}

fn main() {
    quiet_panics();
    let args: Vec<String> = std::env::args().collect();
    let out_dir = args[1].clone();
    let thorough = args.get(2).map(|s| s == "thorough").unwrap_or(false);
    let mut rng = Rng::from_env();
    fs::create_dir_all(&out_dir).unwrap();

    let mut stats = Stats::default();
    let mut failures: Vec<oracle::Failure> = vec![];
    let mut samples = String::new();

    let mut loaded = load_all();
    source_legs(&out_dir, thorough, &mut rng, &mut loaded, &mut stats, &mut failures, &mut samples);
    stats.classes = loaded.len();
    for (k, l) in loaded.iter().enumerate() {
        let shard =
            vary::class_shard(k, l, thorough, &mut rng, &mut stats, &mut failures, &mut samples);
        fs::write(format!("{}/cls_{:03}.v", out_dir, k), shard).unwrap();
    }
    // hand-built programs with felt252_const<v> (boundary words through the canonicaliser)
    let shard = vary::canon_probe_shard(&loaded, thorough, &mut rng, &mut stats, &mut failures, &mut samples);
    fs::write(format!("{}/cls_{:03}.v", out_dir, 900), shard).unwrap();
    // synthetic inputs for the segmentation hook
    for (k, shard) in
        vary::synthetic_seg_shards(thorough, &mut rng, &mut stats, &mut samples).into_iter().enumerate()
    {
        fs::write(format!("{}/syn_{:03}.v", out_dir, k), shard).unwrap();
    }

    let mut s = String::new();
    write!(
        s,
        "{{\"classes\": {}, \"impl_runs\": {}, \"ok_runs\": {}, \"err_runs\": {}, \"post_validation_errors\": {}, \
         \"panic_runs\": {}, \"oracle_checked_results\": {}, \"seg_cases\": {}, \"seg_ok\": {}, \"seg_err\": {}, \
         \"seg_panic\": {}, \"lay_cases\": {}, \"lay_rejected\": {}, \"canon_cases\": {}, \"canon_words\": {}, \
         \"canon_negative_words\": {}, \"ep_cases\": {}, \"ver_cases\": {}, \"coq_full_classes\": {}, \
         \"distinct_cases\": {}, \"oracle_failures\": {}, \"panic_samples\": {}, \"source_compiled\": {}, \"source_equals_checked_in_class\": {}, \"source_error\": {:?}, \"generated_contracts\": {}, \"generated_entry_points\": {}, \"generated_l1_handlers\": {}, \"generated_stable_recompilations\": {}, \"err_kinds\": {{{}}}, \"variation_kinds\": {{{}}}}}",
        stats.classes,
        stats.impl_runs,
        stats.ok_runs,
        stats.err_runs,
        stats.post_runs,
        stats.panic_runs,
        stats.oracle_checked,
        stats.seg_cases,
        stats.seg_ok,
        stats.seg_err,
        stats.seg_panic,
        stats.lay_cases,
        stats.lay_rejected,
        stats.canon_cases,
        stats.canon_words,
        stats.canon_negative_words,
        stats.ep_cases,
        stats.ver_cases,
        stats.coq_full_classes,
        stats.distinct.len(),
        failures.len(),
        serde_json::to_string(&stats.panics.iter().take(4).collect::<Vec<_>>()).unwrap(),
        stats.source_compiled,
        stats.source_equals_golden,
        stats.source_error,
        stats.gen_contracts,
        stats.gen_entry_points,
        stats.gen_l1_handlers,
        stats.gen_stable_recompilations,
        stats.err_kinds.iter().map(|(k, v)| format!("\"{k}\": {v}")).collect::<Vec<_>>().join(", "),
        stats.variation_kinds.iter().map(|(k, v)| format!("\"{k}\": {v}")).collect::<Vec<_>>().join(", "),
    )
    .unwrap();
    fs::write(format!("{}/summary.json", out_dir), &s).unwrap();
    fs::write(
        format!("{}/oracle_failures.json", out_dir),
        serde_json::to_string_pretty(
            &failures.iter().map(|f| f.to_json()).collect::<Vec<serde_json::Value>>(),
        )
        .unwrap(),
    )
    .unwrap();
    fs::write(format!("{}/samples.txt", out_dir), samples).unwrap();
    println!("{}", s);
}
