//! h19 -- correspondence and impl-level oracle for C19 (compiled Starknet classes).
//!
//! usage: h19 <out_dir> [quick|thorough]
//! Inputs: every `*.contract_class.json` under /repo/crates/cairo-lang-starknet/test_data, plus
//! generated variations (entry point permutations/duplicates/subsets, mutated signatures, Sierra
//! versions, pythonic hints on/off, bytecode size limits, hand-built programs with
//! `felt252_const<v>`), plus synthetic inputs for the segmentation hook.
//! Outputs: `cls_<nnn>.v` / `syn_<nnn>.v` case shards for C19/Corr.v, `summary.json`,
//! `samples.txt`, `oracle_failures.json`.
mod oracle;
mod print;
#[cfg(feature = "source")]
mod source;
mod vary;

use std::fmt::Write as _;
use std::fs;
use std::panic::AssertUnwindSafe;

use cairo_lang_sierra::extensions::gas::{CostTokenMap, CostTokenType};
use cairo_lang_sierra::program::Program;
use cairo_lang_sierra_to_casm::compiler::{
    CairoProgram, CairoProgramDebugInfo, SierraToCasmConfig,
};
use cairo_lang_sierra_to_casm::metadata::{MetadataComputationConfig, calc_metadata};
use cairo_lang_sierra_type_size::ProgramRegistryInfo;
use cairo_lang_starknet_classes::casm_contract_class::{
    CasmContractClass, ENTRY_POINT_COST, StarknetSierraCompilationError,
};
use cairo_lang_starknet_classes::compiler_version::VersionId;
use cairo_lang_starknet_classes::contract_class::{ContractClass, ExtractedSierraProgram};
use vcommon::{Rng, catch, quiet_panics};

pub const TEST_DATA: &str = "/repo/crates/cairo-lang-starknet/test_data";

pub enum Outcome {
    Ok(Box<CasmContractClass>, CairoProgramDebugInfo),
    Err(StarknetSierraCompilationError),
    Panic(String),
}

/// The implementation under test.
pub fn run_impl(
    cc: &ContractClass,
    program: &Program,
    sv: VersionId,
    pythonic: bool,
    max: usize,
) -> Outcome {
    let cc = cc.clone();
    let ex = ExtractedSierraProgram {
        program: program.clone(),
        sierra_version: sv,
        compiler_version: VersionId { major: 2, minor: 0, patch: 0 },
    };
    match catch(AssertUnwindSafe(move || {
        CasmContractClass::from_contract_class_with_debug_info(cc, ex, pythonic, max)
    })) {
        Ok(Ok((c, d))) => Outcome::Ok(Box::new(c), d),
        Ok(Err(e)) => Outcome::Err(e),
        Err(msg) => Outcome::Panic(format!("{} @ {}", msg, vcommon::last_panic_location())),
    }
}

/// The same metadata + sierra-to-casm calls `from_contract_class_with_debug_info` makes, to get at
/// the `CairoProgram` (instructions, consts) that the class constructor does not return.  The
/// oracle checks that its debug info is the one the constructor returned.
pub fn replicate_compile(
    cc: &ContractClass,
    program: &Program,
    sv: VersionId,
    max: usize,
) -> Result<CairoProgram, String> {
    let r = catch(AssertUnwindSafe(|| -> Result<CairoProgram, String> {
        let info = ProgramRegistryInfo::new(program).map_err(|e| format!("{e:?}"))?;
        let eps = &cc.entry_points_by_type;
        let ids = eps
            .constructor
            .iter()
            .chain(eps.external.iter())
            .chain(eps.l1_handler.iter())
            .map(|e| program.funcs[e.function_idx].id.clone());
        let no_eq_solver = sv.supports(VersionId { major: 1, minor: 4, patch: 0 });
        let config = MetadataComputationConfig {
            function_set_costs: ids
                .map(|id| (id, CostTokenMap::from_iter([(CostTokenType::Const, ENTRY_POINT_COST)])))
                .collect(),
            linear_gas_solver: no_eq_solver,
            linear_ap_change_solver: no_eq_solver,
            skip_non_linear_solver_comparisons: false,
            compute_runtime_costs: false,
        };
        let metadata = calc_metadata(program, &info, config).map_err(|e| format!("{e:?}"))?;
        cairo_lang_sierra_to_casm::compiler::compile(
            program,
            &info,
            &metadata,
            SierraToCasmConfig { gas_usage_check: true, max_bytecode_size: max },
        )
        .map_err(|e| format!("{e:?}"))
    }));
    match r {
        Ok(x) => x,
        Err(p) => Err(format!("panic: {p}")),
    }
}

pub struct Loaded {
    pub name: String,
    pub cc: ContractClass,
    pub program: Program,
    pub sv: VersionId,
}

fn load_all() -> Vec<Loaded> {
    let mut paths: Vec<_> = fs::read_dir(TEST_DATA)
        .unwrap()
        .map(|e| e.unwrap().path())
        .filter(|p| p.to_str().unwrap().ends_with(".contract_class.json"))
        .collect();
    paths.sort();
    let mut res = vec![];
    for p in paths {
        let name = p.file_name().unwrap().to_str().unwrap().replace(".contract_class.json", "");
        let text = fs::read_to_string(&p).unwrap();
        let cc: ContractClass = match serde_json::from_str(&text) {
            Ok(c) => c,
            Err(_) => continue,
        };
        let ex = match cc.extract_sierra_program(false) {
            Ok(e) => e,
            Err(_) => continue,
        };
        res.push(Loaded { name, cc, program: ex.program, sv: ex.sierra_version });
    }
    res
}

#[derive(Default)]
pub struct Stats {
    pub classes: usize,
    pub impl_runs: usize,
    pub ok_runs: usize,
    pub err_runs: usize,
    pub post_runs: usize,
    pub panic_runs: usize,
    pub oracle_checked: usize,
    pub seg_cases: usize,
    pub seg_ok: usize,
    pub seg_err: usize,
    pub seg_panic: usize,
    pub lay_cases: usize,
    pub lay_rejected: usize,
    pub canon_cases: usize,
    pub canon_words: usize,
    pub canon_negative_words: usize,
    pub ep_cases: usize,
    pub ver_cases: usize,
    pub err_kinds: std::collections::BTreeMap<String, usize>,
    pub variation_kinds: std::collections::BTreeMap<String, usize>,
    pub distinct: std::collections::BTreeSet<u64>,
    pub coq_full_classes: usize,
    pub panics: Vec<String>,
    pub source_compiled: usize,
    pub source_equals_golden: usize,
    pub source_error: String,
}

fn main() {
    quiet_panics();
    let args: Vec<String> = std::env::args().collect();
    let out_dir = args[1].clone();
    let thorough = args.get(2).map(|s| s == "thorough").unwrap_or(false);
    let mut rng = Rng::from_env();
    fs::create_dir_all(&out_dir).unwrap();

    let mut stats = Stats::default();
    let mut failures: Vec<oracle::Failure> = vec![];
    let mut samples = String::new();

    #[allow(unused_mut)]
    let mut loaded = load_all();
    #[cfg(feature = "source")]
    if thorough {
        // the same contracts compiled from their Cairo source by the compiler in /repo now
        match source::compile_all() {
            Ok(cs) => {
                for (path, cc) in cs {
                    stats.source_compiled += 1;
                    // informational: does it still equal the checked-in class?
                    let golden = path.strip_prefix("cairo_level_tests::contracts::").unwrap_or(&path).replace("::", "__");
                    if let Some(g) = loaded.iter().find(|l| l.name == golden) {
                        if g.cc == cc {
                            stats.source_equals_golden += 1;
                        }
                    }
                    match cc.extract_sierra_program(false) {
                        Ok(ex) => loaded.push(Loaded {
                            name: format!("src:{}", path),
                            cc,
                            program: ex.program,
                            sv: ex.sierra_version,
                        }),
                        Err(e) => failures.push(oracle::Failure {
                            class: format!("src:{}", path),
                            variation: "extract".into(),
                            why: format!("the class the compiler produced does not extract: {e:?}"),
                            fingerprint: "source-extract".into(),
                            detail: serde_json::json!({"crate": source::CONTRACTS_CRATE, "contract": path}),
                        }),
                    }
                }
            }
            Err(e) => stats.source_error = e,
        }
    }
    stats.classes = loaded.len();
    for (k, l) in loaded.iter().enumerate() {
        let shard =
            vary::class_shard(k, l, thorough, &mut rng, &mut stats, &mut failures, &mut samples);
        fs::write(format!("{}/cls_{:03}.v", out_dir, k), shard).unwrap();
    }
    // hand-built programs with felt252_const<v> (boundary words through the canonicaliser)
    let shard = vary::canon_probe_shard(&loaded, thorough, &mut rng, &mut stats, &mut failures, &mut samples);
    fs::write(format!("{}/cls_{:03}.v", out_dir, 900), shard).unwrap();
    // synthetic inputs for the segmentation hook
    for (k, shard) in
        vary::synthetic_seg_shards(thorough, &mut rng, &mut stats, &mut samples).into_iter().enumerate()
    {
        fs::write(format!("{}/syn_{:03}.v", out_dir, k), shard).unwrap();
    }

    let mut s = String::new();
    write!(
        s,
        "{{\"classes\": {}, \"impl_runs\": {}, \"ok_runs\": {}, \"err_runs\": {}, \"post_validation_errors\": {}, \
         \"panic_runs\": {}, \"oracle_checked_results\": {}, \"seg_cases\": {}, \"seg_ok\": {}, \"seg_err\": {}, \
         \"seg_panic\": {}, \"lay_cases\": {}, \"lay_rejected\": {}, \"canon_cases\": {}, \"canon_words\": {}, \
         \"canon_negative_words\": {}, \"ep_cases\": {}, \"ver_cases\": {}, \"coq_full_classes\": {}, \
         \"distinct_cases\": {}, \"oracle_failures\": {}, \"panic_samples\": {}, \"source_compiled\": {}, \"source_equals_checked_in_class\": {}, \"source_error\": {:?}, \"err_kinds\": {{{}}}, \"variation_kinds\": {{{}}}}}",
        stats.classes,
        stats.impl_runs,
        stats.ok_runs,
        stats.err_runs,
        stats.post_runs,
        stats.panic_runs,
        stats.oracle_checked,
        stats.seg_cases,
        stats.seg_ok,
        stats.seg_err,
        stats.seg_panic,
        stats.lay_cases,
        stats.lay_rejected,
        stats.canon_cases,
        stats.canon_words,
        stats.canon_negative_words,
        stats.ep_cases,
        stats.ver_cases,
        stats.coq_full_classes,
        stats.distinct.len(),
        failures.len(),
        serde_json::to_string(&stats.panics.iter().take(4).collect::<Vec<_>>()).unwrap(),
        stats.source_compiled,
        stats.source_equals_golden,
        stats.source_error,
        stats.err_kinds.iter().map(|(k, v)| format!("\"{k}\": {v}")).collect::<Vec<_>>().join(", "),
        stats.variation_kinds.iter().map(|(k, v)| format!("\"{k}\": {v}")).collect::<Vec<_>>().join(", "),
    )
    .unwrap();
    fs::write(format!("{}/summary.json", out_dir), &s).unwrap();
    fs::write(
        format!("{}/oracle_failures.json", out_dir),
        serde_json::to_string_pretty(
            &failures.iter().map(|f| f.to_json()).collect::<Vec<serde_json::Value>>(),
        )
        .unwrap(),
    )
    .unwrap();
    fs::write(format!("{}/samples.txt", out_dir), samples).unwrap();
    println!("{}", s);
}
