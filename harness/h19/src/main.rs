use std::time::Instant;
use cairo_lang_starknet_classes::casm_contract_class::CasmContractClass;
use cairo_lang_starknet_classes::contract_class::ContractClass;

fn main() {
    let dir = "/repo/crates/cairo-lang-starknet/test_data";
    let mut names: Vec<_> = std::fs::read_dir(dir).unwrap().map(|e| e.unwrap().path()).filter(|p| p.to_str().unwrap().ends_with(".contract_class.json")).collect();
    names.sort();
    for p in names {
        let t = Instant::now();
        let cc: ContractClass = serde_json::from_str(&std::fs::read_to_string(&p).unwrap()).unwrap();
        let ex = cc.extract_sierra_program(false).unwrap();
        let ns = ex.program.statements.len();
        let nf = ex.program.funcs.len();
        let sv = ex.sierra_version;
        let r = CasmContractClass::from_contract_class_with_debug_info(cc, ex, true, usize::MAX);
        match r {
            Ok((c, _d)) => println!("{} stmts={} funcs={} sv={:?} bytecode={} hints={} t={:?}", p.file_name().unwrap().to_str().unwrap(), ns, nf, sv, c.bytecode.len(), c.hints.len(), t.elapsed()),
            Err(e) => println!("{} ERR {:?}", p.display(), e),
        }
    }
}
