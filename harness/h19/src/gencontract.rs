//! Generated Starknet contracts (Cairo source): several entry points of every kind per contract,
//! declared in an order that is NOT the order of their selectors, through every way the plugin
//! offers to declare them (stand-alone functions, `#[abi(per_item)]` impls, `#[abi(embed_v0)]` impls
//! of an interface, `#[starknet::embeddable]` impls, components), with bodies that need different
//! builtins, several contracts per crate.  The generator records what it wrote, so that the class
//! the compiler produces can be checked against the source.
use cairo_lang_starknet_classes::keccak::starknet_keccak;
use num_bigint::BigUint;
use vcommon::Rng;

#[derive(Clone, Copy, Debug, PartialEq, Eq)]
pub enum Body {
    Plain,
    Pedersen,
    Poseidon,
    Bitwise,
    EcOp,
    Dict,
    Circuit,
}
impl Body {
    pub const ALL: [Body; 7] =
        [Body::Plain, Body::Pedersen, Body::Poseidon, Body::Bitwise, Body::EcOp, Body::Dict, Body::Circuit];
    fn helper(self) -> &'static str {
        match self {
            Body::Plain => "b_plain",
            Body::Pedersen => "b_pedersen",
            Body::Poseidon => "b_poseidon",
            Body::Bitwise => "b_bitwise",
            Body::EcOp => "b_ec",
            Body::Dict => "b_dict",
            Body::Circuit => "b_circuit",
        }
    }
    /// builtins an entry point with this body must declare
    pub fn required_builtins(self) -> &'static [&'static str] {
        match self {
            Body::Plain => &[],
            Body::Pedersen => &["pedersen"],
            Body::Poseidon => &["poseidon"],
            Body::Bitwise => &["bitwise"],
            Body::EcOp => &["ec_op"],
            Body::Dict => &["segment_arena"],
            Body::Circuit => &["range_check96", "add_mod", "mul_mod"],
        }
    }
}

#[derive(Clone, Copy, Debug, PartialEq, Eq)]
pub enum Kind {
    External,
    L1Handler,
    Constructor,
}

#[derive(Clone, Debug)]
pub struct GenFn {
    pub name: String,
    pub kind: Kind,
    pub body: Body,
    pub how: &'static str,
}
impl GenFn {
    pub fn selector(&self) -> BigUint {
        starknet_keccak(self.name.as_bytes())
    }
}

#[derive(Clone, Debug)]
pub struct GenContract {
    pub module: String,
    pub fns: Vec<GenFn>,
}

const WORDS: [&str; 24] = [
    "mint", "burn", "swap", "vote", "lock", "open", "push", "pull", "join", "exit", "bump", "seal", "poke", "tick",
    "fold", "wrap", "sync", "scan", "pick", "drop_it", "raise", "lower", "claim", "stake",
];

const BODIES: &str = r#"
pub mod bodies {
    use core::circuit::{
        AddInputResultTrait, CircuitElement, CircuitInput, CircuitInputs, CircuitModulus,
        EvalCircuitTrait, circuit_add, circuit_inverse,
    };
    use core::dict::{Felt252Dict, Felt252DictTrait};
    use core::ec::EcStateTrait;

    pub fn b_plain(a: felt252, b: felt252) -> felt252 {
        a + b + 1
    }
    pub fn b_pedersen(a: felt252, b: felt252) -> felt252 {
        core::pedersen::pedersen(a, b)
    }
    pub fn b_poseidon(a: felt252, b: felt252) -> felt252 {
        let (r, _, _) = core::poseidon::hades_permutation(a, b, 2);
        r
    }
    pub fn b_bitwise(a: felt252, b: felt252) -> felt252 {
        let x: u128 = a.try_into().unwrap_or(3);
        let y: u128 = b.try_into().unwrap_or(5);
        (x & y).into()
    }
    pub fn b_ec(a: felt252, b: felt252) -> felt252 {
        match core::ec::EcPointTrait::new_nz(a, b) {
            Option::Some(p) => {
                let mut s = core::ec::EcStateTrait::init();
                s.add_mul(b, p);
                match s.finalize_nz() {
                    Option::Some(q) => {
                        let (x, _y) = core::ec::ec_point_unwrap(q);
                        x
                    },
                    Option::None => 0,
                }
            },
            Option::None => 0,
        }
    }
    pub fn b_dict(a: felt252, b: felt252) -> felt252 {
        let mut d: Felt252Dict<felt252> = Default::default();
        d.insert(a, b);
        d.get(b)
    }
    pub fn b_circuit(a: felt252, b: felt252) -> felt252 {
        let in1 = CircuitElement::<CircuitInput<0>> {};
        let in2 = CircuitElement::<CircuitInput<1>> {};
        let add = circuit_add(in1, in2);
        let inv = circuit_inverse(add);
        let modulus = TryInto::<_, CircuitModulus>::try_into([7, 0, 0, 0]).unwrap();
        match (inv,).new_inputs().next([3, 0, 0, 0]).next([6, 0, 0, 0]).done().eval(modulus) {
            Ok(_outputs) => a,
            Err(_) => b,
        }
    }
}
"#;

fn is_sorted(v: &[GenFn]) -> bool {
    v.windows(2).all(|w| w[0].selector() < w[1].selector())
}

/// Permutes so that the declaration order is not the selector order (three flavours).
fn unsort(v: &mut Vec<GenFn>, rng: &mut Rng, flavour: u64) {
    if v.len() < 2 {
        return;
    }
    match flavour % 3 {
        0 => {
            v.sort_by_key(|f| f.selector());
            v.reverse();
        }
        1 => {
            // sorted except for one transposition
            v.sort_by_key(|f| f.selector());
            let i = rng.below(v.len() as u64 - 1) as usize;
            v.swap(i, i + 1);
        }
        _ => {
            for i in (1..v.len()).rev() {
                let j = rng.below(i as u64 + 1) as usize;
                v.swap(i, j);
            }
            if is_sorted(v) {
                v.swap(0, 1);
            }
        }
    }
}

fn ext_sig(f: &GenFn, self_ty: &str, view: bool) -> String {
    if view {
        format!("fn {}(self: @{}, a: felt252, b: felt252) -> felt252", f.name, self_ty)
    } else {
        format!("fn {}(ref self: {}, a: felt252, b: felt252) -> felt252", f.name, self_ty)
    }
}

/// Returns (lib.cairo, what was generated).
pub fn generate(rng: &mut Rng, n_contracts: usize) -> (String, Vec<GenContract>) {
    let mut src = String::new();
    src.push_str("// generated by /verif/harness/h19 (gen.rs)\n");
    src.push_str(BODIES);
    let mut contracts = vec![];
    let mut counter = 0u64;
    for k in 0..n_contracts {
        let mut fresh = |kind: Kind, how: &'static str, rng: &mut Rng| -> GenFn {
            counter += 1;
            let w = WORDS[rng.below(WORDS.len() as u64) as usize];
            let name = format!("{}_{}_{}", w, rng.below(100000), counter);
            // the first contracts go through every body once, then random
            let body = Body::ALL[((counter + k as u64) % 7) as usize];
            GenFn { name, kind, body, how }
        };
        let module = format!("gen_contract_{}", k);
        let with_ctor = k % 3 != 1;
        let with_component = k % 2 == 0;
        let with_embeddable = k % 3 != 2;
        // --- entry points ---
        let n_standalone = 3 + rng.below(3) as usize;
        let mut standalone: Vec<GenFn> = (0..n_standalone).map(|_| fresh(Kind::External, "standalone #[external(v0)]", rng)).collect();
        unsort(&mut standalone, rng, k as u64);
        let n_l1 = 3 + rng.below(3) as usize;
        let mut l1: Vec<GenFn> = (0..n_l1).map(|_| fresh(Kind::L1Handler, "#[l1_handler]", rng)).collect();
        unsort(&mut l1, rng, k as u64 + 1);
        let split = 1 + rng.below(l1.len() as u64 - 1) as usize;
        let (l1_standalone, l1_per_item) = l1.split_at(split);
        let mut per_item_ext: Vec<GenFn> = (0..2).map(|_| fresh(Kind::External, "#[abi(per_item)] impl", rng)).collect();
        unsort(&mut per_item_ext, rng, 0);
        let mut iface: Vec<GenFn> = (0..3).map(|_| fresh(Kind::External, "#[abi(embed_v0)] impl of an interface", rng)).collect();
        unsort(&mut iface, rng, k as u64 + 2);
        let mut emb: Vec<GenFn> = if with_embeddable {
            (0..2).map(|_| fresh(Kind::External, "#[starknet::embeddable] impl", rng)).collect()
        } else {
            vec![]
        };
        unsort(&mut emb, rng, 0);
        let mut comp: Vec<GenFn> = if with_component {
            (0..2).map(|_| fresh(Kind::External, "component #[embeddable_as]", rng)).collect()
        } else {
            vec![]
        };
        unsort(&mut comp, rng, 0);
        let ctor = if with_ctor {
            Some(GenFn { name: "constructor".into(), kind: Kind::Constructor, body: Body::ALL[k % 7], how: "#[constructor]" })
        } else {
            None
        };

        // --- module-level items: interface, embeddable impl, component ---
        src.push_str(&format!("\n#[starknet::interface]\npub trait IFace{k}<T> {{\n"));
        for (i, f) in iface.iter().enumerate() {
            src.push_str(&format!("    {};\n", ext_sig(f, "T", i % 2 == 1)));
        }
        src.push_str("}\n");
        if with_embeddable {
            src.push_str(&format!("\n#[starknet::interface]\npub trait IEmb{k}<T> {{\n"));
            for f in &emb {
                src.push_str(&format!("    {};\n", ext_sig(f, "T", true)));
            }
            src.push_str("}\n");
            src.push_str(&format!("\n#[starknet::embeddable]\npub impl EmbImpl{k}<TContractState, +Drop<TContractState>> of IEmb{k}<TContractState> {{\n"));
            for f in &emb {
                src.push_str(&format!("    {} {{\n        bodies::{}(a, b)\n    }}\n", ext_sig(f, "TContractState", true), f.body.helper()));
            }
            src.push_str("}\n");
        }
        if with_component {
            src.push_str(&format!("\n#[starknet::interface]\npub trait IComp{k}<T> {{\n"));
            for f in &comp {
                src.push_str(&format!("    {};\n", ext_sig(f, "T", false)));
            }
            src.push_str("}\n");
            src.push_str(&format!(
                "\n#[starknet::component]\npub mod comp{k} {{\n    use starknet::storage::StoragePointerWriteAccess;\n    #[storage]\n    pub struct Storage {{\n        pub v: felt252,\n    }}\n    #[event]\n    #[derive(Drop, starknet::Event)]\n    pub enum Event {{}}\n    #[embeddable_as(CompFaceImpl)]\n    impl CompFace<\n        TContractState, +HasComponent<TContractState>,\n    > of super::IComp{k}<ComponentState<TContractState>> {{\n"
            ));
            for f in &comp {
                src.push_str(&format!(
                    "        {} {{\n            let r = super::bodies::{}(a, b);\n            self.v.write(r);\n            r\n        }}\n",
                    ext_sig(f, "ComponentState<TContractState>", false),
                    f.body.helper()
                ));
            }
            src.push_str("    }\n}\n");
        }

        // --- the contract ---
        src.push_str(&format!("\n#[starknet::contract]\npub mod {module} {{\n"));
        src.push_str("    use starknet::storage::{StoragePointerReadAccess, StoragePointerWriteAccess};\n");
        src.push_str("    use super::bodies;\n");
        if with_component {
            src.push_str(&format!("    component!(path: super::comp{k}, storage: comp, event: CompEvent);\n"));
            src.push_str(&format!("    #[abi(embed_v0)]\n    impl CompImpl = super::comp{k}::CompFaceImpl<ContractState>;\n"));
        }
        src.push_str("    #[storage]\n    struct Storage {\n        acc: felt252,\n");
        if with_component {
            src.push_str(&format!("        #[substorage(v0)]\n        comp: super::comp{k}::Storage,\n"));
        }
        src.push_str("    }\n");
        if with_component {
            src.push_str(&format!(
                "    #[event]\n    #[derive(Drop, starknet::Event)]\n    enum Event {{\n        CompEvent: super::comp{k}::Event,\n    }}\n"
            ));
        }
        let ext_fn = |f: &GenFn, indent: &str| -> String {
            format!(
                "{indent}#[external(v0)]\n{indent}{} {{\n{indent}    let r = bodies::{}(a, b);\n{indent}    self.acc.write(r);\n{indent}    r\n{indent}}}\n",
                ext_sig(f, "ContractState", false),
                f.body.helper()
            )
        };
        let l1_fn = |f: &GenFn, indent: &str| -> String {
            format!(
                "{indent}#[l1_handler]\n{indent}fn {}(ref self: ContractState, from_address: felt252, a: felt252, b: felt252) {{\n{indent}    self.acc.write(bodies::{}(a, b) + from_address);\n{indent}}}\n",
                f.name,
                f.body.helper()
            )
        };
        let ctor_fn = |f: &GenFn, indent: &str| -> String {
            format!(
                "{indent}#[constructor]\n{indent}fn constructor(ref self: ContractState, a: felt252, b: felt252) {{\n{indent}    self.acc.write(bodies::{}(a, b));\n{indent}}}\n",
                f.body.helper()
            )
        };
        // the constructor sits at a different place in each contract
        if let (Some(c), 0) = (&ctor, k % 2) {
            src.push_str(&ctor_fn(c, "    "));
        }
        // stand-alone l1 handlers and externals, interleaved
        let (mut i, mut j) = (0, 0);
        while i < standalone.len() || j < l1_standalone.len() {
            if j < l1_standalone.len() && (i >= standalone.len() || rng.bool()) {
                src.push_str(&l1_fn(&l1_standalone[j], "    "));
                j += 1;
            } else {
                src.push_str(&ext_fn(&standalone[i], "    "));
                i += 1;
            }
        }
        src.push_str(&format!("    #[abi(embed_v0)]\n    impl FaceImpl of super::IFace{k}<ContractState> {{\n"));
        for (i, f) in iface.iter().enumerate() {
            if i % 2 == 1 {
                src.push_str(&format!("        {} {{\n            bodies::{}(a, b) + self.acc.read()\n        }}\n", ext_sig(f, "ContractState", true), f.body.helper()));
            } else {
                src.push_str(&format!(
                    "        {} {{\n            let r = bodies::{}(a, b);\n            self.acc.write(r);\n            r\n        }}\n",
                    ext_sig(f, "ContractState", false),
                    f.body.helper()
                ));
            }
        }
        src.push_str("    }\n");
        if with_embeddable {
            src.push_str(&format!("    #[abi(embed_v0)]\n    impl Emb = super::EmbImpl{k}<ContractState>;\n"));
        }
        src.push_str("    #[abi(per_item)]\n    #[generate_trait]\n    impl PerItemImpl of PerItemTrait {\n");
        let (mut i, mut j) = (0, 0);
        while i < per_item_ext.len() || j < l1_per_item.len() {
            if j < l1_per_item.len() && (i >= per_item_ext.len() || rng.bool()) {
                src.push_str(&l1_fn(&l1_per_item[j], "        "));
                j += 1;
            } else {
                src.push_str(&ext_fn(&per_item_ext[i], "        "));
                i += 1;
            }
        }
        if let (Some(c), 1) = (&ctor, k % 2) {
            src.push_str(&ctor_fn(c, "        "));
        }
        src.push_str("    }\n}\n");

        let mut fns = vec![];
        fns.extend(standalone);
        fns.extend(l1);
        fns.extend(per_item_ext);
        fns.extend(iface);
        fns.extend(emb);
        fns.extend(comp);
        fns.extend(ctor);
        contracts.push(GenContract { module, fns });
    }
    (src, contracts)
}
