//! Contracts compiled from Cairo source (feature `source`): every contract of
//! /repo/crates/cairo-lang-starknet/cairo_level_tests through cairo_lang_starknet::compile.
use std::path::Path;

use cairo_lang_compiler::CompilerConfig;
use cairo_lang_compiler::db::RootDatabase;
use cairo_lang_compiler::project::setup_project;
use cairo_lang_defs::ids::TopLevelLanguageElementId;
use cairo_lang_filesystem::ids::CrateInput;
use cairo_lang_lowering::optimizations::config::Optimizations;
use cairo_lang_lowering::utils::InliningStrategy;
use cairo_lang_starknet::compile::compile_prepared_db;
use cairo_lang_starknet::contract::find_contracts;
use cairo_lang_starknet::starknet_plugin_suite;
use cairo_lang_starknet_classes::contract_class::ContractClass;

pub const CONTRACTS_CRATE: &str = "/repo/crates/cairo-lang-starknet/cairo_level_tests";

/// (full path of the contract module, compiled class) or the reason nothing was compiled.
pub fn compile_all() -> Result<Vec<(String, ContractClass)>, String> {
    // detect_corelib looks two levels above $CARGO_MANIFEST_DIR (the compiler's development layout)
    // SAFETY: single-threaded at this point.
    unsafe { std::env::set_var("CARGO_MANIFEST_DIR", "/repo/crates/cairo-lang-starknet") };
    let r = vcommon::catch(std::panic::AssertUnwindSafe(|| -> Result<Vec<(String, ContractClass)>, String> {
        let mut db = RootDatabase::builder()
            .with_optimizations(Optimizations::enabled_with_default_movable_functions(InliningStrategy::Default))
            .detect_corelib()
            .with_default_plugin_suite(starknet_plugin_suite())
            .build()
            .map_err(|e| format!("{e}"))?;
        let inputs = setup_project(&mut db, Path::new(CONTRACTS_CRATE)).map_err(|e| format!("{e}"))?;
        let mut cfg = CompilerConfig { replace_ids: true, ..CompilerConfig::default() };
        cfg.diagnostics_reporter = cfg.diagnostics_reporter.with_crates(&inputs).allow_warnings();
        let ids = CrateInput::into_crate_ids(&db, inputs);
        let contracts = find_contracts(&db, &ids);
        let names: Vec<String> = contracts.iter().map(|c| c.submodule_id.full_path(&db)).collect();
        let refs: Vec<_> = contracts.iter().collect();
        let classes = compile_prepared_db(&db, &refs, cfg).map_err(|e| format!("{e}"))?;
        Ok(names.into_iter().zip(classes).collect())
    }));
    match r {
        Ok(x) => x,
        Err(p) => Err(format!("panic: {p}")),
    }
}
