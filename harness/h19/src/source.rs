//! Classes produced by the compiler of the tree under test from Cairo source
//! (cairo_lang_starknet::compile): the contracts of cairo_level_tests and generated contracts
//! (gen.rs), and the checks that tie the produced `ContractClass` to its source/ABI.
use std::collections::BTreeMap;
use std::path::Path;

use cairo_lang_compiler::CompilerConfig;
use cairo_lang_compiler::db::RootDatabase;
use cairo_lang_compiler::project::setup_project;
use cairo_lang_defs::ids::TopLevelLanguageElementId;
use cairo_lang_filesystem::ids::CrateInput;
use cairo_lang_lowering::optimizations::config::Optimizations;
use cairo_lang_lowering::utils::InliningStrategy;
use cairo_lang_sierra::program::Program;
use cairo_lang_starknet::compile::compile_prepared_db;
use cairo_lang_starknet::contract::find_contracts;
use cairo_lang_starknet::starknet_plugin_suite;
use cairo_lang_starknet_classes::abi::Item;
use cairo_lang_starknet_classes::contract_class::{ContractClass, ContractEntryPoint};
use cairo_lang_starknet_classes::keccak::starknet_keccak;
use num_bigint::BigUint;
use serde_json::json;

use crate::gencontract::{GenContract, Kind};
use crate::oracle::Failure;

pub fn contracts_crate() -> String {
    format!("{}/crates/cairo-lang-starknet/cairo_level_tests", crate::repo())
}

/// Compiles every contract of the crate at `path`: (full path of the contract module, class).
pub fn compile_crate(path: &str) -> Result<Vec<(String, ContractClass)>, String> {
    // detect_corelib looks two levels above $CARGO_MANIFEST_DIR (the compiler's development layout)
    // SAFETY: single-threaded at this point.
    unsafe { std::env::set_var("CARGO_MANIFEST_DIR", format!("{}/crates/cairo-lang-starknet", crate::repo())) };
    let r = vcommon::catch(std::panic::AssertUnwindSafe(|| -> Result<Vec<(String, ContractClass)>, String> {
        let mut db = RootDatabase::builder()
            .with_optimizations(Optimizations::enabled_with_default_movable_functions(InliningStrategy::Default))
            .detect_corelib()
            .with_default_plugin_suite(starknet_plugin_suite())
            .build()
            .map_err(|e| format!("{e}"))?;
        let inputs = setup_project(&mut db, Path::new(path)).map_err(|e| format!("{e}"))?;
        let mut cfg = CompilerConfig { replace_ids: true, ..CompilerConfig::default() };
        cfg.diagnostics_reporter = cfg.diagnostics_reporter.with_crates(&inputs).allow_warnings();
        let ids = CrateInput::into_crate_ids(&db, inputs);
        let contracts = find_contracts(&db, &ids);
        let names: Vec<String> = contracts.iter().map(|c| c.submodule_id.full_path(&db)).collect();
        let refs: Vec<_> = contracts.iter().collect();
        let classes = compile_prepared_db(&db, &refs, cfg).map_err(|e| format!("{e}"))?;
        Ok(names.into_iter().zip(classes).collect())
    }));
    match r {
        Ok(x) => x,
        Err(p) => Err(format!("panic: {p} @ {}", vcommon::last_panic_location())),
    }
}

fn hex(v: &BigUint) -> String {
    format!("0x{}", v.to_str_radix(16))
}

/// The entry points the ABI declares: (kind, name).
fn abi_entry_points(cc: &ContractClass) -> Option<Vec<(Kind, String)>> {
    let abi = cc.abi.clone()?;
    let items: Vec<Item> = abi.into_iter().collect();
    let mut interfaces: BTreeMap<String, Vec<Item>> = BTreeMap::new();
    for it in &items {
        if let Item::Interface(i) = it {
            interfaces.insert(i.name.clone(), i.items.clone());
        }
    }
    let mut res = vec![];
    for it in &items {
        match it {
            Item::Function(f) => res.push((Kind::External, f.name.clone())),
            Item::L1Handler(f) => res.push((Kind::L1Handler, f.name.clone())),
            Item::Constructor(f) => res.push((Kind::Constructor, f.name.clone())),
            Item::Impl(imp) => {
                for sub in interfaces.get(&imp.interface_name)? {
                    if let Item::Function(f) = sub {
                        res.push((Kind::External, f.name.clone()));
                    }
                }
            }
            _ => {}
        }
    }
    Some(res)
}

/// Invariants of the `ContractClass` the compiler emitted, against its own ABI, its Sierra debug
/// names and (for generated contracts) the source it was compiled from.
pub fn check_compiler_output(
    name: &str,
    origin: &str,
    cc: &ContractClass,
    program: &Program,
    generated: Option<&GenContract>,
    out: &mut Vec<Failure>,
) {
    let mut fail = |why: String, fp: &str, detail: serde_json::Value| {
        out.push(Failure {
            class: name.to_string(),
            variation: "compiler output".into(),
            why,
            fingerprint: fp.to_string(),
            detail: json!({"source": origin, "contract": name, "detail": detail}),
        })
    };
    let tables: [(Kind, &str, &Vec<ContractEntryPoint>); 3] = [
        (Kind::External, "EXTERNAL", &cc.entry_points_by_type.external),
        (Kind::L1Handler, "L1_HANDLER", &cc.entry_points_by_type.l1_handler),
        (Kind::Constructor, "CONSTRUCTOR", &cc.entry_points_by_type.constructor),
    ];
    for (_, tname, t) in &tables {
        for w in t.windows(2) {
            if w[0].selector >= w[1].selector {
                fail(
                    format!("{tname} entry points of the contract class are not strictly sorted by selector"),
                    "cc-unsorted",
                    json!({"selectors": t.iter().map(|e| hex(&e.selector)).collect::<Vec<_>>()}),
                );
                break;
            }
        }
        for e in t.iter() {
            if e.function_idx >= program.funcs.len() {
                fail(format!("{tname}: function_idx {} names no Sierra function", e.function_idx), "cc-function-idx", json!({}));
            }
        }
    }
    if cc.entry_points_by_type.constructor.len() > 1 {
        fail("more than one constructor".into(), "cc-constructors", json!({}));
    }
    // ABI <-> entry points
    let names = cc.sierra_program_debug_info.as_ref().map(|d| &d.user_func_names);
    match abi_entry_points(cc) {
        None => fail("the class has no (well-formed) ABI".into(), "cc-abi", json!({})),
        Some(abi) => {
            for (kind, tname, t) in &tables {
                let declared: Vec<&String> = abi.iter().filter(|(k, _)| k == kind).map(|(_, n)| n).collect();
                if declared.len() != t.len() {
                    fail(
                        format!("{tname}: the ABI declares {} entry points, the class has {}", declared.len(), t.len()),
                        "cc-abi-count",
                        json!({"abi": declared}),
                    );
                }
                for n in declared {
                    let sel = starknet_keccak(n.as_bytes());
                    let hits: Vec<&ContractEntryPoint> = t.iter().filter(|e| e.selector == sel).collect();
                    if hits.len() != 1 {
                        fail(
                            format!("{tname}: ABI function `{n}` has {} entry points with selector keccak(name)", hits.len()),
                            "cc-abi-selector",
                            json!({"name": n, "selector": hex(&sel)}),
                        );
                        continue;
                    }
                    // the Sierra function it points at is the wrapper of that function
                    if let (Some(names), Some(f)) = (names, program.funcs.get(hits[0].function_idx)) {
                        match names.get(&f.id) {
                            // (generic wrappers carry their arguments: `..__wrapper__Impl__name::<..>`)
                            Some(dn)
                                if dn.contains("__wrapper__")
                                    && dn.split("::<").next().unwrap_or("").ends_with(&format!("__{n}")) => {}
                            other => fail(
                                format!("{tname}: entry point of `{n}` points at Sierra function {:?}, not its wrapper", other),
                                "cc-wrapper",
                                json!({"name": n, "function_idx": hits[0].function_idx}),
                            ),
                        }
                    }
                }
            }
        }
    }
    // against the generated source
    if let Some(g) = generated {
        for (kind, tname, t) in &tables {
            let mut expected: Vec<BigUint> = g.fns.iter().filter(|f| f.kind == *kind).map(|f| f.selector()).collect();
            expected.sort();
            let got: Vec<BigUint> = t.iter().map(|e| e.selector.clone()).collect();
            let mut got_sorted = got.clone();
            got_sorted.sort();
            if expected != got_sorted {
                fail(
                    format!("{tname}: selectors of the class are not those of the functions in the source"),
                    "cc-source-selectors",
                    json!({"source": g.fns.iter().filter(|f| f.kind == *kind).map(|f| f.name.clone()).collect::<Vec<_>>()}),
                );
            }
        }
    }
}
