//! Case generation: types, operators, operand sets (boundary x seeded random), program text.
use std::collections::{BTreeMap, BTreeSet};

use num_bigint::BigInt;
use num_traits::{One, Signed, Zero};
use vcommon::Rng;

#[derive(Clone, Copy, PartialEq, Eq, Hash, Debug, PartialOrd, Ord)]
pub enum Ty {
    U8,
    U16,
    U32,
    U64,
    U128,
    U256,
    I8,
    I16,
    I32,
    I64,
    I128,
    Felt,
}
pub const ALL_TYS: [Ty; 12] = [
    Ty::U8, Ty::U16, Ty::U32, Ty::U64, Ty::U128, Ty::U256, Ty::I8, Ty::I16, Ty::I32, Ty::I64, Ty::I128, Ty::Felt,
];
impl Ty {
    pub fn name(self) -> &'static str {
        match self {
            Ty::U8 => "u8", Ty::U16 => "u16", Ty::U32 => "u32", Ty::U64 => "u64", Ty::U128 => "u128",
            Ty::U256 => "u256", Ty::I8 => "i8", Ty::I16 => "i16", Ty::I32 => "i32", Ty::I64 => "i64",
            Ty::I128 => "i128", Ty::Felt => "felt252",
        }
    }
    pub fn coq(self) -> &'static str {
        match self {
            Ty::U8 => "U8", Ty::U16 => "U16", Ty::U32 => "U32", Ty::U64 => "U64", Ty::U128 => "U128",
            Ty::U256 => "U256", Ty::I8 => "I8", Ty::I16 => "I16", Ty::I32 => "I32", Ty::I64 => "I64",
            Ty::I128 => "I128", Ty::Felt => "Felt",
        }
    }
    pub fn signed(self) -> bool {
        matches!(self, Ty::I8 | Ty::I16 | Ty::I32 | Ty::I64 | Ty::I128)
    }
    pub fn is_felt(self) -> bool {
        self == Ty::Felt
    }
    pub fn bits(self) -> u32 {
        match self {
            Ty::U8 | Ty::I8 => 8, Ty::U16 | Ty::I16 => 16, Ty::U32 | Ty::I32 => 32, Ty::U64 | Ty::I64 => 64,
            Ty::U128 | Ty::I128 => 128, Ty::U256 => 256, Ty::Felt => 252,
        }
    }
    /// Smallest literal of the type (felt252 literals are signed: -(P-1)).
    pub fn min(self) -> BigInt {
        if self.is_felt() {
            BigInt::one() - vcommon::stark_prime()
        } else if self.signed() {
            -(BigInt::one() << (self.bits() - 1))
        } else {
            BigInt::zero()
        }
    }
    pub fn max(self) -> BigInt {
        if self.is_felt() {
            vcommon::stark_prime() - 1
        } else if self.signed() {
            (BigInt::one() << (self.bits() - 1)) - 1
        } else {
            (BigInt::one() << self.bits()) - 1
        }
    }
    pub fn n_cells(self) -> usize {
        if self == Ty::U256 { 2 } else { 1 }
    }
    pub fn lit(self, v: &BigInt) -> String {
        if v.is_negative() { format!("({}_{})", v, self.name()) } else { format!("{}_{}", v, self.name()) }
    }
    /// Run-time cells of a value of the type (as integers, reduced mod P by the runner glue).
    pub fn cells(self, v: &BigInt) -> Vec<BigInt> {
        if self == Ty::U256 {
            let mask = (BigInt::one() << 128) - 1;
            vec![v & &mask, v >> 128]
        } else {
            vec![v.clone()]
        }
    }
}

#[derive(Clone, Debug, PartialEq, Eq)]
pub enum Shape {
    Int(Ty),
    Bool,
    Pair(Ty),
    /// Option<T> (Some = variant 0)
    Opt(Ty),
    /// Option<NonZero<T>>
    OptNz(Ty),
    /// U128sFromFelt252Result
    Words,
    /// (T, bool)
    IntBool(Ty),
    /// (T, .., T) with n components
    Tup(Ty, usize),
}

#[derive(Clone, Debug)]
pub struct Case {
    pub leg: &'static str,
    /// printed as a Coq case (legs without a Coq model are checked by the oracle only)
    pub coq: bool,
    /// leading fields of the Coq case tuple (identifies the case)
    pub coq_head: String,
    pub nontrivial: bool,
    /// Cairo result type
    pub rty: String,
    pub shape: Shape,
    /// expression over literals for `const A_k: R = ...;`
    pub const_expr: Option<String>,
    /// (name, definition) of the const fn, and the call over literals
    pub constfn: Option<(String, String, String)>,
    /// (name, definition) of the non-const twin taking the operands as parameters
    pub twin: Option<(String, String)>,
    /// run-time argument cells of the twin
    pub args: Vec<BigInt>,
    /// per-case function `fn g_k(params) -> R { body }` and its run-time argument cells
    pub g: Option<(String, String, Vec<BigInt>)>,
    /// extra item definitions needed by the case (structs, enums, impls), keyed by name
    pub items: Vec<(String, String)>,
    /// extra shared functions (name, definition, run-time argument cells), each run with const
    /// folding on and off ("f0/..", "f1/..")
    pub fns: Vec<(String, String, Vec<BigInt>)>,
    /// the items need `#[feature(..)]` attributes for corelib internals
    pub feature: bool,
    /// expected run-time result where the generator knows it: Some(Some(values)) / Some(None) = panic
    pub expect: Option<Option<Vec<BigInt>>>,
    /// the construct is on the explicit list of constructs the evaluator does not support: a
    /// compile-time diagnostic is accepted although the run succeeds
    pub unsupported_ok: bool,
    /// tag used for known-finding fingerprints
    pub tag: String,
    /// predicted class, for the distribution report only
    pub class: &'static str,
}
pub const FEATURES: &str = "#[feature(\"corelib-internal-use\")]\n#[feature(\"bounded-int-utils\")]\n";
impl Case {
    pub fn replay_program(&self) -> String {
        let f = if self.feature { FEATURES } else { "" };
        let mut o = String::from("// consts crate\n");
        for (_, d) in &self.items {
            o.push_str(&format!("{d}\n"));
        }
        if let Some(e) = &self.const_expr {
            o.push_str(&format!("{f}const A: {} = {};\n", self.rty, e));
        }
        if let Some((_, def, call)) = &self.constfn {
            o.push_str(&format!("{f}{def}\n{f}const B: {} = {};\n", self.rty, call));
        }
        o.push_str("// twins crate\n");
        for (_, d) in &self.items {
            o.push_str(&format!("{d}\n"));
        }
        if let Some((_, def)) = &self.twin {
            o.push_str(&format!("{f}{def}  // run with {:?}\n", self.args));
        }
        if let Some((params, body, args)) = &self.g {
            o.push_str(&format!("{f}fn g({params}) -> {} {{ {body} }}  // run with {:?}\n", self.rty, args));
        }
        for (_, def, args) in &self.fns {
            o.push_str(&format!("{f}{def}  // run with {:?}\n", args));
        }
        o
    }
    pub fn fingerprint(&self, why: &str) -> String {
        let kind = if why.contains("but the run panics") {
            "const-value-run-panics"
        } else if why.contains("but the run returns") {
            "const-fails-run-returns"
        } else if why.contains("run variants differ") {
            "run-variants-differ"
        } else if why.contains("does not compile / the compiler crashed") {
            "compile-crash-or-reject"
        } else if why.contains("!= run-time value") {
            "value-mismatch"
        } else {
            "other"
        };
        format!("{}:{}", self.tag, kind)
    }
}

#[derive(Clone, Copy, PartialEq, Eq, Debug, PartialOrd, Ord)]
pub enum Op {
    Neg, Add, Sub, Mul, Div, Rem, And, Or, Xor, Eq, Ne, Lt, Le, Gt, Ge, DivRem,
}
pub const ALL_OPS: [Op; 16] = [
    Op::Neg, Op::Add, Op::Sub, Op::Mul, Op::Div, Op::Rem, Op::And, Op::Or, Op::Xor, Op::Eq, Op::Ne, Op::Lt,
    Op::Le, Op::Gt, Op::Ge, Op::DivRem,
];
impl Op {
    pub fn coq(self) -> &'static str {
        match self {
            Op::Neg => "ONeg", Op::Add => "OAdd", Op::Sub => "OSub", Op::Mul => "OMul", Op::Div => "ODiv",
            Op::Rem => "ORem", Op::And => "OAnd", Op::Or => "OOr", Op::Xor => "OXor", Op::Eq => "OEq",
            Op::Ne => "ONe", Op::Lt => "OLt", Op::Le => "OLe", Op::Gt => "OGt", Op::Ge => "OGe",
            Op::DivRem => "ODivRem",
        }
    }
    pub fn name(self) -> &'static str {
        match self {
            Op::Neg => "neg", Op::Add => "add", Op::Sub => "sub", Op::Mul => "mul", Op::Div => "div",
            Op::Rem => "rem", Op::And => "and", Op::Or => "or", Op::Xor => "xor", Op::Eq => "eq",
            Op::Ne => "ne", Op::Lt => "lt", Op::Le => "le", Op::Gt => "gt", Op::Ge => "ge",
            Op::DivRem => "divrem",
        }
    }
    pub fn unary(self) -> bool {
        self == Op::Neg
    }
    /// (operator, type) pairs that exist in the corelib and are const-evaluable.
    pub fn supported(self, t: Ty) -> bool {
        match self {
            Op::Neg => t.signed() || t.is_felt(),
            Op::Add | Op::Sub | Op::Mul | Op::Eq | Op::Ne => true,
            Op::Div | Op::Rem | Op::DivRem | Op::Lt | Op::Le | Op::Gt | Op::Ge => !t.is_felt(),
            Op::And | Op::Or | Op::Xor => !t.signed() && !t.is_felt(),
        }
    }
    pub fn expr(self, a: &str, b: &str) -> String {
        match self {
            Op::Neg => format!("-{a}"),
            Op::Add => format!("{a} + {b}"),
            Op::Sub => format!("{a} - {b}"),
            Op::Mul => format!("{a} * {b}"),
            Op::Div => format!("{a} / {b}"),
            Op::Rem => format!("{a} % {b}"),
            Op::And => format!("{a} & {b}"),
            Op::Or => format!("{a} | {b}"),
            Op::Xor => format!("{a} ^ {b}"),
            Op::Eq => format!("{a} == {b}"),
            Op::Ne => format!("{a} != {b}"),
            Op::Lt => format!("{a} < {b}"),
            Op::Le => format!("{a} <= {b}"),
            Op::Gt => format!("{a} > {b}"),
            Op::Ge => format!("{a} >= {b}"),
            Op::DivRem => format!("DivRem::div_rem({a}, {b}.try_into().unwrap())"),
        }
    }
    fn result(self, t: Ty) -> (String, Shape) {
        match self {
            Op::Eq | Op::Ne | Op::Lt | Op::Le | Op::Gt | Op::Ge => ("bool".into(), Shape::Bool),
            Op::DivRem => (format!("({0}, {0})", t.name()), Shape::Pair(t)),
            _ => (t.name().into(), Shape::Int(t)),
        }
    }
}

pub fn coq_z(v: &BigInt) -> String {
    let big = v.bits() > 60;
    let body = if big { format!("0x{}", v.magnitude().to_str_radix(16)) } else { v.magnitude().to_string() };
    if v.is_negative() { format!("(-{body})") } else { body }
}

/// Boundary operands of a type: {0,1,2,MAX-1,MAX,MIN,MIN+1,-1, 2^k, 2^k +- 1} within the literal range.
pub fn boundary(t: Ty) -> Vec<BigInt> {
    let (lo, hi) = (t.min(), t.max());
    let mut s: BTreeSet<BigInt> = BTreeSet::new();
    let mut add = |v: BigInt| {
        if v >= lo && v <= hi {
            s.insert(v);
        }
    };
    for v in [0i64, 1, 2, 3, -1, -2] {
        add(BigInt::from(v));
    }
    for d in 0..2 {
        add(&hi - d);
        add(&lo + d);
    }
    let b = t.bits();
    let mut ks: Vec<u32> = vec![b / 2, b - 1, b - 2, 7, 8];
    if b > 64 {
        ks.extend([63, 64, 127, 128]);
    }
    if t.is_felt() {
        ks.extend([250, 251]);
        let p = vcommon::stark_prime();
        // around P/2 (the point where the signed reading of a felt flips)
        for d in -1..=1 {
            add(&p / 2 + d);
            add(BigInt::from(d) - &p / 2);
        }
    }
    for k in ks {
        if k >= b + 1 {
            continue;
        }
        let p = BigInt::one() << k;
        for d in -1..=1 {
            add(&p + d);
            add(-&p + d);
        }
    }
    s.into_iter().collect()
}

pub fn random_operand(rng: &mut Rng, t: Ty) -> BigInt {
    let (lo, hi) = (t.min(), t.max());
    let bl = rng.below(t.bits() as u64 + 1) as u32;
    let mut v = if bl == 0 { BigInt::zero() } else { rng.bits(bl) };
    if (t.signed() || t.is_felt()) && rng.bool() {
        v = -v;
    }
    if v < lo {
        v = lo;
    }
    if v > hi {
        v = hi;
    }
    v
}

/// Predicted class of a case, used only to steer and report the distribution (not an oracle).
fn classify(op: Op, t: Ty, x: &BigInt, y: &BigInt) -> &'static str {
    if t.is_felt() {
        return "felt";
    }
    let (lo, hi) = (t.min(), t.max());
    let v = match op {
        Op::Neg => -x,
        Op::Add => x + y,
        Op::Sub => x - y,
        Op::Mul => x * y,
        Op::Div | Op::Rem | Op::DivRem => {
            if y.is_zero() {
                return "div_by_zero";
            }
            if t.signed() && *x == lo && *y == BigInt::from(-1) {
                return "min_div_minus_one";
            }
            return "in_range";
        }
        Op::And | Op::Or | Op::Xor => return "in_range",
        _ => return "compare",
    };
    if v < lo {
        "underflow"
    } else if v > hi {
        "overflow"
    } else {
        "in_range"
    }
}

fn ops_case(op: Op, t: Ty, x: &BigInt, y: &BigInt) -> Case {
    let (rty, shape) = op.result(t);
    let tn = t.name();
    let fname = format!("{}_{}", op.name(), tn);
    let params = if op.unary() { format!("x: {tn}") } else { format!("x: {tn}, y: {tn}") };
    let body = op.expr("x", "y");
    let (la, lb) = (t.lit(x), t.lit(y));
    let call_args = if op.unary() { la.clone() } else { format!("{la}, {lb}") };
    let mut args = t.cells(x);
    if !op.unary() {
        args.extend(t.cells(y));
    }
    let small = |v: &BigInt| v.is_zero() || v.is_one();
    Case {
        leg: "ops",
        coq: true,
        coq_head: format!("{}, {}, {}, {}", op.coq(), t.coq(), coq_z(x), if op.unary() { "0".into() } else { coq_z(y) }),
        nontrivial: !(small(x) && (op.unary() || small(y))),
        rty: rty.clone(),
        shape,
        const_expr: Some(op.expr(&la, &lb)),
        constfn: Some((
            format!("cf_{fname}"),
            format!("const fn cf_{fname}({params}) -> {rty} {{ {body} }}"),
            format!("cf_{fname}({call_args})"),
        )),
        twin: Some((format!("f_{fname}"), format!("fn f_{fname}({params}) -> {rty} {{ {body} }}"))),
        args,
        g: Some((String::new(), op.expr(&la, &lb), vec![])),
        items: vec![],
        fns: vec![],
        feature: false,
        expect: None,
        unsupported_ok: false,
        tag: format!(
            "{}:{}:{}",
            op.name(),
            if t.signed() { "signed" } else if t.is_felt() { "felt" } else { "unsigned" },
            classify(op, t, x, y)
        ),
        class: classify(op, t, x, y),
    }
}

fn bool_case(op: &'static str, coq: &'static str, a: bool, b: bool) -> Case {
    let unary = op == "!";
    let e = |x: &str, y: &str| if unary { format!("!{x}") } else { format!("{x} {op} {y}") };
    let name = match op {
        "!" => "not", "&" => "and", "|" => "or", "^" => "xor", "==" => "eq", "!=" => "ne", "&&" => "andand",
        _ => "oror",
    };
    let params = if unary { "x: bool".to_string() } else { "x: bool, y: bool".to_string() };
    let (la, lb) = (a.to_string(), b.to_string());
    let mut args = vec![BigInt::from(a as u8)];
    if !unary {
        args.push(BigInt::from(b as u8));
    }
    Case {
        leg: "bool",
        coq: true,
        coq_head: format!("{coq}, {}, {}", a, if unary { false } else { b }),
        nontrivial: true,
        rty: "bool".into(),
        shape: Shape::Bool,
        const_expr: Some(e(&la, &lb)),
        constfn: Some((
            format!("cf_b{name}"),
            format!("const fn cf_b{name}({params}) -> bool {{ {} }}", e("x", "y")),
            format!("cf_b{name}({})", if unary { la.clone() } else { format!("{la}, {lb}") }),
        )),
        twin: Some((format!("f_b{name}"), format!("fn f_b{name}({params}) -> bool {{ {} }}", e("x", "y")))),
        args,
        g: Some((String::new(), e(&la, &lb), vec![])),
        items: vec![],
        fns: vec![],
        feature: false,
        expect: None,
        unsupported_ok: false,
        tag: format!("bool:{name}"),
        class: "bool",
    }
}


// ---------------------------------------------------------------------------------------------
// leg cast: Into / TryInto / TryInto<T, NonZero<T>> / generic bounded_int::downcast
// ---------------------------------------------------------------------------------------------
pub const UPCASTABLE: [(Ty, Ty); 30] = [
    (Ty::U8, Ty::U16), (Ty::U8, Ty::I16), (Ty::U8, Ty::U32), (Ty::U8, Ty::I32), (Ty::U8, Ty::U64),
    (Ty::U8, Ty::I64), (Ty::U8, Ty::U128), (Ty::U8, Ty::I128), (Ty::I8, Ty::I16), (Ty::I8, Ty::I32),
    (Ty::I8, Ty::I64), (Ty::I8, Ty::I128), (Ty::U16, Ty::U32), (Ty::U16, Ty::I32), (Ty::U16, Ty::U64),
    (Ty::U16, Ty::I64), (Ty::U16, Ty::U128), (Ty::U16, Ty::I128), (Ty::I16, Ty::I32), (Ty::I16, Ty::I64),
    (Ty::I16, Ty::I128), (Ty::U32, Ty::U64), (Ty::U32, Ty::I64), (Ty::U32, Ty::U128), (Ty::U32, Ty::I128),
    (Ty::I32, Ty::I64), (Ty::I32, Ty::I128), (Ty::U64, Ty::U128), (Ty::U64, Ty::I128), (Ty::I64, Ty::I128),
];
const INTS10: [Ty; 10] = [Ty::U8, Ty::U16, Ty::U32, Ty::U64, Ty::U128, Ty::I8, Ty::I16, Ty::I32, Ty::I64, Ty::I128];

#[derive(Clone, Copy, PartialEq, Eq, Debug)]
pub enum CastKind {
    Into,
    TryInto,
    Nz,
    Downcast,
}
fn cast_case(kind: CastKind, from: Ty, to: Ty, x: &BigInt, coq: bool) -> Case {
    let (kname, kcoq) = match kind {
        CastKind::Into => ("into", "KInto"),
        CastKind::TryInto => ("tryinto", "KTryInto"),
        CastKind::Nz => ("nz", "KNz"),
        CastKind::Downcast => ("downcast", "KDowncast"),
    };
    let (rty, shape) = match kind {
        CastKind::Into => (to.name().to_string(), Shape::Int(to)),
        CastKind::TryInto | CastKind::Downcast => (format!("Option<{}>", to.name()), Shape::Opt(to)),
        CastKind::Nz => (format!("Option<NonZero<{}>>", from.name()), Shape::OptNz(from)),
    };
    let e = |a: &str| match kind {
        CastKind::Into => format!("{a}.into()"),
        CastKind::TryInto | CastKind::Nz => format!("{a}.try_into()"),
        CastKind::Downcast => {
            format!("core::internal::bounded_int::downcast::<{}, {}>({a})", from.name(), to.name())
        }
    };
    let fname = format!("{kname}_{}_{}", from.name(), to.name());
    let la = from.lit(x);
    let in_target = *x >= to.min() && *x <= to.max();
    Case {
        leg: "cast",
        coq,
        coq_head: format!("{kcoq}, {}, {}, {}", from.coq(), to.coq(), coq_z(x)),
        nontrivial: !(x.is_zero() || x.is_one()),
        rty: rty.clone(),
        shape,
        const_expr: Some(e(&la)),
        constfn: Some((
            format!("cf_{fname}"),
            format!("const fn cf_{fname}(x: {}) -> {rty} {{ {} }}", from.name(), e("x")),
            format!("cf_{fname}({la})"),
        )),
        twin: Some((format!("f_{fname}"), format!("fn f_{fname}(x: {}) -> {rty} {{ {} }}", from.name(), e("x")))),
        args: from.cells(x),
        g: Some((String::new(), e(&la), vec![])),
        items: vec![],
        fns: vec![],
        feature: kind == CastKind::Downcast,
        expect: None,
        unsupported_ok: false,
        tag: format!("cast:{kname}:{}:{}", if from.is_felt() { "felt" } else { "int" }, if to.signed() { "signed" } else { "unsigned" }),
        class: match kind {
            CastKind::Into => "cast_into",
            CastKind::Nz => if x.is_zero() { "nz_zero" } else { "nz_nonzero" },
            _ => if in_target { "cast_fits" } else { "cast_fails" },
        },
    }
}

fn gen_casts(rng: &mut Rng, thorough: bool, out: &mut Vec<Case>) {
    let n_rand = if thorough { 24 } else { 5 };
    let operands = |rng: &mut Rng, from: Ty, to: Ty, nb: usize| -> Vec<BigInt> {
        // boundary of the source, boundary of the target (and +-1 around it, and + P for felt sources)
        let mut v: BTreeSet<BigInt> = BTreeSet::new();
        let (lo, hi) = (from.min(), from.max());
        let p = vcommon::stark_prime();
        let mut cands: Vec<BigInt> = vec![];
        for b in boundary(to) {
            cands.push(b.clone());
            if from.is_felt() {
                cands.push(&b + &p);
                cands.push(&b - &p);
            }
        }
        for d in -2..=2 {
            cands.push(to.min() + d);
            cands.push(to.max() + d);
            if from.is_felt() {
                cands.push(to.min() + d + &p);
                cands.push(to.max() + d - &p);
                cands.push(to.min() + d - &p);
            }
        }
        let fb = boundary(from);
        let mut all: Vec<BigInt> = cands.into_iter().chain(fb).filter(|c| *c >= lo && *c <= hi).collect();
        all.sort();
        all.dedup();
        // deterministic thinning
        while all.len() > nb {
            let i = rng.below(all.len() as u64) as usize;
            all.remove(i);
        }
        v.extend(all);
        for d in [to.min() - 1, to.min(), to.max(), to.max() + 1, BigInt::zero(), BigInt::from(-1), BigInt::one() << 128u32, (BigInt::one() << 128u32) - 1] {
            if d >= lo && d <= hi {
                v.insert(d);
            }
        }
        for _ in 0..n_rand {
            v.insert(random_operand(rng, from));
        }
        v.into_iter().collect()
    };
    let nb = if thorough { 40 } else { 8 };
    // Into
    let mut into_pairs: Vec<(Ty, Ty)> = UPCASTABLE.to_vec();
    for t in INTS10 {
        into_pairs.push((t, Ty::Felt));
    }
    for t in [Ty::U8, Ty::U16, Ty::U32, Ty::U64, Ty::U128, Ty::Felt] {
        into_pairs.push((t, Ty::U256));
    }
    for (f, t) in &into_pairs {
        for x in operands(rng, *f, *t, nb) {
            out.push(cast_case(CastKind::Into, *f, *t, &x, true));
        }
    }
    // TryInto between the ten integer types (where there is no Into), from felt252, from u256
    for f in INTS10 {
        for t in INTS10 {
            if f == t || UPCASTABLE.contains(&(f, t)) {
                continue;
            }
            for x in operands(rng, f, t, nb) {
                out.push(cast_case(CastKind::TryInto, f, t, &x, true));
            }
        }
    }
    for t in INTS10 {
        for x in operands(rng, Ty::Felt, t, nb + 6) {
            out.push(cast_case(CastKind::TryInto, Ty::Felt, t, &x, true));
        }
    }
    for t in [Ty::U8, Ty::U16, Ty::U32, Ty::U64, Ty::U128, Ty::Felt] {
        // corelib code with `if`/destructuring run by the evaluator's interpreter: oracle only
        for x in operands(rng, Ty::U256, t, nb) {
            out.push(cast_case(CastKind::TryInto, Ty::U256, t, &x, false));
        }
    }
    // NonZero
    for t in [Ty::U8, Ty::U16, Ty::U32, Ty::U64, Ty::U128, Ty::U256, Ty::I8, Ty::I16, Ty::I32, Ty::I64, Ty::I128] {
        for x in operands(rng, t, t, nb / 2 + 2) {
            out.push(cast_case(CastKind::Nz, t, t, &x, true));
        }
    }
    // the generic downcast libfunc called directly (bounded-int-utils); from felt252 only into types
    // narrower than 128 bits (Sierra restriction)
    for f in INTS10 {
        for t in INTS10 {
            if f == t {
                continue;
            }
            // disjoint ranges are rejected by Sierra; all integer type pairs intersect
            for x in operands(rng, f, t, nb / 2 + 2) {
                out.push(cast_case(CastKind::Downcast, f, t, &x, true));
            }
        }
    }
    for t in [Ty::U8, Ty::U16, Ty::U32, Ty::U64, Ty::I8, Ty::I16, Ty::I32, Ty::I64] {
        for x in operands(rng, Ty::Felt, t, nb + 6) {
            out.push(cast_case(CastKind::Downcast, Ty::Felt, t, &x, true));
        }
    }
}

// ---------------------------------------------------------------------------------------------
// leg lf: libfunc-level functions with literal / run-time operand mixes (the folder's shortcuts)
// ---------------------------------------------------------------------------------------------
fn wider(t: Ty) -> Ty {
    match t {
        Ty::U8 => Ty::U16, Ty::U16 => Ty::U32, Ty::U32 => Ty::U64, Ty::U64 => Ty::U128,
        Ty::I8 => Ty::I16, Ty::I16 => Ty::I32, Ty::I32 => Ty::I64, Ty::I64 => Ty::I128,
        t => t,
    }
}
fn unsigned_of(t: Ty) -> Ty {
    match t {
        Ty::I8 => Ty::U8, Ty::I16 => Ty::U16, Ty::I32 => Ty::U32, Ty::I64 => Ty::U64, Ty::I128 => Ty::U128,
        t => t,
    }
}
#[derive(Clone, Copy, PartialEq, Eq, Debug)]
pub enum Lf {
    UAdd(Ty), USub(Ty), Diff(Ty), WideMul(Ty), FeltDiv, FAdd, FSub, FMul, Eq(Ty), UDiv(Ty), URem(Ty),
}
impl Lf {
    fn coq(self) -> String {
        match self {
            Lf::UAdd(t) => format!("LUAdd {}", t.coq()), Lf::USub(t) => format!("LUSub {}", t.coq()),
            Lf::Diff(t) => format!("LDiff {}", t.coq()), Lf::WideMul(t) => format!("LWideMul {}", t.coq()),
            Lf::FeltDiv => "LFeltDiv".into(), Lf::FAdd => "LFAdd".into(), Lf::FSub => "LFSub".into(),
            Lf::FMul => "LFMul".into(), Lf::Eq(t) => format!("LEq {}", t.coq()),
            Lf::UDiv(t) => format!("LUDiv {}", t.coq()), Lf::URem(t) => format!("LURem {}", t.coq()),
        }
    }
    fn operand_ty(self) -> Ty {
        match self {
            Lf::UAdd(t) | Lf::USub(t) | Lf::Diff(t) | Lf::WideMul(t) | Lf::Eq(t) | Lf::UDiv(t) | Lf::URem(t) => t,
            _ => Ty::Felt,
        }
    }
    fn result(self) -> (String, Shape) {
        match self {
            Lf::UAdd(t) | Lf::USub(t) => (format!("({0}, {0})", t.name()), Shape::Pair(t)),
            Lf::Diff(t) => {
                let u = unsigned_of(t);
                (format!("({0}, {0})", u.name()), Shape::Pair(u))
            }
            Lf::WideMul(t) => (wider(t).name().into(), Shape::Int(wider(t))),
            Lf::FeltDiv | Lf::FAdd | Lf::FSub | Lf::FMul => ("felt252".into(), Shape::Int(Ty::Felt)),
            Lf::Eq(_) => ("bool".into(), Shape::Bool),
            Lf::UDiv(t) | Lf::URem(t) => (t.name().into(), Shape::Int(t)),
        }
    }
    fn body(self, a: &str, b: &str) -> String {
        match self {
            Lf::UAdd(t) => format!(
                "match core::integer::{0}_overflowing_add({a}, {b}) {{ Result::Ok(v) => (0_{0}, v), Result::Err(v) => (1_{0}, v) }}",
                t.name()
            ),
            Lf::USub(t) => format!(
                "match core::integer::{0}_overflowing_sub({a}, {b}) {{ Result::Ok(v) => (0_{0}, v), Result::Err(v) => (1_{0}, v) }}",
                t.name()
            ),
            Lf::Diff(t) => format!(
                "match core::integer::{0}_diff({a}, {b}) {{ Result::Ok(v) => (0_{1}, v), Result::Err(v) => (1_{1}, v) }}",
                t.name(),
                unsigned_of(t).name()
            ),
            Lf::WideMul(t) => format!("core::integer::{}_wide_mul({a}, {b})", t.name()),
            Lf::FeltDiv => format!("core::felt252_div({a}, {b}.try_into().unwrap())"),
            Lf::FAdd => format!("{a} + {b}"),
            Lf::FSub => format!("{a} - {b}"),
            Lf::FMul => format!("{a} * {b}"),
            Lf::Eq(_) => format!("{a} == {b}"),
            Lf::UDiv(_) => format!("{a} / {b}"),
            Lf::URem(_) => format!("{a} % {b}"),
        }
    }
}
fn lf_case(lf: Lf, kx: bool, ky: bool, x: &BigInt, y: &BigInt) -> Case {
    let t = lf.operand_ty();
    let (rty, shape) = lf.result();
    let (la, lb) = (t.lit(x), t.lit(y));
    let mut params: Vec<String> = vec![];
    let mut args: Vec<BigInt> = vec![];
    if !kx {
        params.push(format!("x: {}", t.name()));
        args.extend(t.cells(x));
    }
    if !ky {
        params.push(format!("y: {}", t.name()));
        args.extend(t.cells(y));
    }
    let body = lf.body(if kx { &la } else { "x" }, if ky { &lb } else { "y" });
    Case {
        leg: "lf",
        coq: true,
        coq_head: format!("{}, {}, {}, {}, {}", lf.coq(), kx, ky, coq_z(x), coq_z(y)),
        nontrivial: !((x.is_zero() || x.is_one()) && (y.is_zero() || y.is_one())) || kx != ky,
        rty,
        shape,
        const_expr: None,
        constfn: None,
        twin: None,
        args: vec![],
        g: Some((params.join(", "), body, args)),
        items: vec![],
        fns: vec![],
        feature: true,
        expect: None,
        unsupported_ok: false,
        tag: format!("lf:{:?}:{}{}", lf, if kx { 'L' } else { 'X' }, if ky { 'L' } else { 'X' }).replace(['(', ')'], "_"),
        class: match (kx, ky) {
            (true, true) => "lf_both_literal",
            (false, false) => "lf_both_runtime",
            _ => "lf_mixed",
        },
    }
}

fn gen_lf(rng: &mut Rng, thorough: bool, out: &mut Vec<Case>) {
    let n = if thorough { 40 } else { 6 };
    let mut lfs: Vec<Lf> = vec![Lf::FeltDiv, Lf::FAdd, Lf::FSub, Lf::FMul, Lf::Eq(Ty::Felt), Lf::Eq(Ty::U256)];
    for t in [Ty::U8, Ty::U16, Ty::U32, Ty::U64, Ty::U128] {
        lfs.extend([Lf::UAdd(t), Lf::USub(t), Lf::Eq(t), Lf::UDiv(t), Lf::URem(t)]);
    }
    lfs.extend([Lf::UDiv(Ty::U256), Lf::URem(Ty::U256)]);
    for t in [Ty::I8, Ty::I16, Ty::I32, Ty::I64, Ty::I128] {
        lfs.extend([Lf::Diff(t), Lf::Eq(t)]);
    }
    for t in [Ty::U8, Ty::U16, Ty::U32, Ty::U64, Ty::I8, Ty::I16, Ty::I32, Ty::I64] {
        lfs.push(Lf::WideMul(t));
    }
    for lf in lfs {
        let t = lf.operand_ty();
        let bs = boundary(t);
        let special = [BigInt::zero(), BigInt::one()];
        let mut pairs: Vec<(BigInt, BigInt)> = vec![];
        // the identity / absorbing elements on either side, against boundary and random operands
        for s in &special {
            for _ in 0..(if thorough { 3 } else { 2 }) {
                let o = if rng.bool() { rng.pick(&bs).clone() } else { random_operand(rng, t) };
                pairs.push((s.clone(), o.clone()));
                pairs.push((o, s.clone()));
            }
            pairs.push((s.clone(), s.clone()));
        }
        if t.is_felt() {
            // representatives of 0 and 1 the folder does not recognise (1 - P), and -1
            let p = vcommon::stark_prime();
            pairs.push((BigInt::one() - &p, BigInt::from(5)));
            pairs.push((BigInt::from(5), BigInt::one() - &p));
            pairs.push((BigInt::from(-1), BigInt::from(-1)));
        }
        // felt252_div: the Coq side computes a modular inverse per literal/literal case (slow)
        let n = if lf == Lf::FeltDiv { n / 3 } else { n };
        for _ in 0..n {
            let x = if rng.bool() { rng.pick(&bs).clone() } else { random_operand(rng, t) };
            let y = if rng.bool() { rng.pick(&bs).clone() } else { random_operand(rng, t) };
            pairs.push((x, y));
        }
        pairs.push((t.max(), t.max()));
        pairs.push((t.min(), t.max()));
        pairs.push((t.max(), t.min()));
        for (x, y) in pairs {
            for (kx, ky) in [(true, true), (true, false), (false, true), (false, false)] {
                out.push(lf_case(lf, kx, ky, &x, &y));
            }
        }
    }
}

// ---------------------------------------------------------------------------------------------
// leg expr: compound const expressions run by the evaluator's interpreter (oracle only)
// ---------------------------------------------------------------------------------------------
fn expr_case(tpl: usize, t: Ty, x: &BigInt, y: &BigInt) -> Option<Case> {
    let tn = t.name();
    let (la, lb) = (t.lit(x), t.lit(y));
    let cmp_ok = !t.is_felt();
    let (name, items, e): (&str, Vec<(String, String)>, Box<dyn Fn(&str, &str) -> String>) = match tpl {
        0 => ("mix", vec![], Box::new(|a, b| format!("({a} + {b}) * {a} - {b}"))),
        1 if cmp_ok => ("absdiff", vec![], Box::new(|a, b| format!("if {a} < {b} {{ {b} - {a} }} else {{ {a} - {b} }}"))),
        2 if cmp_ok => ("tuple", vec![], Box::new(|a, b| format!("{{ let t = ({a}, {b}); let (p, q) = t; p / q + q }}"))),
        3 => (
            "struct",
            vec![(format!("S_{tn}"), format!("#[derive(Copy, Drop)]\nstruct S_{tn} {{ a: {tn}, b: {tn} }}"))],
            Box::new(move |a, b| format!("{{ let s = S_{tn} {{ a: {a}, b: {b} }}; s.a * s.b + s.a }}")),
        ),
        4 => (
            "enum",
            vec![(format!("E_{tn}"), format!("#[derive(Copy, Drop)]\nenum E_{tn} {{ A: {tn}, B: ({tn}, {tn}) }}"))],
            Box::new(move |a, b| {
                format!(
                    "match (if {a} == {b} {{ E_{tn}::A({a}) }} else {{ E_{tn}::B(({a}, {b})) }}) {{ E_{tn}::A(v) => v + v, E_{tn}::B((p, q)) => p - q }}"
                )
            }),
        ),
        5 if cmp_ok => ("logic", vec![], Box::new(|a, b| format!("if {a} != 0 && {b} / {a} > 1 || {b} == 0 {{ {a} }} else {{ {b} % 3 }}"))),
        _ => return None,
    };
    let fname = format!("{name}_{tn}");
    Some(Case {
        leg: "expr",
        coq: false,
        coq_head: format!("expr {name} {tn} {} {}", x, y),
        nontrivial: true,
        rty: tn.into(),
        shape: Shape::Int(t),
        const_expr: Some(e(&la, &lb)),
        constfn: Some((
            format!("cf_{fname}"),
            format!("const fn cf_{fname}(x: {tn}, y: {tn}) -> {tn} {{ {} }}", e("x", "y")),
            format!("cf_{fname}({la}, {lb})"),
        )),
        twin: Some((format!("f_{fname}"), format!("fn f_{fname}(x: {tn}, y: {tn}) -> {tn} {{ {} }}", e("x", "y")))),
        args: t.cells(x).into_iter().chain(t.cells(y)).collect(),
        g: Some((String::new(), e(&la, &lb), vec![])),
        items,
        fns: vec![],
        feature: false,
        expect: None,
        unsupported_ok: false,
        tag: format!("expr:{name}"),
        class: "expr",
    })
}
fn gen_expr(rng: &mut Rng, thorough: bool, out: &mut Vec<Case>) {
    let n = if thorough { 24 } else { 6 };
    for t in ALL_TYS {
        let bs = boundary(t);
        for tpl in 0..6 {
            for i in 0..n {
                let x = if i % 2 == 0 { rng.pick(&bs).clone() } else { random_operand(rng, t) };
                let y = if i % 3 == 0 { random_operand(rng, t) } else { rng.pick(&bs).clone() };
                if let Some(c) = expr_case(tpl, t, &x, &y) {
                    out.push(c);
                }
            }
        }
    }
}


// ---------------------------------------------------------------------------------------------
// leg part: partial-constant rewrites.  One operand is a literal in the body, the other arrives
// at run time:  f_lit(x) = op(x, LIT)   vs   f_args(x, y) = op(x, y) called with y = LIT.
// The folder specialises such calls (x +- 0, x +- 1 -> core::internal::num::*_inc/_dec, 0 + x,
// x * 0/1, x / 1, 0 / x, x == 0 -> is_zero, wide_mul by 0, div_rem of 0, downcast subsumption, and
// -- through try_specialize_call -- any corelib function with a constant argument).
// ---------------------------------------------------------------------------------------------
#[derive(Clone, Copy, PartialEq, Eq, Debug)]
pub enum Arith {
    Add,
    Sub,
    Mul,
}
#[derive(Clone, Copy, PartialEq, Eq, Debug)]
pub enum Variant {
    Wrapping,
    Overflowing,
    Checked,
    Saturating,
}
#[derive(Clone, Copy, PartialEq, Eq, Debug)]
pub enum POp {
    Bin(Op),
    Var(Variant, Arith),
}
impl POp {
    fn name(self) -> String {
        match self {
            POp::Bin(o) => o.name().to_string(),
            POp::Var(v, a) => format!("{:?}_{:?}", v, a).to_lowercase(),
        }
    }
    fn coq(self) -> String {
        match self {
            POp::Bin(o) => format!("PBin {}", o.coq()),
            POp::Var(v, a) => format!("PVar P{:?} A{:?}", v, a),
        }
    }
    fn supported(self, t: Ty) -> bool {
        match self {
            POp::Bin(o) => o != Op::Neg && o != Op::DivRem && o.supported(t),
            POp::Var(_, a) => !t.is_felt() && (a != Arith::Mul || !t.signed()),
        }
    }
    fn expr(self, a: &str, b: &str) -> String {
        match self {
            POp::Bin(o) => o.expr(a, b),
            POp::Var(v, ar) => {
                let m = format!("{:?}_{:?}", v, ar).to_lowercase();
                format!("{a}.{m}({b})")
            }
        }
    }
    fn result(self, t: Ty) -> (String, Shape) {
        match self {
            POp::Bin(o) => o.result(t),
            POp::Var(Variant::Wrapping, _) | POp::Var(Variant::Saturating, _) => (t.name().into(), Shape::Int(t)),
            POp::Var(Variant::Overflowing, _) => (format!("({}, bool)", t.name()), Shape::IntBool(t)),
            POp::Var(Variant::Checked, _) => (format!("Option<{}>", t.name()), Shape::Opt(t)),
        }
    }
}
fn part_case(op: POp, t: Ty, lit_left: bool, lit: &BigInt, lname: &str, x: &BigInt) -> Case {
    let (rty, shape) = op.result(t);
    let tn = t.name();
    let l = t.lit(lit);
    let side = if lit_left { "l" } else { "r" };
    let (body_lit, run_args) = if lit_left {
        (op.expr(&l, "x"), [t.cells(lit), t.cells(x)].concat())
    } else {
        (op.expr("x", &l), [t.cells(x), t.cells(lit)].concat())
    };
    let f_lit = format!("p_{}_{tn}_{side}_{lname}", op.name());
    let f_args = format!("q_{}_{tn}", op.name());
    Case {
        leg: "part",
        coq: true,
        coq_head: format!("{}, {}, {}, {}, {}", op.coq(), t.coq(), lit_left, coq_z(lit), coq_z(x)),
        nontrivial: true,
        rty: rty.clone(),
        shape,
        const_expr: None,
        constfn: None,
        twin: None,
        args: vec![],
        g: None,
        items: vec![],
        fns: vec![
            (f_lit.clone(), format!("fn {f_lit}(x: {tn}) -> {rty} {{ {body_lit} }}"), t.cells(x)),
            (f_args.clone(), format!("fn {f_args}(x: {tn}, y: {tn}) -> {rty} {{ {} }}", op.expr("x", "y")), run_args),
        ],
        feature: false,
        expect: None,
        unsupported_ok: false,
        tag: format!("part:{}:{}:{side}:{lname}", op.name(), if t.signed() { "signed" } else if t.is_felt() { "felt" } else { "unsigned" }),
        class: "part",
    }
}

fn gen_part(rng: &mut Rng, thorough: bool, out: &mut Vec<Case>) {
    let mut ops: Vec<POp> = vec![];
    for o in [Op::Add, Op::Sub, Op::Mul, Op::Div, Op::Rem, Op::And, Op::Or, Op::Xor, Op::Eq, Op::Ne, Op::Lt, Op::Le, Op::Gt, Op::Ge] {
        ops.push(POp::Bin(o));
    }
    for v in [Variant::Wrapping, Variant::Overflowing, Variant::Checked, Variant::Saturating] {
        for a in [Arith::Add, Arith::Sub, Arith::Mul] {
            ops.push(POp::Var(v, a));
        }
    }
    for t in ALL_TYS {
        let (lo, hi) = (t.min(), t.max());
        // literal operands: {0, 1, -1, 2, MIN, MAX, MIN+1, MAX-1}
        let mut lits: Vec<(BigInt, &'static str)> = vec![
            (BigInt::zero(), "zero"), (BigInt::one(), "one"), (BigInt::from(2), "two"), (hi.clone(), "max"),
            (&hi - 1, "maxm1"),
        ];
        if t.signed() || t.is_felt() {
            lits.extend([(BigInt::from(-1), "m1"), (lo.clone(), "min"), (&lo + 1, "minp1")]);
        }
        // run-time operands: the corners every rewrite is sensitive to, plus seeded ones
        let mut xs: Vec<BigInt> = vec![lo.clone(), hi.clone(), BigInt::zero(), BigInt::one(), &hi - 1, &lo + 1];
        if t.signed() || t.is_felt() {
            xs.push(BigInt::from(-1));
        }
        let bs = boundary(t);
        for op in &ops {
            if !op.supported(t) {
                continue;
            }
            for (lit, lname) in &lits {
                // quick tier: the three "near" literals are sampled
                if !thorough && matches!(*lname, "two" | "maxm1" | "minp1") && rng.below(3) != 0 {
                    continue;
                }
                for lit_left in [false, true] {
                    let mut my_xs = xs.clone();
                    if !thorough {
                        // corners MIN, MAX, 0 always; two of the others
                        while my_xs.len() > 5 {
                            let i = 3 + rng.below(my_xs.len() as u64 - 3) as usize;
                            my_xs.remove(i);
                        }
                    }
                    let extra = if thorough { 2 } else { 1 };
                    for i in 0..extra {
                        my_xs.push(if i % 2 == 0 { random_operand(rng, t) } else { rng.pick(&bs).clone() });
                    }
                    for x in my_xs {
                        out.push(part_case(*op, t, lit_left, lit, lname, &x));
                    }
                }
            }
        }
    }
}


// ---------------------------------------------------------------------------------------------
// leg aggr: the STRUCTURAL part of the const evaluator (ConstantEvaluateContext::evaluate and
// destructure_pattern in constant.rs): aggregate values and patterns.  Every arm is exercised:
//   Expr:    Var, Constant (consts referring to other consts' members), Block (let with pattern,
//            let-else, expression statements, shadowing), FunctionCall (const fn, generic const fn),
//            Literal, Tuple, StructCtor (fields in every order, `..base`), EnumVariantCtor,
//            MemberAccess (chains, tuple index), FixedSizeArray (items, [v; n]), Snapshot, Desnap,
//            LogicalOperator, Match (enum, nested, or-patterns, `_`), If (bool, `if let`, no else)
//   Pattern: Otherwise, Literal, Variable, Struct (every permutation, renamed, `..`, nested),
//            Tuple, FixedSizeArray, EnumVariant (with and without inner pattern)
// Each case is a const item, the same through a const fn, a run-time twin (folding on / off) and a
// literal function; all must agree with each other and with the expected tuple.  Constructs the
// evaluator documents as unsupported (assignment, loop, while) are on an explicit list.
// ---------------------------------------------------------------------------------------------
type E3 = Box<dyn Fn(&str, &str, &str) -> String>;
enum Exp {
    /// the components of the result, as indices into (x, y, z)
    Sel(Vec<usize>),
    /// computed (None = the run panics / the const is diagnosed)
    Fun(Box<dyn Fn(&BigInt, &BigInt, &BigInt) -> Option<Vec<BigInt>>>),
}
struct Tpl {
    name: String,
    items: Vec<(String, String)>,
    e: E3,
    /// number of components of the result tuple (1 = plain T)
    n: usize,
    exp: Exp,
    unsupported: bool,
}
const PERMS3: [[usize; 3]; 6] = [[0, 1, 2], [0, 2, 1], [1, 0, 2], [1, 2, 0], [2, 0, 1], [2, 1, 0]];
const F3: [&str; 3] = ["a", "b", "c"];

fn aggr_templates(t: Ty) -> Vec<Tpl> {
    let tn = t.name();
    let s3 = format!("S3_{tn}");
    let nn = format!("N_{tn}");
    let en = format!("E_{tn}x");
    let sb = format!("SB_{tn}");
    let d = "#[derive(Copy, Drop)]\n";
    let it_s3 = (s3.clone(), format!("{d}struct {s3} {{ a: {tn}, b: {tn}, c: {tn} }}"));
    let it_n = (nn.clone(), format!("{d}struct {nn} {{ s: {s3}, t: {tn} }}"));
    let it_e = (en.clone(), format!("{d}enum {en} {{ A: {tn}, B: ({tn}, {tn}), C: {s3}, D }}"));
    let it_sb = (sb.clone(), format!("{d}struct {sb} {{ flag: bool, v: {tn} }}"));
    let mut v: Vec<Tpl> = vec![];
    let mut add = |name: String, items: Vec<(String, String)>, n: usize, exp: Exp, e: E3| {
        v.push(Tpl { name, items, e, n, exp, unsupported: false });
    };
    let mk = {
        let s3 = s3.clone();
        move |x: &str, y: &str, z: &str| format!("{s3} {{ a: {x}, b: {y}, c: {z} }}")
    };
    // --- StructCtor: fields in every order; MemberAccess
    for (pi, p) in PERMS3.iter().enumerate() {
        let (s3c, p) = (s3.clone(), *p);
        add(format!("ctor{pi}"), vec![it_s3.clone()], 3, Exp::Sel(vec![0, 1, 2]), Box::new(move |x, y, z| {
            let vals = [x, y, z];
            let fields: Vec<String> = p.iter().map(|&i| format!("{}: {}", F3[i], vals[i])).collect();
            format!("{{ let s = {s3c} {{ {} }}; (s.a, s.b, s.c) }}", fields.join(", "))
        }));
    }
    // --- StructCtor with ..base (overriding each subset, fields out of order)
    for (bi, over) in [vec![1usize], vec![2, 0], vec![0], vec![2, 1]].into_iter().enumerate() {
        let (s3c, mkc, over2) = (s3.clone(), mk.clone(), over.clone());
        // base = (z, x, y); overridden fields take x/y/z by their own index
        let sel: Vec<usize> = (0..3).map(|i| if over.contains(&i) { i } else { [2, 0, 1][i] }).collect();
        add(format!("base{bi}"), vec![it_s3.clone()], 3, Exp::Sel(sel), Box::new(move |x, y, z| {
            let vals = [x, y, z];
            let fields: Vec<String> = over2.iter().map(|&i| format!("{}: {}", F3[i], vals[i])).collect();
            format!("{{ let s = {s3c} {{ {}, ..{} }}; (s.a, s.b, s.c) }}", fields.join(", "), mkc(z, x, y))
        }));
    }
    // --- MemberAccess chains through a nested struct
    {
        let (nnc, mkc) = (nn.clone(), mk.clone());
        add("chain".into(), vec![it_s3.clone(), it_n.clone()], 3, Exp::Sel(vec![1, 2, 0]), Box::new(move |x, y, z| {
            format!("{{ let n = {nnc} {{ t: {z}, s: {} }}; (n.s.b, n.t, n.s.a) }}", mkc(x, y, y))
        }));
    }
    // --- Pattern::Struct: every permutation, plain / renamed
    for (pi, p) in PERMS3.iter().enumerate() {
        for renamed in [false, true] {
            let (s3c, mkc, p) = (s3.clone(), mk.clone(), *p);
            add(format!("pat{pi}{}", if renamed { "r" } else { "" }), vec![it_s3.clone()], 3, Exp::Sel(vec![0, 1, 2]), Box::new(move |x, y, z| {
                let fields: Vec<String> =
                    p.iter().map(|&i| if renamed { format!("{}: v{}", F3[i], F3[i]) } else { F3[i].to_string() }).collect();
                let res = if renamed { "(va, vb, vc)" } else { "(a, b, c)" };
                format!("{{ let s = {}; let {s3c} {{ {} }} = s; {res} }}", mkc(x, y, z), fields.join(", "))
            }));
        }
    }
    // --- Pattern::Struct with `..` : each omitted field, both orders of the remaining two
    for omit in 0..3usize {
        for flip in [false, true] {
            let (s3c, mkc) = (s3.clone(), mk.clone());
            let mut rest: Vec<usize> = (0..3).filter(|i| *i != omit).collect();
            if flip {
                rest.reverse();
            }
            let mut keep = rest.clone();
            keep.sort();
            add(format!("patdots{omit}{}", flip as u8), vec![it_s3.clone()], 3, Exp::Sel(vec![keep[0], keep[1], omit]), Box::new(move |x, y, z| {
                let fields: Vec<&str> = rest.iter().map(|&i| F3[i]).collect();
                format!(
                    "{{ let s = {}; let {s3c} {{ {}, .. }} = s; ({}, {}, s.{}) }}",
                    mkc(x, y, z), fields.join(", "), F3[keep[0]], F3[keep[1]], F3[omit]
                )
            }));
        }
    }
    // --- nested struct patterns, out of order
    {
        let (s3c, nnc, mkc) = (s3.clone(), nn.clone(), mk.clone());
        add("patnest".into(), vec![it_s3.clone(), it_n.clone()], 3, Exp::Sel(vec![2, 0, 1]), Box::new(move |x, y, z| {
            format!("{{ let n = {nnc} {{ s: {}, t: {y} }}; let {nnc} {{ t, s: {s3c} {{ c, a, .. }} }} = n; (c, a, t) }}", mkc(x, x, z))
        }));
    }
    // --- struct pattern as the pattern of a const fn's let inside a match arm on an enum payload
    for (pi, p) in [PERMS3[3], PERMS3[5]].iter().enumerate() {
        let (s3c, enc, mkc, p) = (s3.clone(), en.clone(), mk.clone(), *p);
        add(format!("matchstruct{pi}"), vec![it_s3.clone(), it_e.clone()], 3, Exp::Sel(vec![0, 1, 2]), Box::new(move |x, y, z| {
            let fields: Vec<&str> = p.iter().map(|&i| F3[i]).collect();
            format!(
                "match {enc}::C({}) {{ {enc}::C({s3c} {{ {} }}) => (a, b, c), {enc}::A(w) => (w, w, w), _ => ({z}, {z}, {z}) }}",
                mkc(x, y, z), fields.join(", ")
            )
        }));
    }
    // --- tuples: construction, nested pattern with `_`, tuple index
    add("tuppat".into(), vec![], 3, Exp::Sel(vec![2, 0, 1]), Box::new(|x, y, z| {
        format!("{{ let t = ({x}, ({y}, {z}), {x}); let (p, (q, r), _) = t; (r, p, q) }}")
    }));
    add("tupshadow".into(), vec![], 3, Exp::Sel(vec![1, 0, 2]), Box::new(|x, y, z| {
        format!("{{ let a = {x}; let a = (a, {y}); let (b, a) = a; let a = (a, b, {z}); a }}")
    }));
    // --- tuple index, if without else (unit value)
    add("tupidx".into(), vec![], 3, Exp::Sel(vec![2, 0, 1]), Box::new(|x, y, z| {
        format!("{{ let t = ({x}, ({y}, {z})); (t.1.1, t.0, t.1.0) }}")
    }));
    // --- fixed size arrays
    add("arr".into(), vec![], 3, Exp::Sel(vec![2, 0, 1]), Box::new(|x, y, z| {
        format!("{{ let arr = [{x}, {y}, {z}]; let [p, q, r] = arr; (r, p, q) }}")
    }));
    add("arrrep".into(), vec![], 3, Exp::Sel(vec![1, 1, 0]), Box::new(|x, y, _z| {
        format!("{{ let [p, q, _] = [{y}; 3]; (p, q, {x}) }}")
    }));
    add("arrnest".into(), vec![], 3, Exp::Sel(vec![1, 2, 0]), Box::new(|x, y, z| {
        format!("{{ let arr = [({x}, {y}), ({z}, {x})]; let [(p, q), (r, _)] = arr; (q, r, p) }}")
    }));
    // --- enums: construction of every variant, match with nested variants, or-patterns, `_`
    for (vi, ctor) in ["A", "B", "C", "D"].iter().enumerate() {
        let (enc, mkc, s3c, ctor) = (en.clone(), mk.clone(), s3.clone(), ctor.to_string());
        let sel = match vi { 0 => vec![0, 0, 0], 1 => vec![1, 0, 2], 2 => vec![2, 1, 0], _ => vec![2, 2, 1] };
        add(format!("enum{ctor}"), vec![it_s3.clone(), it_e.clone()], 3, Exp::Sel(sel), Box::new(move |x, y, z| {
            let value = match ctor.as_str() {
                "A" => format!("{enc}::A({x})"),
                "B" => format!("{enc}::B(({x}, {y}))"),
                "C" => format!("{enc}::C({})", mkc(x, y, z)),
                _ => format!("{enc}::D"),
            };
            format!(
                "match {value} {{ {enc}::A(v) => (v, v, v), {enc}::B((p, q)) => (q, p, {z}), {enc}::C({s3c} {{ c, b, a }}) => (c, b, a), {enc}::D => ({z}, {z}, {y}) }}"
            )
        }));
    }
    {
        let enc = en.clone();
        add("enumor".into(), vec![it_s3.clone(), it_e.clone()], 3, Exp::Sel(vec![1, 1, 2]), Box::new(move |x, y, z| {
            format!("match {enc}::B(({y}, {x})) {{ {enc}::A(v) | {enc}::B((v, _)) => (v, v, {z}), _ => ({x}, {x}, {x}) }}")
        }));
        let enc = en.clone();
        add("enumnested".into(), vec![it_s3.clone(), it_e.clone()], 3, Exp::Sel(vec![1, 0, 2]), Box::new(move |x, y, z| {
            format!(
                "match Option::Some({enc}::B(({x}, {y}))) {{ Option::Some({enc}::B((p, q))) => (q, p, {z}), Option::Some(_) => ({z}, {z}, {z}), Option::None => ({x}, {x}, {x}) }}"
            )
        }));
        // if let, with and without a matching variant; let-else reaching the else clause (panic)
        let enc = en.clone();
        add("iflet".into(), vec![it_s3.clone(), it_e.clone()], 3, Exp::Sel(vec![0, 1, 2]), Box::new(move |x, y, z| {
            format!("{{ let e = {enc}::A({x}); if let {enc}::A(v) = e {{ (v, {y}, {z}) }} else {{ ({z}, {z}, {z}) }} }}")
        }));
        let enc = en.clone();
        add("ifletno".into(), vec![it_s3.clone(), it_e.clone()], 3, Exp::Sel(vec![2, 2, 0]), Box::new(move |x, y, z| {
            format!("{{ let e = {enc}::B(({x}, {y})); if let {enc}::A(v) = e {{ (v, {y}, {z}) }} else {{ ({z}, {z}, {x}) }} }}")
        }));
        let enc = en.clone();
        add("letelse".into(), vec![it_s3.clone(), it_e.clone()], 3, Exp::Sel(vec![1, 0, 2]), Box::new(move |x, y, z| {
            format!("{{ let e = {enc}::B(({x}, {y})); let {enc}::B((p, q)) = e else {{ core::panic_with_felt252('no') }}; (q, p, {z}) }}")
        }));
        let enc = en.clone();
        add("letelsefail".into(), vec![it_s3.clone(), it_e.clone()], 3, Exp::Fun(Box::new(|_, _, _| None)), Box::new(move |x, y, z| {
            format!("{{ let e = {enc}::A({x}); let {enc}::B((p, q)) = e else {{ core::panic_with_felt252('no') }}; (q, p, {z} + {y} - {y}) }}")
        }));
    }
    // --- literal patterns in a match on a value, `_`
    if !t.is_felt() && t != Ty::U256 && !t.signed() {
        add("matchlit".into(), vec![], 1, Exp::Fun(Box::new(|x, y, z| {
            Some(vec![if x.is_zero() { y.clone() } else if x.is_one() { z.clone() } else { x.clone() }])
        })), Box::new(|x, y, z| format!("{{ let w = {x}; match w {{ 0 => {y}, 1 => {z}, _ => w }} }}")));
    }
    // --- snapshots and desnap of aggregates
    {
        let (s3c, mkc) = (s3.clone(), mk.clone());
        add("snappat".into(), vec![it_s3.clone()], 3, Exp::Sel(vec![0, 1, 2]), Box::new(move |x, y, z| {
            format!("{{ let s = {}; let r = @s; let {s3c} {{ c, a, b }} = *r; (a, b, c) }}", mkc(x, y, z))
        }));
        let mkc = mk.clone();
        add("snapmember".into(), vec![it_s3.clone()], 3, Exp::Sel(vec![2, 0, 1]), Box::new(move |x, y, z| {
            format!("{{ let s = {}; let r = @s; (*r.c, *r.a, *r.b) }}", mkc(x, y, z))
        }));
    }
    // --- a generic const fn
    add(
        "generic".into(),
        vec![(
            "pick_g".into(),
            "const fn pick_g<U, +Copy<U>, +Drop<U>>(p: (U, U, U), k: u8) -> U { let (a, b, c) = p; if k == 0 { a } else if k == 1 { b } else { c } }".into(),
        )],
        3,
        Exp::Sel(vec![2, 0, 1]),
        Box::new(|x, y, z| format!("(pick_g(({x}, {y}, {z}), 2), pick_g(({x}, {y}, {z}), 0), pick_g(({x}, {y}, {z}), 1))")),
    );
    // --- bool members, logical operators, if without value-carrying else
    {
        let sbc = sb.clone();
        add("boolmember".into(), vec![it_sb.clone()], 3, Exp::Fun(Box::new(|x, y, z| {
            Some(if x == y || x == z { vec![x.clone(), y.clone(), z.clone()] } else { vec![z.clone(), y.clone(), x.clone()] })
        })), Box::new(move |x, y, z| {
            format!("{{ let s = {sbc} {{ v: {x}, flag: {x} == {y} || {x} == {z} }}; let {sbc} {{ v, flag }} = s; if flag && true {{ (v, {y}, {z}) }} else {{ ({z}, {y}, v) }} }}")
        }));
    }
    // --- must-diagnose direction: arithmetic inside aggregates (overflow <=> panic)
    {
        let mkc = mk.clone();
        let (lo, hi) = (t.min(), t.max());
        let felt = t.is_felt();
        add("overflow".into(), vec![it_s3.clone()], 3, Exp::Fun(Box::new(move |x, y, z| {
            if felt {
                return Some(vec![x + y, y.clone(), z.clone()]);
            }
            let v = x + y;
            if v < lo || v > hi { None } else { Some(vec![v, y.clone(), z.clone()]) }
        })), Box::new(move |x, y, z| {
            format!("{{ let s = {}; let (p, q) = (s.b, s.c); (s.a, p, q) }}", mkc(&format!("{x} + {y}"), y, z))
        }));
    }
    // --- explicit list of constructs the evaluator does not support (UnsupportedConstant expected)
    let mut unsupported = |name: &str, e: E3| {
        v.push(Tpl { name: name.into(), items: vec![], e, n: 3, exp: Exp::Sel(vec![1, 0, 2]), unsupported: true });
    };
    unsupported("assign", Box::new(|x, y, z| format!("{{ let mut a = {x}; let b = a; a = {y}; (a, b, {z}) }}")));
    unsupported("loop", Box::new(|x, y, z| format!("{{ let r = loop {{ break ({y}, {x}, {z}); }}; r }}")));
    // a block without a tail expression (here: the unit-valued `if` body) is not const-evaluable
    unsupported("ifunit", Box::new(|x, y, z| format!("{{ if {x} == {y} {{ }}; ({y}, {x}, {z}) }}")));
    unsupported("while", Box::new(|x, y, z| format!("{{ let mut i = 0_u8; while i != 1 {{ i = 1; }}; ({y}, {x}, {z}) }}")));
    v
}

fn gen_aggr(rng: &mut Rng, thorough: bool, out: &mut Vec<Case>) {
    let n = if thorough { 8 } else { 2 };
    for t in [Ty::Felt, Ty::U8, Ty::I16, Ty::U64, Ty::U128, Ty::U256, Ty::I128] {
        let tn = t.name();
        let bs = boundary(t);
        // consts referring to other consts' members (Expr::Constant + MemberAccess), nested
        for i in 0..n {
            let vals: Vec<BigInt> = (0..3).map(|j| if (i + j) % 2 == 0 { rng.pick(&bs).clone() } else { random_operand(rng, t) }).collect();
            let (lx, ly, lz) = (t.lit(&vals[0]), t.lit(&vals[1]), t.lit(&vals[2]));
            let id = format!("{tn}_{i}");
            let d = "#[derive(Copy, Drop)]\n";
            let items = vec![
                (format!("S3_{tn}"), format!("{d}struct S3_{tn} {{ a: {tn}, b: {tn}, c: {tn} }}")),
                (format!("N_{tn}"), format!("{d}struct N_{tn} {{ s: S3_{tn}, t: {tn} }}")),
                (format!("KS_{id}"), format!("const KS_{id}: S3_{tn} = S3_{tn} {{ c: {lz}, a: {lx}, b: {ly} }};")),
                (format!("KN_{id}"), format!("const KN_{id}: N_{tn} = N_{tn} {{ t: KS_{id}.c, s: KS_{id} }};")),
            ];
            let rty = format!("({tn}, {tn}, {tn})");
            let by_const = format!("(KN_{id}.s.b, KN_{id}.t, KS_{id}.a)");
            out.push(Case {
                leg: "aggr",
                coq: false,
                coq_head: format!("aggr constref {tn} {} {} {}", vals[0], vals[1], vals[2]),
                nontrivial: true,
                rty: rty.clone(),
                shape: Shape::Tup(t, 3),
                const_expr: Some(by_const.clone()),
                constfn: Some((
                    format!("cf_ag_constref_{tn}"),
                    format!("const fn cf_ag_constref_{tn}(n: N_{tn}, s: S3_{tn}) -> {rty} {{ (n.s.b, n.t, s.a) }}"),
                    format!("cf_ag_constref_{tn}(KN_{id}, KS_{id})"),
                )),
                twin: Some((
                    format!("f_ag_constref_{tn}"),
                    format!("fn f_ag_constref_{tn}(x: {tn}, y: {tn}, z: {tn}) -> {rty} {{ let s = S3_{tn} {{ c: z, a: x, b: y }}; let n = N_{tn} {{ t: s.c, s }}; (n.s.b, n.t, s.a) }}"),
                )),
                args: [t.cells(&vals[0]), t.cells(&vals[1]), t.cells(&vals[2])].concat(),
                g: Some((String::new(), by_const, vec![])),
                items,
                fns: vec![],
                feature: false,
                expect: Some(Some(vec![vals[1].clone(), vals[2].clone(), vals[0].clone()])),
                unsupported_ok: false,
                tag: "aggr:constref".into(),
                class: "aggr",
            });
        }
        for tpl in aggr_templates(t) {
            for i in 0..n {
                // three pairwise distinct operands whenever possible (a permutation must be visible)
                let mut vals: Vec<BigInt> = vec![];
                let mut tries = 0;
                while vals.len() < 3 && tries < 50 {
                    tries += 1;
                    let c = if (i + tries) % 2 == 0 { rng.pick(&bs).clone() } else { random_operand(rng, t) };
                    if !vals.contains(&c) {
                        vals.push(c);
                    }
                }
                while vals.len() < 3 {
                    vals.push(BigInt::from(vals.len() as u8 + 1));
                }
                let (x, y, z) = (&vals[0], &vals[1], &vals[2]);
                let (lx, ly, lz) = (t.lit(x), t.lit(y), t.lit(z));
                let rty = if tpl.n == 1 { tn.to_string() } else { format!("({})", vec![tn; tpl.n].join(", ")) };
                let shape = if tpl.n == 1 { Shape::Int(t) } else { Shape::Tup(t, tpl.n) };
                let fname = format!("ag_{}_{tn}", tpl.name);
                let expect = match &tpl.exp {
                    Exp::Sel(ix) => Some(ix.iter().map(|&k| vals[k].clone()).collect::<Vec<_>>()),
                    Exp::Fun(f) => f(x, y, z),
                };
                out.push(Case {
                    leg: "aggr",
                    coq: false,
                    coq_head: format!("aggr {} {tn} {} {} {}", tpl.name, x, y, z),
                    nontrivial: true,
                    rty: rty.clone(),
                    shape,
                    const_expr: Some((tpl.e)(&lx, &ly, &lz)),
                    constfn: Some((
                        format!("cf_{fname}"),
                        format!("const fn cf_{fname}(x: {tn}, y: {tn}, z: {tn}) -> {rty} {{ {} }}", (tpl.e)("x", "y", "z")),
                        format!("cf_{fname}({lx}, {ly}, {lz})"),
                    )),
                    twin: Some((
                        format!("f_{fname}"),
                        format!("fn f_{fname}(x: {tn}, y: {tn}, z: {tn}) -> {rty} {{ {} }}", (tpl.e)("x", "y", "z")),
                    )),
                    args: [t.cells(x), t.cells(y), t.cells(z)].concat(),
                    g: Some((String::new(), (tpl.e)(&lx, &ly, &lz), vec![])),
                    items: tpl.items.clone(),
                    fns: vec![],
                    feature: false,
                    expect: Some(expect),
                    unsupported_ok: tpl.unsupported,
                    tag: format!("aggr:{}", tpl.name),
                    class: if tpl.unsupported { "aggr_unsupported_list" } else { "aggr" },
                });
            }
        }
    }
}


// ---------------------------------------------------------------------------------------------
// leg lfn: the libfunc-specific rules of the const folder (ConstFoldingLibfuncInfo) that compare
// against a numeric bound not covered by the arithmetic / cast legs:
//   storage_base_address_from_felt252 (wraps at ADDR_BOUND = 2^251 - 256),
//   contract_address / class_hash try_from_felt252 and to_felt252 (downcast_fns / upcast_fns, range
//   [0, 2^251 - 1]; also const-evaluable), array_new/append/len/get/pop_front with known contents
//   (index against the known length), panic_with_felt252 -> panic_with_const_felt252,
//   panic_with_byte_array (31-byte word boundary), into_box / unbox of constants.
// f_lit() has the literal in the body, f_args(x) receives it at run time; folding on / off.
// ---------------------------------------------------------------------------------------------
fn lfn_values(bounds: &[BigInt]) -> Vec<BigInt> {
    let p = vcommon::stark_prime();
    let mut s: BTreeSet<BigInt> = BTreeSet::new();
    for v in [BigInt::zero(), BigInt::one(), BigInt::from(-1), &p - 1, BigInt::from(2), BigInt::one() - &p] {
        s.insert(v);
    }
    for b in bounds {
        for d in -1..=1 {
            s.insert(b + d);
            s.insert(b + d - &p); // the same field elements written as negative literals
            s.insert(b * 2 + d);
        }
    }
    s.into_iter().filter(|v| *v > -&p && *v < p).collect()
}

fn lfn_case(name: &str, rty: &str, shape: Shape, pty: Ty, e: &dyn Fn(&str) -> String, x: &BigInt, with_const: bool, expect: Option<Option<Vec<BigInt>>>) -> Case {
    let l = pty.lit(x);
    let pn = pty.name();
    Case {
        leg: "lfn",
        coq: false,
        coq_head: format!("lfn {name} {}", x),
        nontrivial: true,
        rty: rty.into(),
        shape,
        const_expr: if with_const { Some(e(&l)) } else { None },
        constfn: if with_const {
            Some((format!("cf_lfn_{name}"), format!("const fn cf_lfn_{name}(x: {pn}) -> {rty} {{ {} }}", e("x")), format!("cf_lfn_{name}({l})")))
        } else {
            None
        },
        twin: Some((format!("f_lfn_{name}"), format!("fn f_lfn_{name}(x: {pn}) -> {rty} {{ {} }}", e("x")))),
        args: pty.cells(x),
        g: Some((String::new(), e(&l), vec![])),
        items: vec![],
        fns: vec![],
        feature: true,
        expect,
        unsupported_ok: false,
        tag: format!("lfn:{name}"),
        class: "lfn",
    }
}

fn gen_lfn(rng: &mut Rng, thorough: bool, out: &mut Vec<Case>) {
    let p = vcommon::stark_prime();
    let two251: BigInt = BigInt::one() << 251u32;
    let addr_bound: BigInt = &two251 - 256;
    let two128: BigInt = BigInt::one() << 128u32;
    let norm = |x: &BigInt| ((x % &p) + &p) % &p;
    let mut vals = lfn_values(&[addr_bound.clone(), two251.clone(), two128.clone()]);
    for _ in 0..(if thorough { 24 } else { 6 }) {
        vals.push(random_operand(rng, Ty::Felt));
    }
    let f = Shape::Int(Ty::Felt);
    for x in &vals {
        let a = norm(x);
        // storage_base_address_from_felt252: x mod ADDR_BOUND (P < 2 * ADDR_BOUND)
        let base = if a >= addr_bound { &a - &addr_bound } else { a.clone() };
        out.push(lfn_case("sbase", "felt252", f.clone(), Ty::Felt,
            &|v| format!("{{ let r: felt252 = starknet::storage_access::storage_base_address_from_felt252({v}).into(); r }}"),
            x, false, Some(Some(vec![base.clone()]))));
        out.push(lfn_case("sbaseoff", "felt252", f.clone(), Ty::Felt,
            &|v| format!("{{ let r: felt252 = starknet::storage_access::storage_address_from_base_and_offset(starknet::storage_access::storage_base_address_from_felt252({v}), 255_u8).into(); r }}"),
            x, false, Some(Some(vec![norm(&(&base + 255))]))));
        // contract address / class hash: [0, 2^251 - 1]
        for (nm, ty) in [("caddr", "starknet::ContractAddress"), ("chash", "starknet::ClassHash")] {
            let exp = if a < two251 { vec![BigInt::zero(), a.clone()] } else { vec![BigInt::one()] };
            out.push(lfn_case(nm, "Option<felt252>", Shape::Opt(Ty::Felt), Ty::Felt,
                &|v| format!("{{ let o: Option<{ty}> = {v}.try_into(); match o {{ Option::Some(a) => {{ let r: felt252 = a.into(); Option::Some(r) }}, Option::None => Option::None }} }}"),
                x, true, Some(Some(exp))));
        }
        // panic_with_felt252 of a constant
        out.push(lfn_case("panicfelt", "felt252", f.clone(), Ty::Felt, &|v| format!("core::panic_with_felt252({v})"), x, false, None));
        // into_box / unbox of a constant
        out.push(lfn_case("boxfelt", "felt252", f.clone(), Ty::Felt, &|v| format!("core::box::BoxTrait::new({v}).unbox()"), x, false, Some(Some(vec![a.clone()]))));
    }
    // arrays with known contents: index against the known length
    let elems: Vec<BigInt> = (0..3).map(|_| random_operand(rng, Ty::U64)).collect();
    let lits: Vec<String> = elems.iter().map(|e| Ty::U64.lit(e)).collect();
    let arr = format!("array![{}]", lits.join(", "));
    let u32max: BigInt = (BigInt::one() << 32u32) - 1;
    for i in [BigInt::zero(), BigInt::one(), BigInt::from(2), BigInt::from(3), BigInt::from(4), u32max.clone(), &u32max - 1] {
        let iu = i.to_string().parse::<usize>().unwrap_or(usize::MAX);
        let exp = if iu < 3 { Some(vec![elems[iu].clone()]) } else { None };
        let arr2 = arr.clone();
        out.push(lfn_case("arrat", "u64", Shape::Int(Ty::U64), Ty::U32, &move |v| format!("{{ let arr = {arr2}; *arr.at({v}) }}"), &i, false, Some(exp.clone())));
        let arr2 = arr.clone();
        out.push(lfn_case("spanget", "u64", Shape::Int(Ty::U64), Ty::U32,
            &move |v| format!("{{ let arr = {arr2}; match arr.span().get({v}) {{ Option::Some(b) => *b.unbox(), Option::None => 77_u64 }} }}"),
            &i, false, Some(Some(vec![if iu < 3 { elems[iu].clone() } else { BigInt::from(77) }]))));
        let arr2 = arr.clone();
        out.push(lfn_case("arrlen", "u32", Shape::Int(Ty::U32), Ty::U32,
            &move |v| format!("{{ let mut arr = {arr2}; arr.append(1_u64); if {v} < arr.len() {{ arr.len() + {v} % 2 }} else {{ arr.len() }} }}"),
            &i, false, Some(Some(vec![if iu < 4 { BigInt::from(4 + iu % 2) } else { BigInt::from(4) }]))));
    }
    for k in 0..3usize {
        let arr2 = format!("array![{}]", lits[..k].join(", "));
        let exp = if k == 0 { BigInt::from(5) } else { elems[0].clone() };
        out.push(lfn_case(&format!("popfront{k}"), "u64", Shape::Int(Ty::U64), Ty::U64,
            &move |v| format!("{{ let mut arr: Array<u64> = {arr2}; match arr.pop_front() {{ Option::Some(e) => e, Option::None => {v} }} }}"),
            &BigInt::from(5), false, Some(Some(vec![exp]))));
    }
    // panic with a ByteArray: the folder rewrites the panic data (31-byte word boundary)
    for len in [0usize, 1, 30, 31, 32, 61, 62, 63] {
        let text: String = (0..len).map(|i| (b'a' + (i % 26) as u8) as char).collect();
        out.push(lfn_case(&format!("panicba{len}"), "felt252", f.clone(), Ty::Felt,
            &move |v| format!("{{ if {v} == 12345 {{ 0 }} else {{ panic!(\"{text}\") }} }}"),
            &BigInt::from(len), false, Some(None)));
    }
}

pub fn generate(rng: &mut Rng, thorough: bool) -> (Vec<Case>, BTreeMap<String, usize>) {
    let mut cases: Vec<Case> = vec![];
    let mut seen: BTreeSet<String> = BTreeSet::new();
    let mut push = |c: Case, cases: &mut Vec<Case>| {
        if seen.insert(format!("{}:{}", c.leg, c.coq_head)) {
            cases.push(c);
        }
    };
    let (n_bb, n_rand) = if thorough { (100, 70) } else { (14, 8) };
    for t in ALL_TYS {
        let bs = boundary(t);
        for op in ALL_OPS {
            if !op.supported(t) {
                continue;
            }
            let mut local: Vec<Case> = vec![];
            if op.unary() {
                for x in &bs {
                    local.push(ops_case(op, t, x, &BigInt::zero()));
                }
                for _ in 0..n_rand {
                    let x = random_operand(rng, t);
                    local.push(ops_case(op, t, &x, &BigInt::zero()));
                }
            } else {
                // boundary x boundary (sampled), boundary/random mixes, random x random
                for _ in 0..n_bb {
                    let x = rng.pick(&bs).clone();
                    let y = rng.pick(&bs).clone();
                    local.push(ops_case(op, t, &x, &y));
                }
                for i in 0..n_rand {
                    let x = if i % 3 == 0 { rng.pick(&bs).clone() } else { random_operand(rng, t) };
                    let y = if i % 3 == 1 { rng.pick(&bs).clone() } else { random_operand(rng, t) };
                    local.push(ops_case(op, t, &x, &y));
                }
                // always: the corner cases the property text names
                let (lo, hi) = (t.min(), t.max());
                let m1 = BigInt::from(-1);
                let mut fixed: Vec<(BigInt, BigInt)> = vec![
                    (hi.clone(), BigInt::one()),
                    (lo.clone(), BigInt::one()),
                    (hi.clone(), hi.clone()),
                    (lo.clone(), lo.clone()),
                    (BigInt::zero(), BigInt::zero()),
                    (BigInt::from(7), BigInt::from(3)),
                ];
                if t == Ty::U256 {
                    let w: BigInt = BigInt::one() << 128u32;
                    fixed.extend([(w.clone(), w.clone()), (hi.clone(), w.clone()), (&w * 3, &w - 1), (&w - 1, w.clone())]);
                }
                if t.is_felt() {
                    fixed.extend([(hi.clone(), m1.clone()), (m1.clone(), hi.clone()), (&hi / 2, &hi / 2 + 1)]);
                }
                if t.signed() || t.is_felt() {
                    fixed.extend([
                        (lo.clone(), m1.clone()),
                        (&lo + 1, m1.clone()),
                        (BigInt::from(-7), BigInt::from(3)),
                        (BigInt::from(7), BigInt::from(-3)),
                        (BigInt::from(-7), BigInt::from(-3)),
                        (lo.clone(), hi.clone()),
                        (hi.clone(), lo.clone()),
                    ]);
                }
                for (x, y) in fixed {
                    local.push(ops_case(op, t, &x, &y));
                }
                // top up result classes that got < 2 % of this (operator, type)'s cases
                let total = local.len();
                let count = |cl: &str, l: &Vec<Case>| l.iter().filter(|c| c.class == cl).count();
                let want = total / 50 + 1;
                if matches!(op, Op::Div | Op::Rem | Op::DivRem) && count("div_by_zero", &local) < want {
                    for _ in 0..want {
                        let x = random_operand(rng, t);
                        local.push(ops_case(op, t, &x, &BigInt::zero()));
                    }
                }
                if matches!(op, Op::Add | Op::Sub | Op::Mul) && !t.is_felt() {
                    for cl in ["overflow", "underflow", "in_range"] {
                        if cl == "underflow" && !t.signed() && op != Op::Sub {
                            continue;
                        }
                        let mut tries = 0;
                        while count(cl, &local) < want && tries < 400 {
                            tries += 1;
                            let x = random_operand(rng, t);
                            let y = random_operand(rng, t);
                            if classify(op, t, &x, &y) == cl {
                                local.push(ops_case(op, t, &x, &y));
                            }
                        }
                    }
                }
            }
            for c in local {
                push(c, &mut cases);
            }
        }
    }
    for (op, coq) in [
        ("!", "BNot"), ("&", "BAnd"), ("|", "BOr"), ("^", "BXor"), ("==", "BEq"), ("!=", "BNe"),
        ("&&", "BAndAnd"), ("||", "BOrOr"),
    ] {
        for a in [false, true] {
            for b in [false, true] {
                push(bool_case(op, coq, a, b), &mut cases);
            }
        }
    }
    let mut extra: Vec<Case> = vec![];
    gen_casts(rng, thorough, &mut extra);
    gen_lf(rng, thorough, &mut extra);
    gen_expr(rng, thorough, &mut extra);
    gen_part(rng, thorough, &mut extra);
    gen_aggr(rng, thorough, &mut extra);
    gen_lfn(rng, thorough, &mut extra);
    for c in extra {
        push(c, &mut cases);
    }
    let mut dist: BTreeMap<String, usize> = BTreeMap::new();
    for c in &cases {
        *dist.entry(format!("leg/{}", c.leg)).or_default() += 1;
        *dist.entry(format!("predicted/{}", c.class)).or_default() += 1;
    }
    (cases, dist)
}
