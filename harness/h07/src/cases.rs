//! Case generation: types, operators, operand sets (boundary x seeded random), program text.
use std::collections::{BTreeMap, BTreeSet};

use num_bigint::BigInt;
use num_traits::{One, Signed, Zero};
use vcommon::Rng;

#[derive(Clone, Copy, PartialEq, Eq, Hash, Debug, PartialOrd, Ord)]
pub enum Ty {
    U8,
    U16,
    U32,
    U64,
    U128,
    U256,
    I8,
    I16,
    I32,
    I64,
    I128,
    Felt,
}
pub const ALL_TYS: [Ty; 12] = [
    Ty::U8, Ty::U16, Ty::U32, Ty::U64, Ty::U128, Ty::U256, Ty::I8, Ty::I16, Ty::I32, Ty::I64, Ty::I128, Ty::Felt,
];
impl Ty {
    pub fn name(self) -> &'static str {
        match self {
            Ty::U8 => "u8", Ty::U16 => "u16", Ty::U32 => "u32", Ty::U64 => "u64", Ty::U128 => "u128",
            Ty::U256 => "u256", Ty::I8 => "i8", Ty::I16 => "i16", Ty::I32 => "i32", Ty::I64 => "i64",
            Ty::I128 => "i128", Ty::Felt => "felt252",
        }
    }
    pub fn coq(self) -> &'static str {
        match self {
            Ty::U8 => "U8", Ty::U16 => "U16", Ty::U32 => "U32", Ty::U64 => "U64", Ty::U128 => "U128",
            Ty::U256 => "U256", Ty::I8 => "I8", Ty::I16 => "I16", Ty::I32 => "I32", Ty::I64 => "I64",
            Ty::I128 => "I128", Ty::Felt => "Felt",
        }
    }
    pub fn signed(self) -> bool {
        matches!(self, Ty::I8 | Ty::I16 | Ty::I32 | Ty::I64 | Ty::I128)
    }
    pub fn is_felt(self) -> bool {
        self == Ty::Felt
    }
    pub fn bits(self) -> u32 {
        match self {
            Ty::U8 | Ty::I8 => 8, Ty::U16 | Ty::I16 => 16, Ty::U32 | Ty::I32 => 32, Ty::U64 | Ty::I64 => 64,
            Ty::U128 | Ty::I128 => 128, Ty::U256 => 256, Ty::Felt => 252,
        }
    }
    /// Smallest literal of the type (felt252 literals are signed: -(P-1)).
    pub fn min(self) -> BigInt {
        if self.is_felt() {
            BigInt::one() - vcommon::stark_prime()
        } else if self.signed() {
            -(BigInt::one() << (self.bits() - 1))
        } else {
            BigInt::zero()
        }
    }
    pub fn max(self) -> BigInt {
        if self.is_felt() {
            vcommon::stark_prime() - 1
        } else if self.signed() {
            (BigInt::one() << (self.bits() - 1)) - 1
        } else {
            (BigInt::one() << self.bits()) - 1
        }
    }
    pub fn n_cells(self) -> usize {
        if self == Ty::U256 { 2 } else { 1 }
    }
    pub fn lit(self, v: &BigInt) -> String {
        if v.is_negative() { format!("({}_{})", v, self.name()) } else { format!("{}_{}", v, self.name()) }
    }
    /// Run-time cells of a value of the type (as integers, reduced mod P by the runner glue).
    pub fn cells(self, v: &BigInt) -> Vec<BigInt> {
        if self == Ty::U256 {
            let mask = (BigInt::one() << 128) - 1;
            vec![v & &mask, v >> 128]
        } else {
            vec![v.clone()]
        }
    }
}

#[derive(Clone, Debug, PartialEq, Eq)]
pub enum Shape {
    Int(Ty),
    Bool,
    Pair(Ty),
    /// Option<T> (Some = variant 0)
    Opt(Ty),
    /// Option<NonZero<T>>
    OptNz(Ty),
    /// U128sFromFelt252Result
    Words,
}

#[derive(Clone, Debug)]
pub struct Case {
    pub leg: &'static str,
    /// leading fields of the Coq case tuple (identifies the case)
    pub coq_head: String,
    pub nontrivial: bool,
    /// Cairo result type
    pub rty: String,
    pub shape: Shape,
    /// expression over literals for `const A_k: R = ...;` and `fn g_k() -> R { ... }`
    pub lit_expr: String,
    /// (name, definition) of the const fn, and the call over literals
    pub constfn: Option<(String, String, String)>,
    /// (name, definition) of the non-const twin taking the operands as parameters
    pub twin: (String, String),
    /// run-time argument cells of the twin
    pub args: Vec<BigInt>,
    /// tag used for known-finding fingerprints
    pub tag: String,
    /// predicted class, for the distribution report only
    pub class: &'static str,
}
impl Case {
    pub fn replay_program(&self) -> String {
        format!(
            "// consts crate\n{}\nconst A: {} = {};\n{}\n// twins crate\n{}\nfn g() -> {} {{ {} }}\n",
            self.constfn.as_ref().map(|c| c.1.clone()).unwrap_or_default(),
            self.rty,
            self.lit_expr,
            self.constfn.as_ref().map(|c| format!("const B: {} = {};", self.rty, c.2)).unwrap_or_default(),
            self.twin.1,
            self.rty,
            self.lit_expr
        )
    }
    pub fn fingerprint(&self, why: &str) -> String {
        let kind = if why.contains("but the run panics") {
            "const-value-run-panics"
        } else if why.contains("but the run returns") {
            "const-fails-run-returns"
        } else if why.contains("run variants differ") {
            "run-variants-differ"
        } else if why.contains("!= run-time value") {
            "value-mismatch"
        } else {
            "other"
        };
        format!("{}:{}", self.tag, kind)
    }
}

#[derive(Clone, Copy, PartialEq, Eq, Debug, PartialOrd, Ord)]
pub enum Op {
    Neg, Add, Sub, Mul, Div, Rem, And, Or, Xor, Eq, Ne, Lt, Le, Gt, Ge, DivRem,
}
pub const ALL_OPS: [Op; 16] = [
    Op::Neg, Op::Add, Op::Sub, Op::Mul, Op::Div, Op::Rem, Op::And, Op::Or, Op::Xor, Op::Eq, Op::Ne, Op::Lt,
    Op::Le, Op::Gt, Op::Ge, Op::DivRem,
];
impl Op {
    pub fn coq(self) -> &'static str {
        match self {
            Op::Neg => "ONeg", Op::Add => "OAdd", Op::Sub => "OSub", Op::Mul => "OMul", Op::Div => "ODiv",
            Op::Rem => "ORem", Op::And => "OAnd", Op::Or => "OOr", Op::Xor => "OXor", Op::Eq => "OEq",
            Op::Ne => "ONe", Op::Lt => "OLt", Op::Le => "OLe", Op::Gt => "OGt", Op::Ge => "OGe",
            Op::DivRem => "ODivRem",
        }
    }
    pub fn name(self) -> &'static str {
        match self {
            Op::Neg => "neg", Op::Add => "add", Op::Sub => "sub", Op::Mul => "mul", Op::Div => "div",
            Op::Rem => "rem", Op::And => "and", Op::Or => "or", Op::Xor => "xor", Op::Eq => "eq",
            Op::Ne => "ne", Op::Lt => "lt", Op::Le => "le", Op::Gt => "gt", Op::Ge => "ge",
            Op::DivRem => "divrem",
        }
    }
    pub fn unary(self) -> bool {
        self == Op::Neg
    }
    /// (operator, type) pairs that exist in the corelib and are const-evaluable.
    pub fn supported(self, t: Ty) -> bool {
        match self {
            Op::Neg => t.signed() || t.is_felt(),
            Op::Add | Op::Sub | Op::Mul | Op::Eq | Op::Ne => true,
            Op::Div | Op::Rem | Op::DivRem | Op::Lt | Op::Le | Op::Gt | Op::Ge => !t.is_felt(),
            Op::And | Op::Or | Op::Xor => !t.signed() && !t.is_felt(),
        }
    }
    pub fn expr(self, a: &str, b: &str) -> String {
        match self {
            Op::Neg => format!("-{a}"),
            Op::Add => format!("{a} + {b}"),
            Op::Sub => format!("{a} - {b}"),
            Op::Mul => format!("{a} * {b}"),
            Op::Div => format!("{a} / {b}"),
            Op::Rem => format!("{a} % {b}"),
            Op::And => format!("{a} & {b}"),
            Op::Or => format!("{a} | {b}"),
            Op::Xor => format!("{a} ^ {b}"),
            Op::Eq => format!("{a} == {b}"),
            Op::Ne => format!("{a} != {b}"),
            Op::Lt => format!("{a} < {b}"),
            Op::Le => format!("{a} <= {b}"),
            Op::Gt => format!("{a} > {b}"),
            Op::Ge => format!("{a} >= {b}"),
            Op::DivRem => format!("DivRem::div_rem({a}, {b}.try_into().unwrap())"),
        }
    }
    fn result(self, t: Ty) -> (String, Shape) {
        match self {
            Op::Eq | Op::Ne | Op::Lt | Op::Le | Op::Gt | Op::Ge => ("bool".into(), Shape::Bool),
            Op::DivRem => (format!("({0}, {0})", t.name()), Shape::Pair(t)),
            _ => (t.name().into(), Shape::Int(t)),
        }
    }
}

pub fn coq_z(v: &BigInt) -> String {
    let big = v.bits() > 60;
    let body = if big { format!("0x{}", v.magnitude().to_str_radix(16)) } else { v.magnitude().to_string() };
    if v.is_negative() { format!("(-{body})") } else { body }
}

/// Boundary operands of a type: {0,1,2,MAX-1,MAX,MIN,MIN+1,-1, 2^k, 2^k +- 1} within the literal range.
pub fn boundary(t: Ty) -> Vec<BigInt> {
    let (lo, hi) = (t.min(), t.max());
    let mut s: BTreeSet<BigInt> = BTreeSet::new();
    let mut add = |v: BigInt| {
        if v >= lo && v <= hi {
            s.insert(v);
        }
    };
    for v in [0i64, 1, 2, 3, -1, -2] {
        add(BigInt::from(v));
    }
    for d in 0..2 {
        add(&hi - d);
        add(&lo + d);
    }
    let b = t.bits();
    let mut ks: Vec<u32> = vec![b / 2, b - 1, b - 2, 7, 8];
    if b > 64 {
        ks.extend([63, 64, 127, 128]);
    }
    if t.is_felt() {
        ks.extend([250, 251]);
        let p = vcommon::stark_prime();
        // around P/2 (the point where the signed reading of a felt flips)
        for d in -1..=1 {
            add(&p / 2 + d);
            add(BigInt::from(d) - &p / 2);
        }
    }
    for k in ks {
        if k >= b + 1 {
            continue;
        }
        let p = BigInt::one() << k;
        for d in -1..=1 {
            add(&p + d);
            add(-&p + d);
        }
    }
    s.into_iter().collect()
}

pub fn random_operand(rng: &mut Rng, t: Ty) -> BigInt {
    let (lo, hi) = (t.min(), t.max());
    let bl = rng.below(t.bits() as u64 + 1) as u32;
    let mut v = if bl == 0 { BigInt::zero() } else { rng.bits(bl) };
    if (t.signed() || t.is_felt()) && rng.bool() {
        v = -v;
    }
    if v < lo {
        v = lo;
    }
    if v > hi {
        v = hi;
    }
    v
}

/// Predicted class of a case, used only to steer and report the distribution (not an oracle).
fn classify(op: Op, t: Ty, x: &BigInt, y: &BigInt) -> &'static str {
    if t.is_felt() {
        return "felt";
    }
    let (lo, hi) = (t.min(), t.max());
    let v = match op {
        Op::Neg => -x,
        Op::Add => x + y,
        Op::Sub => x - y,
        Op::Mul => x * y,
        Op::Div | Op::Rem | Op::DivRem => {
            if y.is_zero() {
                return "div_by_zero";
            }
            if t.signed() && *x == lo && *y == BigInt::from(-1) {
                return "min_div_minus_one";
            }
            return "in_range";
        }
        Op::And | Op::Or | Op::Xor => return "in_range",
        _ => return "compare",
    };
    if v < lo {
        "underflow"
    } else if v > hi {
        "overflow"
    } else {
        "in_range"
    }
}

fn ops_case(op: Op, t: Ty, x: &BigInt, y: &BigInt) -> Case {
    let (rty, shape) = op.result(t);
    let tn = t.name();
    let fname = format!("{}_{}", op.name(), tn);
    let params = if op.unary() { format!("x: {tn}") } else { format!("x: {tn}, y: {tn}") };
    let body = op.expr("x", "y");
    let (la, lb) = (t.lit(x), t.lit(y));
    let call_args = if op.unary() { la.clone() } else { format!("{la}, {lb}") };
    let mut args = t.cells(x);
    if !op.unary() {
        args.extend(t.cells(y));
    }
    let small = |v: &BigInt| v.is_zero() || v.is_one();
    Case {
        leg: "ops",
        coq_head: format!("{}, {}, {}, {}", op.coq(), t.coq(), coq_z(x), if op.unary() { "0".into() } else { coq_z(y) }),
        nontrivial: !(small(x) && (op.unary() || small(y))),
        rty: rty.clone(),
        shape,
        lit_expr: op.expr(&la, &lb),
        constfn: Some((
            format!("cf_{fname}"),
            format!("const fn cf_{fname}({params}) -> {rty} {{ {body} }}"),
            format!("cf_{fname}({call_args})"),
        )),
        twin: (format!("f_{fname}"), format!("fn f_{fname}({params}) -> {rty} {{ {body} }}")),
        args,
        tag: format!(
            "{}:{}:{}",
            op.name(),
            if t.signed() { "signed" } else if t.is_felt() { "felt" } else { "unsigned" },
            classify(op, t, x, y)
        ),
        class: classify(op, t, x, y),
    }
}

fn bool_case(op: &'static str, coq: &'static str, a: bool, b: bool) -> Case {
    let unary = op == "!";
    let e = |x: &str, y: &str| if unary { format!("!{x}") } else { format!("{x} {op} {y}") };
    let name = match op {
        "!" => "not", "&" => "and", "|" => "or", "^" => "xor", "==" => "eq", "!=" => "ne", "&&" => "andand",
        _ => "oror",
    };
    let params = if unary { "x: bool".to_string() } else { "x: bool, y: bool".to_string() };
    let (la, lb) = (a.to_string(), b.to_string());
    let mut args = vec![BigInt::from(a as u8)];
    if !unary {
        args.push(BigInt::from(b as u8));
    }
    Case {
        leg: "bool",
        coq_head: format!("{coq}, {}, {}", a, if unary { false } else { b }),
        nontrivial: true,
        rty: "bool".into(),
        shape: Shape::Bool,
        lit_expr: e(&la, &lb),
        constfn: Some((
            format!("cf_b{name}"),
            format!("const fn cf_b{name}({params}) -> bool {{ {} }}", e("x", "y")),
            format!("cf_b{name}({})", if unary { la.clone() } else { format!("{la}, {lb}") }),
        )),
        twin: (format!("f_b{name}"), format!("fn f_b{name}({params}) -> bool {{ {} }}", e("x", "y"))),
        args,
        tag: format!("bool:{name}"),
        class: "bool",
    }
}

pub fn generate(rng: &mut Rng, thorough: bool) -> (Vec<Case>, BTreeMap<String, usize>) {
    let mut cases: Vec<Case> = vec![];
    let mut seen: BTreeSet<String> = BTreeSet::new();
    let mut push = |c: Case, cases: &mut Vec<Case>| {
        if seen.insert(format!("{}:{}", c.leg, c.coq_head)) {
            cases.push(c);
        }
    };
    let (n_bb, n_rand) = if thorough { (160, 120) } else { (22, 12) };
    for t in ALL_TYS {
        let bs = boundary(t);
        for op in ALL_OPS {
            if !op.supported(t) {
                continue;
            }
            let mut local: Vec<Case> = vec![];
            if op.unary() {
                for x in &bs {
                    local.push(ops_case(op, t, x, &BigInt::zero()));
                }
                for _ in 0..n_rand {
                    let x = random_operand(rng, t);
                    local.push(ops_case(op, t, &x, &BigInt::zero()));
                }
            } else {
                // boundary x boundary (sampled), boundary/random mixes, random x random
                for _ in 0..n_bb {
                    let x = rng.pick(&bs).clone();
                    let y = rng.pick(&bs).clone();
                    local.push(ops_case(op, t, &x, &y));
                }
                for i in 0..n_rand {
                    let x = if i % 3 == 0 { rng.pick(&bs).clone() } else { random_operand(rng, t) };
                    let y = if i % 3 == 1 { rng.pick(&bs).clone() } else { random_operand(rng, t) };
                    local.push(ops_case(op, t, &x, &y));
                }
                // always: the corner cases the property text names
                let (lo, hi) = (t.min(), t.max());
                let m1 = BigInt::from(-1);
                let mut fixed: Vec<(BigInt, BigInt)> = vec![
                    (hi.clone(), BigInt::one()),
                    (lo.clone(), BigInt::one()),
                    (hi.clone(), hi.clone()),
                    (lo.clone(), lo.clone()),
                    (BigInt::zero(), BigInt::zero()),
                    (BigInt::from(7), BigInt::from(3)),
                ];
                if t.signed() || t.is_felt() {
                    fixed.extend([
                        (lo.clone(), m1.clone()),
                        (&lo + 1, m1.clone()),
                        (BigInt::from(-7), BigInt::from(3)),
                        (BigInt::from(7), BigInt::from(-3)),
                        (BigInt::from(-7), BigInt::from(-3)),
                        (lo.clone(), hi.clone()),
                        (hi.clone(), lo.clone()),
                    ]);
                }
                for (x, y) in fixed {
                    local.push(ops_case(op, t, &x, &y));
                }
                // top up result classes that got < 2 % of this (operator, type)'s cases
                let total = local.len();
                let count = |cl: &str, l: &Vec<Case>| l.iter().filter(|c| c.class == cl).count();
                let want = total / 50 + 1;
                if matches!(op, Op::Div | Op::Rem | Op::DivRem) && count("div_by_zero", &local) < want {
                    for _ in 0..want {
                        let x = random_operand(rng, t);
                        local.push(ops_case(op, t, &x, &BigInt::zero()));
                    }
                }
                if matches!(op, Op::Add | Op::Sub | Op::Mul) && !t.is_felt() {
                    for cl in ["overflow", "underflow", "in_range"] {
                        if cl == "underflow" && !t.signed() && op != Op::Sub {
                            continue;
                        }
                        let mut tries = 0;
                        while count(cl, &local) < want && tries < 400 {
                            tries += 1;
                            let x = random_operand(rng, t);
                            let y = random_operand(rng, t);
                            if classify(op, t, &x, &y) == cl {
                                local.push(ops_case(op, t, &x, &y));
                            }
                        }
                    }
                }
            }
            for c in local {
                push(c, &mut cases);
            }
        }
    }
    for (op, coq) in [
        ("!", "BNot"), ("&", "BAnd"), ("|", "BOr"), ("^", "BXor"), ("==", "BEq"), ("!=", "BNe"),
        ("&&", "BAndAnd"), ("||", "BOrOr"),
    ] {
        for a in [false, true] {
            for b in [false, true] {
                push(bool_case(op, coq, a, b), &mut cases);
            }
        }
    }
    let mut dist: BTreeMap<String, usize> = BTreeMap::new();
    for c in &cases {
        *dist.entry(format!("leg/{}", c.leg)).or_default() += 1;
        *dist.entry(format!("predicted/{}", c.class)).or_default() += 1;
    }
    (cases, dist)
}
