//! h07 -- tie and impl-level oracle for C07 (compile-time evaluation agrees with run-time evaluation).
//!
//! For every generated case (operator, type, operands) the harness builds
//!   * `const A_k: R = e[literals];`           -- value or diagnostics read through the semantic db,
//!   * `const B_k: R = cf(literals);`          -- the same through a `const fn`,
//!   * `fn f(x: T, y: T) -> R { e[x, y] }`     -- run with the operands passed at run time (nothing
//!                                               can fold), const folding enabled and disabled,
//!   * `fn g_k() -> R { e[literals] }`         -- literals in the body (the const folder fires),
//!                                               const folding enabled and disabled,
//! compiles them with /repo's compiler (corelib at /repo/corelib/src) and runs the functions with
//! `SierraCasmRunner`.
//!
//! Impl-level oracle (independent of the Coq model): const value == run-time value of every run,
//! compile-time diagnostic <=> run-time panic, all runs equal, const == const through const fn.
//! The same cases are printed as Coq case files for `C07/Corr.v`.
//!
//! usage: h07 <out-dir> <quick|thorough>
mod cases;
mod imp;

use std::collections::BTreeMap;
use std::fmt::Write as _;
use std::sync::Mutex;

use cases::{Case, Shape};
use imp::{ICres, RRes};
use num_bigint::BigInt;

fn json_str(s: &str) -> String {
    let mut o = String::from("\"");
    for c in s.chars() {
        match c {
            '"' => o.push_str("\\\""),
            '\\' => o.push_str("\\\\"),
            '\n' => o.push_str("\\n"),
            '\t' => o.push_str("\\t"),
            c if (c as u32) < 0x20 => write!(o, "\\u{:04x}", c as u32).unwrap(),
            c => o.push(c),
        }
    }
    o.push('"');
    o
}

/// One evaluated case.
pub struct Done {
    pub case: Case,
    pub c1: Option<ICres>,
    pub c2: Option<ICres>,
    /// (variant name, result): args/fold, args/nofold, lit/fold, lit/nofold
    pub runs: Vec<(&'static str, RRes)>,
    /// Sierra statements of g_k with const folding on / off
    pub g_size: [usize; 2],
}

/// The property itself on the implementation: `None` if the case satisfies C07.
fn oracle(d: &Done) -> Option<String> {
    let p = vcommon::stark_prime();
    if d.runs.is_empty() {
        return Some("no run".into());
    }
    let first = &d.runs[0].1;
    for (name, r) in &d.runs {
        if let RRes::Bad(s) = r {
            return Some(format!("run failed ({name}): {s}"));
        }
    }
    for (name, r) in &d.runs[1..] {
        if r != first {
            return Some(format!("run variants differ: {}={:?} vs {}={:?}", d.runs[0].0, first, name, r));
        }
    }
    // the mathematical expectation of the case, when the generator supplies one
    if let Some(exp) = &d.case.expect {
        let norm = |x: &BigInt| ((x % &p) + &p) % &p;
        match (exp, first) {
            (Some(vals), RRes::Ok(rv)) => {
                let cells = imp::rv_cells(rv);
                if cells.len() != vals.len() || cells.iter().zip(vals).any(|(a, b)| norm(a) != norm(b)) {
                    return Some(format!("run-time value {:?} != expected {:?}", cells, vals));
                }
            }
            (None, RRes::Panic(_)) => {}
            (Some(vals), r) => return Some(format!("expected {:?} but the run gives {:?}", vals, r)),
            (None, r) => return Some(format!("expected a panic but the run gives {:?}", r)),
        }
    }
    for (which, c) in [("const", &d.c1), ("const through const fn", &d.c2)] {
        let Some(c) = c else { continue };
        // constructs on the explicit not-const-evaluable list: a diagnostic is the expected answer
        if d.case.unsupported_ok && c.val.is_none() && !c.diags.is_empty() {
            continue;
        }
        match (&c.val, first) {
            (Some(v), RRes::Ok(rv)) => {
                if !c.diags.is_empty() {
                    return Some(format!("{which}: value {:?} together with diagnostics {:?}", v, c.diags));
                }
                let cells = imp::rv_cells(rv);
                match imp::cv_cells(v, &d.case.shape) {
                    Some(cc) => {
                        // felt252 const values are kept in (-P, P): equality is in the field
                        let felt = matches!(d.case.shape, Shape::Int(t) | Shape::Tup(t, _) if t.is_felt());
                        let norm = |x: &BigInt| if felt { ((x % &p) + &p) % &p } else { x.clone() };
                        if cc.len() != cells.len() || cc.iter().zip(&cells).any(|(a, b)| norm(a) != norm(b)) {
                            return Some(format!(
                                "{which}: compile-time value {:?} != run-time value {:?}",
                                cc, cells
                            ));
                        }
                    }
                    None => return Some(format!("{which}: value {:?} has not the shape of the result type", v)),
                }
            }
            (Some(v), RRes::Panic(data)) => {
                return Some(format!(
                    "{which}: compile-time value {:?} but the run panics with {}",
                    v,
                    imp::panic_text(data)
                ));
            }
            (None, RRes::Ok(rv)) => {
                return Some(format!(
                    "{which}: compile-time failure {:?} but the run returns {:?}",
                    c.diags, rv
                ));
            }
            (None, RRes::Panic(_)) => {
                if c.diags.is_empty() {
                    return Some(format!("{which}: no value and no diagnostic (run panics)"));
                }
            }
            (_, RRes::Bad(s)) => return Some(format!("run failed: {s}")),
        }
    }
    None
}

fn main() {
    let out = std::env::args().nth(1).expect("out dir");
    let tier = std::env::args().nth(2).unwrap_or_else(|| "quick".into());
    let thorough = tier == "thorough";
    vcommon::quiet_panics();
    std::fs::create_dir_all(&out).unwrap();
    let t0 = std::time::Instant::now();

    let mut rng = vcommon::Rng::from_env();
    let (cases, mut dist) = cases::generate(&mut rng, thorough);
    // debugging aid: H07_LEGS=aggr,part restricts the run to some legs
    let cases: Vec<Case> = match std::env::var("H07_LEGS") {
        Ok(l) if !l.is_empty() => cases.into_iter().filter(|c| l.split(',').any(|x| x == c.leg)).collect(),
        _ => cases,
    };
    let n_cases = cases.len();

    // ---- evaluate, in chunks, in parallel ----
    let chunk_size = 300;
    let chunks: Vec<(usize, Vec<Case>)> = {
        let mut v = vec![];
        let mut it = cases.into_iter().peekable();
        let mut i = 0;
        while it.peek().is_some() {
            v.push((i, it.by_ref().take(chunk_size).collect::<Vec<_>>()));
            i += 1;
        }
        v
    };
    let queue = Mutex::new(chunks.into_iter().collect::<std::collections::VecDeque<_>>());
    let results: Mutex<BTreeMap<usize, Result<Vec<Done>, String>>> = Mutex::new(BTreeMap::new());
    let n_threads = std::thread::available_parallelism().map(|n| n.get()).unwrap_or(4).clamp(2, 8);
    let prog_dir = format!("{out}/prog");
    let _ = std::fs::remove_dir_all(&prog_dir);
    std::fs::create_dir_all(&prog_dir).unwrap();
    std::thread::scope(|s| {
        for _ in 0..n_threads {
            s.spawn(|| {
                vcommon::quiet_panics();
                loop {
                    let Some((i, chunk)) = queue.lock().unwrap().pop_front() else { break };
                    let r: Result<Vec<Done>, String> = Ok(imp::eval_chunk_bisect(&prog_dir, i, chunk));
                    results.lock().unwrap().insert(i, r);
                }
            });
        }
    });
    let mut done: Vec<Done> = vec![];
    let mut harness_errors: Vec<String> = vec![];
    for (i, r) in results.into_inner().unwrap() {
        match r {
            Ok(v) => done.extend(v),
            Err(e) => harness_errors.push(format!("chunk {i}: {e}")),
        }
    }

    // ---- oracle ----
    let mut failures: Vec<String> = vec![];
    let mut n_fail = 0usize;
    let mut class_count: BTreeMap<String, usize> = BTreeMap::new();
    let mut distinct: std::collections::BTreeSet<String> = Default::default();
    let mut nontrivial = 0usize;
    for d in &done {
        let class = match &d.runs[0].1 {
            RRes::Ok(_) => "run_ok".to_string(),
            RRes::Panic(data) => format!("run_panic:{}", imp::panic_text(data)),
            RRes::Bad(_) => "run_bad".to_string(),
        };
        // strip the type prefix of corelib messages so that classes are per kind
        let class = class
            .replace("u8_", "T_").replace("u16_", "T_").replace("u32_", "T_").replace("u64_", "T_")
            .replace("u128_", "T_").replace("u256_", "T_").replace("i8_", "T_").replace("i16_", "T_")
            .replace("i32_", "T_").replace("i64_", "T_").replace("i128_", "T_");
        *class_count.entry(class).or_default() += 1;
        if distinct.insert(d.case.coq_head.clone()) && d.case.nontrivial {
            nontrivial += 1;
        }
        if let Some(why) = oracle(d) {
            n_fail += 1;
            if failures.len() < 40 {
                let mut o = String::from("{");
                write!(o, "\"why\": {}, ", json_str(&why)).unwrap();
                write!(o, "\"fingerprint\": {}, ", json_str(&d.case.fingerprint(&why))).unwrap();
                write!(o, "\"case\": {}, ", json_str(&d.case.coq_head)).unwrap();
                write!(o, "\"program\": {}, ", json_str(&d.case.replay_program())).unwrap();
                write!(o, "\"run_args\": {}, ", json_str(&format!("{:?}", d.case.args))).unwrap();
                write!(o, "\"const\": {}, ", json_str(&format!("{:?}", d.c1))).unwrap();
                write!(o, "\"const_through_const_fn\": {}, ", json_str(&format!("{:?}", d.c2))).unwrap();
                write!(o, "\"runs\": {}", json_str(&format!("{:?}", d.runs))).unwrap();
                o.push('}');
                failures.push(o);
            }
        }
    }
    std::fs::write(format!("{out}/oracle_failures.json"), format!("[{}]", failures.join(",\n"))).unwrap();

    // ---- Coq case shards ----
    let mut by_leg: BTreeMap<&'static str, Vec<&Done>> = BTreeMap::new();
    for d in &done {
        if d.case.coq {
            by_leg.entry(d.case.leg).or_default().push(d);
        }
    }
    let mut n_shards = 0;
    for (leg, ds) in &by_leg {
        for (si, shard) in ds.chunks(500).enumerate() {
            let mut s = String::new();
            s.push_str("From C07 Require Import Rt ConstEval Fold Corr.\n");
            writeln!(s, "Definition cases : list {leg}_case := [").unwrap();
            let lines: Vec<String> = shard.iter().map(|d| format!("  ({})", imp::coq_case(d))).collect();
            s.push_str(&lines.join(";\n"));
            s.push_str("\n].\n");
            writeln!(s, "Definition bad := Eval vm_compute in check_{leg} cases.\nPrint bad.").unwrap();
            std::fs::write(format!("{out}/{leg}_{si:03}.v"), s).unwrap();
            n_shards += 1;
        }
    }

    // ---- samples, summary ----
    let mut samples = String::new();
    let step = (done.len() / 12).max(1);
    for d in done.iter().step_by(step).take(12) {
        writeln!(
            samples,
            "{} | const {:?} | const-fn {:?} | runs {:?}",
            d.case.coq_head,
            d.c1.as_ref().map(|c| c.short()),
            d.c2.as_ref().map(|c| c.short()),
            d.runs.iter().map(|(n, r)| format!("{n}={}", r.short())).collect::<Vec<_>>()
        )
        .unwrap();
    }
    std::fs::write(format!("{out}/samples.txt"), samples).unwrap();

    for (k, v) in &class_count {
        dist.insert(format!("observed/{k}"), *v);
    }
    let mut sum = String::from("{");
    write!(sum, "\"cases_generated\": {n_cases}, \"cases_evaluated\": {}, ", done.len()).unwrap();
    write!(sum, "\"distinct_nontrivial\": {nontrivial}, ").unwrap();
    write!(sum, "\"const_items\": {}, ", done.iter().map(|d| d.c1.is_some() as usize + d.c2.is_some() as usize).sum::<usize>()).unwrap();
    write!(sum, "\"runs\": {}, ", done.iter().map(|d| d.runs.len()).sum::<usize>()).unwrap();
    write!(sum, "\"oracle_failures\": {n_fail}, \"shards\": {n_shards}, ").unwrap();
    let with_lits = done.iter().filter(|d| d.g_size[1] > 0 && (d.case.leg != "lf" || d.case.class != "lf_both_runtime")).count();
    let smaller = done.iter().filter(|d| d.g_size[1] > 0 && d.g_size[0] < d.g_size[1] && (d.case.leg != "lf" || d.case.class != "lf_both_runtime")).count();
    write!(sum, "\"functions_with_literal_operands\": {with_lits}, \"of_which_smaller_with_const_folding\": {smaller}, ").unwrap();
    write!(sum, "\"harness_errors\": [{}], ", harness_errors.iter().map(|e| json_str(e)).collect::<Vec<_>>().join(", ")).unwrap();
    write!(sum, "\"wall_s\": {:.1}, ", t0.elapsed().as_secs_f64()).unwrap();
    write!(
        sum,
        "\"distribution\": {{{}}}",
        dist.iter().map(|(k, v)| format!("{}: {}", json_str(k), v)).collect::<Vec<_>>().join(", ")
    )
    .unwrap();
    sum.push('}');
    std::fs::write(format!("{out}/summary.json"), sum).unwrap();
    println!(
        "h07: {} cases ({} legs, {} shards), {} oracle failures, {} harness errors, {:.1}s",
        done.len(),
        by_leg.len(),
        n_shards,
        n_fail,
        harness_errors.len(),
        t0.elapsed().as_secs_f64()
    );
    if !harness_errors.is_empty() {
        eprintln!("{}", harness_errors.join("\n"));
        std::process::exit(2);
    }
}
