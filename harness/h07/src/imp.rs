//! Running the implementation: semantic db queries for const items, compilation and execution of
//! the twins, decoding of results, Coq printing.
use std::collections::BTreeMap;
use std::fmt::Write as _;
use std::path::{Path, PathBuf};

use cairo_lang_compiler::db::RootDatabase;
use cairo_lang_compiler::diagnostics::DiagnosticsReporter;
use cairo_lang_compiler::project::setup_project;
use cairo_lang_defs::db::DefsGroup;
use cairo_lang_defs::ids::{FunctionWithBodyId, NamedLanguageElementId};
use cairo_lang_semantic::items::function_with_body::FunctionWithBodySemantic;
use cairo_lang_diagnostics::ToOption;
use cairo_lang_filesystem::cfg::{Cfg, CfgSet};
use cairo_lang_filesystem::db::init_dev_corelib;
use cairo_lang_filesystem::ids::CrateInput;
use cairo_lang_lowering::optimizations::config::Optimizations;
use cairo_lang_lowering::utils::InliningStrategy;
use cairo_lang_runner::{Arg, RunResultValue, SierraCasmRunner, StarknetState};
use cairo_lang_semantic::diagnostic::SemanticDiagnosticKind;
use cairo_lang_semantic::items::constant::{ConstValue, ConstValueId, ConstantSemantic};
use cairo_lang_sierra_generator::db::SierraGenGroup;
use cairo_lang_sierra_generator::replace_ids::{DebugReplacer, SierraIdReplacer};
use num_bigint::BigInt;
use num_traits::{One, Zero};
use salsa::Database;
use starknet_types_core::felt::Felt as Felt252;

use crate::cases::{Case, Shape, Ty, coq_z};
use crate::Done;

/// corelib of the tree under test ($VERIF_REPO, default /repo)
pub fn corelib() -> String {
    format!("{}/corelib/src", std::env::var("VERIF_REPO").ok().filter(|s| !s.is_empty()).unwrap_or_else(|| "/repo".to_string()))
}

pub fn build_db(skip_const_folding: bool) -> RootDatabase {
    let mut b = RootDatabase::builder();
    b.skip_auto_withdraw_gas().with_cfg(CfgSet::from_iter([Cfg::kv("gas", "disabled")]));
    let opt = match Optimizations::enabled_with_default_movable_functions(InliningStrategy::Default) {
        Optimizations::Enabled(c) => Optimizations::Enabled(c.with_skip_const_folding(skip_const_folding)),
        o => o,
    };
    b.with_optimizations(opt);
    let mut db = b.build().expect("RootDatabase");
    init_dev_corelib(&mut db, PathBuf::from(corelib()));
    db
}

/// ConstValue as the harness sees it.
#[derive(Clone, Debug, PartialEq, Eq)]
pub enum CV {
    Int(BigInt),
    Struct(Vec<CV>),
    Enum(usize, Box<CV>),
    Nz(Box<CV>),
    /// a variant the Coq model has no constructor for
    Other(String),
}
fn cv_of<'db>(db: &'db dyn Database, v: ConstValueId<'db>) -> Option<CV> {
    Some(match v.long(db) {
        ConstValue::Int(i, _) => CV::Int(i.clone()),
        ConstValue::Struct(ms, _) => CV::Struct(ms.iter().map(|m| cv_of(db, *m)).collect::<Option<Vec<_>>>()?),
        ConstValue::Enum(var, p) => CV::Enum(var.idx, Box::new(cv_of(db, *p)?)),
        ConstValue::NonZero(p) => CV::Nz(Box::new(cv_of(db, *p)?)),
        ConstValue::Missing(_) => return None,
        other => CV::Other(format!("{:?}", std::mem::discriminant(other))),
    })
}
fn cv_coq(v: &CV) -> String {
    match v {
        CV::Int(i) => format!("CInt {}", coq_z(i)),
        CV::Struct(ms) => format!("CStruct [{}]", ms.iter().map(cv_coq).collect::<Vec<_>>().join("; ")),
        CV::Enum(i, p) => format!("CEnum {} ({})", i, cv_coq(p)),
        CV::Nz(p) => format!("CNz ({})", cv_coq(p)),
        CV::Other(_) => "CEnum 99 (CStruct [])".into(),
    }
}

/// What the semantic db says about one const item.
#[derive(Clone, Debug, PartialEq, Eq)]
pub struct ICres {
    /// the value unless it is `ConstValue::Missing`
    pub val: Option<CV>,
    /// kinds of the diagnostics reported on the item (`Inner(..)` unwrapped, see `inner`)
    pub diags: Vec<String>,
    /// number of diagnostics that were InnerFailedConstantCalculation wrappers
    pub inner: usize,
}
impl ICres {
    pub fn short(&self) -> String {
        match &self.val {
            Some(v) => format!("{}{}", cv_coq(v), if self.diags.is_empty() { String::new() } else { format!(" + {:?}", self.diags) }),
            None => format!("Missing {:?}", self.diags),
        }
    }
    fn coq(&self) -> String {
        let ds: Vec<&str> = self
            .diags
            .iter()
            .map(|d| match d.as_str() {
                "DivisionByZero" => "DivisionByZero",
                "LiteralError" => "LiteralOutOfRange",
                "FailedConstantCalculation" => "FailedCalc",
                "UnsupportedConstant" => "Unsupported",
                _ => "SilentMissing", // never matches a model answer that carries a diagnostic list
            })
            .collect();
        let extra = self.diags.iter().any(|d| {
            !matches!(d.as_str(), "DivisionByZero" | "LiteralError" | "FailedConstantCalculation" | "UnsupportedConstant")
        });
        let mut ds: Vec<String> = ds.into_iter().map(String::from).collect();
        if extra {
            ds.push("SilentMissing".into()); // makes the list unmatchable: an unknown diagnostic kind
        }
        format!(
            "({}, [{}])",
            match &self.val {
                Some(v) => format!("Some ({})", cv_coq(v)),
                None => "None".into(),
            },
            ds.join("; ")
        )
    }
}

fn kind_str(k: &SemanticDiagnosticKind<'_>, inner: &mut usize) -> String {
    match k {
        SemanticDiagnosticKind::DivisionByZero => "DivisionByZero".into(),
        SemanticDiagnosticKind::LiteralError(_) => "LiteralError".into(),
        SemanticDiagnosticKind::FailedConstantCalculation => "FailedConstantCalculation".into(),
        SemanticDiagnosticKind::InnerFailedConstantCalculation(d, _) => {
            *inner += 1;
            kind_str(&d.kind, inner)
        }
        SemanticDiagnosticKind::UnsupportedConstant => "UnsupportedConstant".into(),
        other => {
            let s = format!("{:?}", std::mem::discriminant(other));
            format!("Other:{s}")
        }
    }
}

/// Decoded run-time value.
#[derive(Clone, Debug, PartialEq, Eq)]
pub enum RV {
    Int(BigInt),
    Bool(bool),
    Pair(BigInt, BigInt),
    Opt(Option<BigInt>),
    Words(Vec<BigInt>),
    /// a tuple of integers of one type
    Tup(Vec<BigInt>),
}
#[derive(Clone, Debug, PartialEq, Eq)]
pub enum RRes {
    Ok(RV),
    Panic(Vec<BigInt>),
    /// the run could not be performed or decoded (never matches anything)
    Bad(String),
}
impl RRes {
    pub fn short(&self) -> String {
        match self {
            RRes::Ok(v) => format!("{v:?}"),
            RRes::Panic(d) => format!("panic {}", panic_text(d)),
            RRes::Bad(s) => format!("BAD {s}"),
        }
    }
    fn coq(&self) -> String {
        match self {
            RRes::Ok(RV::Int(v)) => format!("Ok (RInt {})", coq_z(v)),
            RRes::Ok(RV::Bool(b)) => format!("Ok (RBool {b})"),
            RRes::Ok(RV::Pair(a, b)) => format!("Ok (RPair {} {})", coq_z(a), coq_z(b)),
            RRes::Ok(RV::Opt(Some(v))) => format!("Ok (ROpt (Some {}))", coq_z(v)),
            RRes::Ok(RV::Opt(None)) => "Ok (ROpt None)".into(),
            RRes::Ok(RV::Tup(w)) | RRes::Ok(RV::Words(w)) => {
                format!("Ok (RWords [{}])", w.iter().map(coq_z).collect::<Vec<_>>().join("; "))
            }
            RRes::Panic(d) => format!("Panic [{}]", d.iter().map(coq_z).collect::<Vec<_>>().join("; ")),
            RRes::Bad(_) => "Panic [(-999)]".into(),
        }
    }
}

pub fn panic_text(data: &[BigInt]) -> String {
    let parts: Vec<String> = data
        .iter()
        .map(|v| {
            let (_, bytes) = v.to_bytes_be();
            if !bytes.is_empty() && bytes.len() <= 31 && bytes.iter().all(|b| (0x20..0x7f).contains(b)) {
                format!("'{}'", String::from_utf8_lossy(&bytes))
            } else {
                v.to_string()
            }
        })
        .collect();
    format!("[{}]", parts.join(", "))
}

fn int_of_cells(t: Ty, cells: &[BigInt]) -> Option<BigInt> {
    if cells.len() != t.n_cells() {
        return None;
    }
    let p = vcommon::stark_prime();
    Some(match t {
        Ty::U256 => &cells[0] + (&cells[1] << 128),
        _ if t.signed() => {
            if cells[0] > &p / 2 { &cells[0] - &p } else { cells[0].clone() }
        }
        _ => cells[0].clone(),
    })
}

/// Decodes the cells returned by the runner according to the shape of the result type.
pub fn decode(shape: &Shape, cells: &[BigInt]) -> Option<RV> {
    match shape {
        Shape::Int(t) => Some(RV::Int(int_of_cells(*t, cells)?)),
        Shape::Bool => match cells {
            [b] if b.is_zero() => Some(RV::Bool(false)),
            [b] if b.is_one() => Some(RV::Bool(true)),
            _ => None,
        },
        Shape::Pair(t) => {
            let n = t.n_cells();
            if cells.len() != 2 * n {
                return None;
            }
            Some(RV::Pair(int_of_cells(*t, &cells[..n])?, int_of_cells(*t, &cells[n..])?))
        }
        Shape::IntBool(t) => {
            let n = t.n_cells();
            if cells.len() != n + 1 || !(cells[n].is_zero() || cells[n].is_one()) {
                return None;
            }
            Some(RV::Pair(int_of_cells(*t, &cells[..n])?, cells[n].clone()))
        }
        Shape::Opt(t) | Shape::OptNz(t) => {
            let n = t.n_cells();
            if cells.len() != 1 + n {
                return None;
            }
            if cells[0].is_zero() {
                Some(RV::Opt(Some(int_of_cells(*t, &cells[1..])?)))
            } else if cells[0].is_one() {
                Some(RV::Opt(None))
            } else {
                None
            }
        }
        Shape::Tup(t, n) => {
            let c = t.n_cells();
            if cells.len() != c * n {
                return None;
            }
            Some(RV::Tup((0..*n).map(|i| int_of_cells(*t, &cells[i * c..(i + 1) * c])).collect::<Option<Vec<_>>>()?))
        }
        Shape::Words => {
            if cells.len() != 3 {
                return None;
            }
            if cells[0].is_zero() {
                Some(RV::Words(vec![cells[2].clone()]))
            } else if cells[0].is_one() {
                Some(RV::Words(vec![cells[1].clone(), cells[2].clone()]))
            } else {
                None
            }
        }
    }
}

fn cv_int(t: Ty, v: &CV) -> Option<BigInt> {
    match (t, v) {
        (Ty::U256, CV::Struct(ms)) => match &ms[..] {
            [CV::Int(lo), CV::Int(hi)] => Some(lo + (hi << 128)),
            _ => None,
        },
        (Ty::U256, _) => None,
        (_, CV::Int(i)) => Some(i.clone()),
        _ => None,
    }
}
/// The run-time value a const value denotes, by the shape of the result type (None: wrong shape).
pub fn cv_cells(v: &CV, shape: &Shape) -> Option<Vec<BigInt>> {
    // rendered as a flat list of integers comparable with `rv_cells`
    Some(match (shape, v) {
        (Shape::Int(t), v) => vec![cv_int(*t, v)?],
        (Shape::Bool, CV::Enum(i, p)) if **p == CV::Struct(vec![]) && *i < 2 => vec![BigInt::from(*i)],
        (Shape::Pair(t), CV::Struct(ms)) if ms.len() == 2 => vec![cv_int(*t, &ms[0])?, cv_int(*t, &ms[1])?],
        (Shape::Opt(t), CV::Enum(0, p)) => vec![BigInt::zero(), cv_int(*t, p)?],
        (Shape::OptNz(t), CV::Enum(0, p)) => match &**p {
            CV::Nz(q) => vec![BigInt::zero(), cv_int(*t, q)?],
            _ => return None,
        },
        (Shape::Opt(_) | Shape::OptNz(_), CV::Enum(1, p)) if **p == CV::Struct(vec![]) => vec![BigInt::one()],
        (Shape::Tup(t, n), CV::Struct(ms)) if ms.len() == *n => {
            ms.iter().map(|m| cv_int(*t, m)).collect::<Option<Vec<_>>>()?
        }
        (Shape::Words, CV::Enum(0, p)) => match &**p {
            CV::Int(lo) => vec![BigInt::zero(), lo.clone()],
            _ => return None,
        },
        (Shape::Words, CV::Enum(1, p)) => match &**p {
            CV::Struct(ms) => match &ms[..] {
                [CV::Int(hi), CV::Int(lo)] => vec![BigInt::one(), hi.clone(), lo.clone()],
                _ => return None,
            },
            _ => return None,
        },
        _ => return None,
    })
}
pub fn rv_cells(v: &RV) -> Vec<BigInt> {
    match v {
        RV::Int(i) => vec![i.clone()],
        RV::Bool(b) => vec![BigInt::from(*b as u8)],
        RV::Pair(a, b) => vec![a.clone(), b.clone()],
        RV::Opt(Some(v)) => vec![BigInt::zero(), v.clone()],
        RV::Opt(None) => vec![BigInt::one()],
        RV::Tup(w) => w.clone(),
        RV::Words(w) => {
            let mut o = vec![BigInt::from((w.len() == 2) as u8)];
            o.extend(w.iter().cloned());
            o
        }
    }
}

pub fn coq_case(d: &Done) -> String {
    let none = "(None, [SilentMissing; SilentMissing])".to_string();
    if d.case.const_expr.is_none() {
        return format!(
            "{}, [{}]",
            d.case.coq_head,
            d.runs.iter().map(|(_, r)| r.coq()).collect::<Vec<_>>().join("; ")
        );
    }
    format!(
        "{}, {}, {}, [{}]",
        d.case.coq_head,
        d.c1.as_ref().map(|c| c.coq()).unwrap_or(none.clone()),
        d.c2.as_ref().map(|c| c.coq()).unwrap_or(none),
        d.runs.iter().map(|(_, r)| r.coq()).collect::<Vec<_>>().join("; ")
    )
}

const PRELUDE: &str = "#[allow(unused_imports)]\nuse core::traits::{DivRem, TryInto, Into};\n#[allow(unused_imports)]\nuse core::option::OptionTrait;\n#[allow(unused_imports)]\nuse core::num::traits::{WrappingAdd, WrappingSub, WrappingMul, OverflowingAdd, OverflowingSub, OverflowingMul, CheckedAdd, CheckedSub, CheckedMul, SaturatingAdd, SaturatingSub, SaturatingMul};\n";

fn check_diags(db: &RootDatabase, inputs: &[CrateInput]) -> Result<(), String> {
    let mut s = String::new();
    let failed = DiagnosticsReporter::write_to_string(&mut s).with_crates(inputs).allow_warnings().check(db);
    if failed { Err(s.chars().take(3000).collect()) } else { Ok(()) }
}

fn run_one(runner: &SierraCasmRunner, fname: &str, args: Vec<Arg>, shape: &Shape) -> RRes {
    let r = vcommon::catch(std::panic::AssertUnwindSafe(|| {
        let f = runner.find_function(fname).map_err(|e| format!("{e:?}"))?;
        runner
            .run_function_with_starknet_context(f, args.clone(), None, StarknetState::default())
            .map_err(|e| format!("{e:?}"))
    }));
    match r {
        Ok(Ok(res)) => match res.value {
            RunResultValue::Success(cells) => {
                let cells: Vec<BigInt> = cells.iter().map(|f| f.to_bigint()).collect();
                match decode(shape, &cells) {
                    Some(v) => RRes::Ok(v),
                    None => RRes::Bad(format!("cannot decode {:?} as {:?}", cells, shape)),
                }
            }
            RunResultValue::Panic(data) => RRes::Panic(data.iter().map(|f| f.to_bigint()).collect()),
        },
        Ok(Err(e)) => RRes::Bad(e.chars().take(300).collect()),
        Err(e) => RRes::Bad(format!("runner panicked: {e} at {}", vcommon::last_panic_location())),
    }
}

/// Evaluates a chunk; when the chunk cannot be compiled (diagnostics on a generated function, or
/// the compiler crashes) the chunk is bisected down to the offending case, which is returned as a
/// failed case: compile-time evaluation that crashes or rejects where run time returns a value is
/// a C07 failure with a concrete input.
pub fn eval_chunk_bisect(dir: &str, idx: usize, cases: Vec<Case>) -> Vec<Done> {
    match eval_chunk(dir, idx, cases.clone()) {
        Ok(v) => v,
        Err(e) => {
            if cases.len() <= 1 {
                cases
                    .into_iter()
                    .map(|case| Done {
                        c1: None,
                        c2: None,
                        runs: vec![(
                            "lit/fold",
                            RRes::Bad(format!("the program of the case does not compile / the compiler crashed: {}", e.chars().take(600).collect::<String>())),
                        )],
                        g_size: [0, 0],
                        case,
                    })
                    .collect()
            } else {
                let mut a = cases;
                let b = a.split_off(a.len() / 2);
                let mut out = eval_chunk_bisect(dir, 100_000 + idx * 2, a);
                out.extend(eval_chunk_bisect(dir, 100_001 + idx * 2, b));
                out
            }
        }
    }
}

/// Evaluates one chunk of cases: one consts crate, one twins crate (compiled twice).
pub fn eval_chunk(dir: &str, idx: usize, cases: Vec<Case>) -> Result<Vec<Done>, String> {
    // ---------- program text ----------
    let mut consts = String::from(PRELUDE);
    let mut twins = String::from(PRELUDE);
    let mut seen_fn: BTreeMap<String, ()> = BTreeMap::new();
    for (k, c) in cases.iter().enumerate() {
        let f = if c.feature { crate::cases::FEATURES } else { "" };
        for (name, def) in &c.items {
            if seen_fn.insert(format!("item:{name}"), ()).is_none() {
                writeln!(consts, "{def}").unwrap();
                writeln!(twins, "{def}").unwrap();
            }
        }
        if let Some((name, def, call)) = &c.constfn {
            if seen_fn.insert(name.clone(), ()).is_none() {
                writeln!(consts, "{f}{def}").unwrap();
            }
            writeln!(consts, "{f}const B_{k}: {} = {};", c.rty, call).unwrap();
        }
        if let Some(e) = &c.const_expr {
            writeln!(consts, "{f}const A_{k}: {} = {};", c.rty, e).unwrap();
        }
        if let Some((name, def)) = &c.twin {
            if seen_fn.insert(name.clone(), ()).is_none() {
                writeln!(twins, "{f}{def}").unwrap();
            }
        }
        if let Some((params, body, _)) = &c.g {
            writeln!(twins, "{f}fn g_{k}({params}) -> {} {{ {body} }}", c.rty).unwrap();
        }
        for (name, def, _) in &c.fns {
            if seen_fn.insert(name.clone(), ()).is_none() {
                writeln!(twins, "{f}{def}").unwrap();
            }
        }
    }
    let cdir = format!("{dir}/c{idx:03}");
    std::fs::create_dir_all(&cdir).map_err(|e| e.to_string())?;
    let consts_path = format!("{cdir}/consts_{idx}.cairo");
    let twins_path = format!("{cdir}/twins_{idx}.cairo");
    std::fs::write(&consts_path, &consts).map_err(|e| e.to_string())?;
    std::fs::write(&twins_path, &twins).map_err(|e| e.to_string())?;

    // ---------- const items through the semantic db ----------
    let mut c1: BTreeMap<usize, ICres> = BTreeMap::new();
    let mut c2: BTreeMap<usize, ICres> = BTreeMap::new();
    // diagnostics on the bodies of the const fns (a const fn is validated where it is declared)
    let mut fn_diags: BTreeMap<String, Vec<String>> = BTreeMap::new();
    {
        let mut db = build_db(false);
        let inputs = setup_project(&mut db, Path::new(&consts_path)).map_err(|e| format!("{e:?}"))?;
        let db = &db;
        let crate_ids = CrateInput::into_crate_ids(db, inputs);
        for cid in crate_ids {
            for m in db.crate_modules(cid) {
                if let Ok(fids) = db.module_free_functions_ids(*m) {
                    for fid in fids {
                        let name = fid.name(db).long(db).to_string();
                        let mut inner = 0usize;
                        let ds: Vec<String> = db
                            .function_body_diagnostics(FunctionWithBodyId::Free(*fid))
                            .get_all()
                            .iter()
                            .map(|d| kind_str(&d.kind, &mut inner))
                            .collect();
                        if !ds.is_empty() {
                            fn_diags.insert(name, ds);
                        }
                    }
                }
                let Ok(ids) = db.module_constants_ids(*m) else { continue };
                for c in ids {
                    let name = c.name(db).long(db).to_string();
                    let r = vcommon::catch(std::panic::AssertUnwindSafe(|| {
                        let val = db.constant_const_value(*c).ok().and_then(|v| cv_of(db, v));
                        let mut inner = 0usize;
                        let diags: Vec<String> = db
                            .constant_semantic_diagnostics(*c)
                            .get_all()
                            .iter()
                            .map(|d| kind_str(&d.kind, &mut inner))
                            .collect();
                        ICres { val, diags, inner }
                    }));
                    let r = match r {
                        Ok(r) => r,
                        Err(e) => ICres { val: None, diags: vec![format!("Other:compiler panic {e} at {}", vcommon::last_panic_location())], inner: 0 },
                    };
                    if let Some(k) = name.strip_prefix("A_").and_then(|s| s.parse::<usize>().ok()) {
                        c1.insert(k, r);
                    } else if let Some(k) = name.strip_prefix("B_").and_then(|s| s.parse::<usize>().ok()) {
                        c2.insert(k, r);
                    }
                }
            }
        }
    }

    // a const fn rejected at its declaration: the program does not compile, whatever a call to it
    // would evaluate to -- the call's answer is "diagnosed"
    for (k, c) in cases.iter().enumerate() {
        if let Some((name, _, _)) = &c.constfn {
            if let (Some(ds), Some(r)) = (fn_diags.get(name), c2.get_mut(&k)) {
                r.val = None;
                r.diags.extend(ds.iter().cloned());
            }
        }
    }

    // ---------- twins: compile with and without const folding, run ----------
    let p = vcommon::stark_prime();
    let mut runs: Vec<Vec<(&'static str, RRes)>> = vec![vec![]; cases.len()];
    // number of Sierra statements of g_k compiled with / without const folding
    let mut g_size: Vec<[usize; 2]> = vec![[0, 0]; cases.len()];
    for (skip, names) in [(false, ("args/fold", "lit/fold")), (true, ("args/nofold", "lit/nofold"))] {
        let mut db = build_db(skip);
        let inputs = setup_project(&mut db, Path::new(&twins_path)).map_err(|e| format!("{e:?}"))?;
        vcommon::catch(std::panic::AssertUnwindSafe(|| check_diags(&db, &inputs)))
            .map_err(|e| format!("twins_{idx}: compiler panic {e} at {}", vcommon::last_panic_location()))?
            .map_err(|e| format!("twins_{idx} does not compile: {e}"))?;
        let db = &db;
        let crate_ids = CrateInput::into_crate_ids(db, inputs);
        let prog = vcommon::catch(std::panic::AssertUnwindSafe(|| {
            db.get_sierra_program(crate_ids).to_option().map(|p| p.clone())
        }))
        .map_err(|e| format!("twins_{idx}: compiler panic {e} at {}", vcommon::last_panic_location()))?
        .ok_or_else(|| format!("twins_{idx}: no sierra program"))?;
        let mut sierra = prog.program;
        let replacer = DebugReplacer { db };
        replacer.enrich_function_names(&mut sierra);
        let sierra = replacer.apply(&sierra);
        {
            let mut entries: Vec<(usize, String)> = sierra
                .funcs
                .iter()
                .map(|f| (f.entry_point.0, f.id.debug_name.as_ref().map(|s| s.to_string()).unwrap_or_default()))
                .collect();
            entries.sort();
            for (i, (start, name)) in entries.iter().enumerate() {
                let end = entries.get(i + 1).map(|e| e.0).unwrap_or(sierra.statements.len());
                if let Some(k) = name.rsplit("::g_").next().and_then(|s| s.parse::<usize>().ok()) {
                    if name.contains("::g_") && k < g_size.len() {
                        g_size[k][skip as usize] = end - start;
                    }
                }
            }
        }
        let runner = SierraCasmRunner::new(sierra, None, Default::default(), None)
            .map_err(|e| format!("twins_{idx}: runner: {e:?}"))?;
        let to_args = |v: &Vec<BigInt>| -> Vec<Arg> {
            v.iter().map(|v| Arg::Value(Felt252::from(((v % &p) + &p) % &p))).collect()
        };
        for (k, c) in cases.iter().enumerate() {
            let mut fns: Vec<(String, Vec<Arg>, &'static str)> = vec![];
            if let Some((name, _)) = &c.twin {
                fns.push((format!("::{name}"), to_args(&c.args), names.0));
            }
            if let Some((_, _, gargs)) = &c.g {
                fns.push((format!("::g_{k}"), to_args(gargs), names.1));
            }
            const EXTRA: [[&str; 2]; 2] = [["f0/fold", "f1/fold"], ["f0/nofold", "f1/nofold"]];
            for (i, (name, _, fargs)) in c.fns.iter().enumerate().take(2) {
                fns.push((format!("::{name}"), to_args(fargs), EXTRA[skip as usize][i]));
            }
            for (fname, args, vname) in fns {
                let rr = run_one(&runner, &fname, args, &c.shape);
                runs[k].push((vname, rr));
            }
        }
    }
    // ---------- the const items that evaluated, used at run time: fn u_k() -> R { A_k } ----------
    // (materialisation of the const value: Sierra const types / const_as_immediate / const_as_box)
    let use_ks: Vec<usize> = cases
        .iter()
        .enumerate()
        .filter(|(k, c)| {
            c.const_expr.is_some()
                && c1.get(k).map(|r| r.val.is_some() && r.diags.is_empty()).unwrap_or(false)
        })
        .map(|(k, _)| k)
        .collect();
    if !use_ks.is_empty() {
        let mut uses = String::from(PRELUDE);
        let mut seen: BTreeMap<String, ()> = BTreeMap::new();
        for &k in &use_ks {
            let c = &cases[k];
            let f = if c.feature { crate::cases::FEATURES } else { "" };
            for (name, def) in &c.items {
                if seen.insert(name.clone(), ()).is_none() {
                    writeln!(uses, "{def}").unwrap();
                }
            }
            writeln!(uses, "{f}const A_{k}: {} = {};", c.rty, c.const_expr.as_ref().unwrap()).unwrap();
            writeln!(uses, "fn u_{k}() -> {} {{ A_{k} }}", c.rty).unwrap();
        }
        let uses_path = format!("{cdir}/uses_{idx}.cairo");
        std::fs::write(&uses_path, &uses).map_err(|e| e.to_string())?;
        let mut db = build_db(false);
        let inputs = setup_project(&mut db, Path::new(&uses_path)).map_err(|e| format!("{e:?}"))?;
        check_diags(&db, &inputs).map_err(|e| format!("uses_{idx} does not compile: {e}"))?;
        let db = &db;
        let crate_ids = CrateInput::into_crate_ids(db, inputs);
        let prog = vcommon::catch(std::panic::AssertUnwindSafe(|| {
            db.get_sierra_program(crate_ids).to_option().map(|p| p.clone())
        }))
        .map_err(|e| format!("uses_{idx}: compiler panic {e} at {}", vcommon::last_panic_location()))?
        .ok_or_else(|| format!("uses_{idx}: no sierra program"))?;
        let mut sierra = prog.program;
        let replacer = DebugReplacer { db };
        replacer.enrich_function_names(&mut sierra);
        let sierra = replacer.apply(&sierra);
        let runner = SierraCasmRunner::new(sierra, None, Default::default(), None)
            .map_err(|e| format!("uses_{idx}: runner: {e:?}"))?;
        for &k in &use_ks {
            let rr = run_one(&runner, &format!("::u_{k}"), vec![], &cases[k].shape);
            runs[k].push(("const/use", rr));
        }
    }
    Ok(cases
        .into_iter()
        .enumerate()
        .map(|(k, case)| {
            let c2v = if case.constfn.is_some() { c2.remove(&k) } else { None };
            // order: args/fold, args/nofold, lit/fold, lit/nofold (those that exist)
            let mut rs = std::mem::take(&mut runs[k]);
            rs.sort_by_key(|(n, _)| match *n {
                "args/fold" => 0,
                "args/nofold" => 1,
                "lit/fold" => 2,
                "lit/nofold" => 3,
                "const/use" => 4,
                "f0/fold" => 5,
                "f0/nofold" => 6,
                "f1/fold" => 7,
                _ => 8,
            });
            Done { c1: c1.remove(&k), c2: c2v, runs: rs, g_size: g_size[k], case }
        })
        .collect())
}
