//! Impl-level oracle of C11, written from the property text (independent of the Coq model):
//! for an input that parses with zero diagnostics and a FormatterConfig,
//!   (a) the output of `get_formatted_file` parses with zero diagnostics,
//!   (b) formatting the output again returns the output,
//!   (c) the code tokens (real parser terminals, trivia ignored, optional trailing commas ignored)
//!       and the tree shape over them are unchanged; with sorting/merging on, `use`/`mod x;`
//!       runs are compared as (multi)sets of imported paths / module names,
//!   (d) the comments are preserved: the sequence of comment words, each tagged with the comment
//!       prefix (`//`, `///`, `//!`, ...) of its line, interleaved with the code tokens at the same
//!       positions (as a multiset when sorting/merging is on).
use std::panic::AssertUnwindSafe;

use cairo_lang_formatter::{
    BreakingBehaviorConfig, CollectionsBreakingBehavior, FormatterConfig, get_formatted_file,
};
use cairo_lang_parser::utils::SimpleParserDatabase;
use cairo_lang_syntax::node::ast::{self, UsePath};
use cairo_lang_syntax::node::kind::SyntaxKind;
use cairo_lang_syntax::node::{SyntaxNode, TypedSyntaxNode};
use serde_json::{Value, json};

pub const WIDTHS: [usize; 4] = [20, 40, 100, 120];
pub const TABS: [usize; 3] = [2, 4, 8];

/// Option lattice point, encoded in 10 bits: width(2) tab(2; 3 = default 4) sort tuple farr macro merge dup.
#[derive(Clone, Copy, Debug, PartialEq, Eq, Hash, PartialOrd, Ord)]
pub struct Cfg(pub u32);
impl Cfg {
    pub const N: u32 = 4 * 3 * 64;
    pub fn from_index(i: u32) -> Cfg {
        let i = i % Self::N;
        let w = i % 4;
        let t = (i / 4) % 3;
        let b = i / 12;
        Cfg(w | (t << 2) | (b << 4))
    }
    /// The default configuration of the formatter (100, 4, sort, tuple line-by-line, merge).
    pub fn default_cfg() -> Cfg {
        // width idx 2 (100), tab idx 1 (4), sort=1, tuple=1, farr=0, macro=0, merge=1, dup=0
        Cfg(2 | (1 << 2) | (1 << 4) | (1 << 5) | (1 << 8))
    }
    pub fn width(self) -> usize {
        WIDTHS[(self.0 & 3) as usize]
    }
    pub fn tab(self) -> usize {
        TABS[(((self.0 >> 2) & 3) % 3) as usize]
    }
    pub fn sort(self) -> bool {
        self.0 >> 4 & 1 == 1
    }
    pub fn tuple(self) -> bool {
        self.0 >> 5 & 1 == 1
    }
    pub fn farr(self) -> bool {
        self.0 >> 6 & 1 == 1
    }
    pub fn mac(self) -> bool {
        self.0 >> 7 & 1 == 1
    }
    pub fn merge(self) -> bool {
        self.0 >> 8 & 1 == 1
    }
    pub fn dup(self) -> bool {
        self.0 >> 9 & 1 == 1
    }
    pub fn reorders(self) -> bool {
        self.sort() || self.merge()
    }
    pub fn to_config(self) -> FormatterConfig {
        let b = |x: bool| -> CollectionsBreakingBehavior { x.into() };
        FormatterConfig::new(
            self.tab(),
            self.width(),
            self.sort(),
            BreakingBehaviorConfig { tuple: b(self.tuple()), fixed_array: b(self.farr()), macro_call: b(self.mac()) },
            self.merge(),
            self.dup(),
        )
    }
    pub fn describe(self) -> String {
        format!(
            "max_line_length={} tab_size={} sort_module_level_items={} tuple_line_by_line={} fixed_array_line_by_line={} macro_call_line_by_line={} merge_use_items={} allow_duplicate_uses={}",
            self.width(),
            self.tab(),
            self.sort(),
            self.tuple(),
            self.farr(),
            self.mac(),
            self.merge(),
            self.dup()
        )
    }
}

fn catch<T>(f: impl FnOnce() -> T) -> Result<T, String> {
    vcommon::catch(AssertUnwindSafe(f)).map_err(|m| format!("{} @ {}", m, vcommon::last_panic_location()))
}

/// One element of the observable content of a source text.
#[derive(Clone, Debug, PartialEq, Eq, PartialOrd, Ord, Hash)]
pub enum Item {
    /// a code token: kind and text
    Tok(String),
    /// a word of a comment, tagged with the prefix (`/`s and `!`s) of its comment line
    Cw(String, String),
    /// a run of use items in canonical form (set or multiset of leaves)
    Uses(Vec<String>),
    /// a run of `mod x;` items, sorted
    Mods(Vec<String>),
    Open(String),
    Close,
}

pub struct Content {
    /// code tokens + tree shape + comments interleaved (order-sensitive comparison)
    pub full: Vec<Item>,
    pub n_tokens: usize,
    pub n_comments: usize,
    pub n_comment_words: usize,
    pub n_opt_commas: usize,
    pub n_use_items: usize,
}

struct Walker<'a> {
    db: &'a SimpleParserDatabase,
    /// canonicalise use/mod runs
    reorder: bool,
    dedupe_uses: bool,
    out: Vec<Item>,
    n_tokens: usize,
    n_comments: usize,
    n_comment_words: usize,
    n_opt_commas: usize,
    n_use_items: usize,
}

/// The prefix (slashes, exclamation marks) and the whitespace-separated words of one comment line.
pub fn comment_words(text: &str) -> (String, Vec<String>) {
    let t = text.trim();
    let ns = t.chars().take_while(|c| *c == '/').count();
    let rest: String = t.chars().skip(ns).collect();
    let ne = rest.chars().take_while(|c| *c == '!').count();
    let body: String = rest.chars().skip(ne).collect();
    let tag = format!("{}{}", "/".repeat(ns), "!".repeat(ne));
    (tag, body.split_whitespace().map(|s| s.to_string()).collect())
}

impl<'a> Walker<'a> {
    fn is_optional_trailing_comma(&self, n: &SyntaxNode<'a>) -> bool {
        let db = self.db;
        if n.kind(db) != SyntaxKind::TerminalComma {
            return false;
        }
        let Some(parent) = n.parent(db) else { return false };
        let sibs = parent.get_children(db);
        if sibs.last() != Some(n) {
            return false;
        }
        // language rule: a trailing comma after the last element of a separated list is optional,
        // except in a one-element tuple expression/pattern where it makes the tuple
        match parent.kind(db) {
            SyntaxKind::ExprList | SyntaxKind::PatternList => sibs.len() > 2,
            _ => true,
        }
    }

    fn trivia(&mut self, n: &SyntaxNode<'a>) {
        let db = self.db;
        for t in n.get_children(db) {
            match t.kind(db) {
                SyntaxKind::TokenSingleLineComment
                | SyntaxKind::TokenSingleLineDocComment
                | SyntaxKind::TokenSingleLineInnerComment => {
                    self.n_comments += 1;
                    let (tag, words) = comment_words(t.get_text(db));
                    if words.is_empty() {
                        // an empty comment line is still a comment
                        self.out.push(Item::Cw(tag, String::new()));
                    } else {
                        for w in words {
                            self.n_comment_words += 1;
                            self.out.push(Item::Cw(tag.clone(), w));
                        }
                    }
                }
                SyntaxKind::TokenWhitespace | SyntaxKind::TokenNewline => {}
                SyntaxKind::TokenSkipped => {
                    self.out.push(Item::Tok(format!("Skipped:{}", t.get_text(db))));
                }
                _ => self.node(t),
            }
        }
    }

    fn use_leaves(&self, p: &UsePath<'a>, prefix: &str, out: &mut Vec<String>) {
        let db = self.db;
        let txt = |n: SyntaxNode<'a>| n.get_text_without_trivia(db).long(db).to_string();
        match p {
            UsePath::Leaf(l) => {
                let name = txt(l.ident(db).as_syntax_node());
                let alias = match l.alias_clause(db) {
                    ast::OptionAliasClause::Empty(_) => String::new(),
                    ast::OptionAliasClause::AliasClause(a) => format!(" as {}", txt(a.alias(db).as_syntax_node())),
                };
                // `a::{self}` imports `a`
                if name == "self" && !prefix.is_empty() {
                    out.push(format!("{}{}", prefix.trim_end_matches("::"), alias));
                } else {
                    out.push(format!("{prefix}{name}{alias}"));
                }
            }
            UsePath::Single(s) => {
                let seg = txt(s.ident(db).as_syntax_node());
                self.use_leaves(&s.use_path(db), &format!("{prefix}{seg}::"), out);
            }
            UsePath::Multi(m) => {
                for q in m.use_paths(db).elements(db) {
                    self.use_leaves(&q, prefix, out);
                }
            }
            UsePath::Star(_) => out.push(format!("{prefix}*")),
        }
    }

    fn children(&mut self, kids: &[SyntaxNode<'a>]) {
        let db = self.db;
        let mut i = 0;
        while i < kids.len() {
            let k = kids[i].kind(db);
            let is_mod_decl = |n: &SyntaxNode<'a>| {
                n.kind(db) == SyntaxKind::ItemModule
                    && matches!(ast::ItemModule::from_syntax_node(db, *n).body(db), ast::MaybeModuleBody::None(_))
            };
            if self.reorder && k == SyntaxKind::ItemUse {
                let mut leaves = vec![];
                let mut j = i;
                while j < kids.len() && kids[j].kind(db) == SyntaxKind::ItemUse {
                    let u = ast::ItemUse::from_syntax_node(db, kids[j]);
                    self.n_use_items += 1;
                    // decorations: attributes, visibility, `$`
                    let mut deco = String::new();
                    for part in [
                        u.attributes(db).as_syntax_node(),
                        u.visibility(db).as_syntax_node(),
                        u.dollar(db).as_syntax_node(),
                    ] {
                        for t in part.tokens(db) {
                            if !is_trivia_token(t.kind(db)) {
                                deco.push_str(t.get_text(db));
                                deco.push(' ');
                            }
                        }
                    }
                    let mut ls = vec![];
                    self.use_leaves(&u.use_path(db), "", &mut ls);
                    for l in ls {
                        leaves.push(format!("{deco}use {l}"));
                    }
                    // comments attached to the item stay observable
                    self.item_comments(&kids[j]);
                    j += 1;
                }
                leaves.sort();
                if self.dedupe_uses {
                    leaves.dedup();
                }
                self.out.push(Item::Uses(leaves));
                i = j;
            } else if self.reorder && is_mod_decl(&kids[i]) {
                let mut mods = vec![];
                let mut j = i;
                while j < kids.len() && is_mod_decl(&kids[j]) {
                    let mut s = String::new();
                    for t in kids[j].tokens(db) {
                        if !is_trivia_token(t.kind(db)) {
                            s.push_str(t.get_text(db));
                            s.push(' ');
                        }
                    }
                    mods.push(s);
                    self.item_comments(&kids[j]);
                    j += 1;
                }
                mods.sort();
                self.out.push(Item::Mods(mods));
                i = j;
            } else {
                self.node(&kids[i]);
                i += 1;
            }
        }
    }

    /// Only the comments below `n` (used for use/mod items in reorder mode).
    fn item_comments(&mut self, n: &SyntaxNode<'a>) {
        let db = self.db;
        for d in n.descendants(db) {
            if d.kind(db) == SyntaxKind::Trivia {
                let before = self.out.len();
                self.trivia(&d);
                // keep only comment words
                let tail: Vec<Item> = self.out.drain(before..).filter(|x| matches!(x, Item::Cw(..))).collect();
                self.out.extend(tail);
            }
        }
    }

    fn node(&mut self, n: &SyntaxNode<'a>) {
        let db = self.db;
        let kind = n.kind(db);
        if kind.is_terminal() {
            let kids = n.get_children(db);
            if kids.len() != 3 {
                self.out.push(Item::Tok(format!("malformed-terminal:{kind:?}")));
                return;
            }
            self.trivia(&kids[0]);
            if kind == SyntaxKind::TerminalEmpty {
                // no text
            } else if self.is_optional_trailing_comma(n) {
                self.n_opt_commas += 1;
            } else {
                self.n_tokens += 1;
                self.out.push(Item::Tok(format!("{:?}:{}", kind, kids[1].get_text(db))));
            }
            self.trivia(&kids[2]);
        } else if kind.is_token() {
            self.n_tokens += 1;
            self.out.push(Item::Tok(format!("{:?}:{}", kind, n.get_text(db))));
        } else {
            self.out.push(Item::Open(format!("{kind:?}")));
            self.children(n.get_children(db));
            self.out.push(Item::Close);
        }
    }
}

fn is_trivia_token(k: SyntaxKind) -> bool {
    matches!(
        k,
        SyntaxKind::TokenWhitespace
            | SyntaxKind::TokenNewline
            | SyntaxKind::TokenSingleLineComment
            | SyntaxKind::TokenSingleLineDocComment
            | SyntaxKind::TokenSingleLineInnerComment
    )
}

/// Token trees (macro arguments): a comma directly before the closing bracket of a token tree is
/// an optional trailing comma too (the formatter formats legacy macro arguments as an arg list).
fn drop_token_tree_trailing_commas(items: Vec<Item>) -> (Vec<Item>, usize) {
    // pattern: Open(TokenTreeLeaf) Tok(TerminalComma:,) Close  immediately followed (after the
    // enclosing TokenList closes) by the closing bracket terminal of a wrapped token tree
    let mut out: Vec<Item> = Vec::with_capacity(items.len());
    let mut dropped = 0;
    let n = items.len();
    let mut i = 0;
    while i < n {
        if i + 4 < n
            && matches!(&items[i], Item::Open(k) if k == "TokenTreeLeaf")
            && matches!(&items[i + 1], Item::Tok(t) if t == "TerminalComma:,")
            && items[i + 2] == Item::Close
            && items[i + 3] == Item::Close
            && matches!(&items[i + 4], Item::Tok(t) if t.starts_with("TerminalRParen:") || t.starts_with("TerminalRBrack:") || t.starts_with("TerminalRBrace:"))
        {
            dropped += 1;
            i += 3;
            continue;
        }
        out.push(items[i].clone());
        i += 1;
    }
    (out, dropped)
}

pub fn content<'a>(db: &'a SimpleParserDatabase, root: &SyntaxNode<'a>, cfg: Cfg) -> Content {
    let mut w = Walker {
        db,
        reorder: cfg.reorders(),
        dedupe_uses: cfg.merge() && !cfg.dup(),
        out: vec![],
        n_tokens: 0,
        n_comments: 0,
        n_comment_words: 0,
        n_opt_commas: 0,
        n_use_items: 0,
    };
    w.node(root);
    let (full, d) = drop_token_tree_trailing_commas(w.out);
    Content {
        full,
        n_tokens: w.n_tokens - d,
        n_comments: w.n_comments,
        n_comment_words: w.n_comment_words,
        n_opt_commas: w.n_opt_commas + d,
        n_use_items: w.n_use_items,
    }
}

fn show(it: &Item) -> String {
    match it {
        Item::Tok(t) => t.clone(),
        Item::Cw(tag, w) => format!("comment[{tag}]:{w}"),
        Item::Uses(u) => format!("uses{u:?}"),
        Item::Mods(u) => format!("mods{u:?}"),
        Item::Open(k) => format!("({k}"),
        Item::Close => ")".into(),
    }
}

/// First difference of two item sequences, with a little context.
fn first_diff(a: &[Item], b: &[Item]) -> String {
    let mut i = 0;
    while i < a.len() && i < b.len() && a[i] == b[i] {
        i += 1;
    }
    let ctx = |v: &[Item]| -> String {
        let lo = i.saturating_sub(3);
        let hi = (i + 4).min(v.len());
        v[lo..hi].iter().map(show).collect::<Vec<_>>().join(" ")
    };
    format!("at item {i}: input ..{}.. / output ..{}..", ctx(a), ctx(b))
}

fn split(items: &[Item]) -> (Vec<Item>, Vec<Item>) {
    let code = items.iter().filter(|x| !matches!(x, Item::Cw(..))).cloned().collect();
    let com = items.iter().filter(|x| matches!(x, Item::Cw(..))).cloned().collect();
    (code, com)
}

pub struct Verdict {
    pub parsed: bool,
    pub fails: Vec<(&'static str, String)>,
    pub out: String,
    pub stats: Value,
}

/// Decides C11 for one (text, config) on the real implementation.
pub fn check(text: &str, cfg: Cfg) -> Verdict {
    let mut v = Verdict { parsed: false, fails: vec![], out: String::new(), stats: json!({}) };
    let r = catch(|| {
        let db = SimpleParserDatabase::default();
        let db = &db;
        let (root, diags) = db.parse_virtual_with_diagnostics(text);
        if !diags.get_all().is_empty() {
            return None;
        }
        let c_in = content(db, &root, cfg);
        Some((c_in.full, c_in.n_tokens, c_in.n_comments, c_in.n_comment_words, c_in.n_opt_commas, c_in.n_use_items))
    });
    let (in_items, n_tokens, n_comments, n_cw, n_oc, n_use) = match r {
        Ok(Some(x)) => x,
        Ok(None) => return v,
        Err(m) => {
            // a crash of the parser is C09/C10 territory; the input is simply not error-free here
            v.stats = json!({"parser_panic": m});
            return v;
        }
    };
    v.parsed = true;
    // f(t)
    let f1 = catch(|| {
        let db = SimpleParserDatabase::default();
        let (root, _) = db.parse_virtual_with_diagnostics(text);
        get_formatted_file(&db, &root, cfg.to_config())
    });
    let out1 = match f1 {
        Ok(s) => s,
        Err(m) => {
            v.fails.push(("panic-format", m));
            return v;
        }
    };
    v.out = out1.clone();
    // (a) + content of the output + f(f(t))
    let r2 = catch(|| {
        let db = SimpleParserDatabase::default();
        let db = &db;
        let (root, diags) = db.parse_virtual_with_diagnostics(&out1);
        let d = diags.get_all();
        let derr = if d.is_empty() { None } else { Some(diags.format(db)) };
        let c_out = content(db, &root, cfg);
        let out2 = get_formatted_file(db, &root, cfg.to_config());
        (derr, c_out.full, c_out.n_opt_commas, out2)
    });
    let (derr, out_items, n_oc_out, out2) = match r2 {
        Ok(x) => x,
        Err(m) => {
            v.fails.push(("panic-reformat", m));
            return v;
        }
    };
    if let Some(d) = derr {
        v.fails.push(("output-does-not-parse", d.chars().take(600).collect()));
    }
    if out2 != out1 {
        let (l1, l2): (Vec<&str>, Vec<&str>) = (out1.lines().collect(), out2.lines().collect());
        let mut i = 0;
        while i < l1.len() && i < l2.len() && l1[i] == l2[i] {
            i += 1;
        }
        v.fails.push((
            "not-idempotent",
            format!(
                "line {}: f(t) has {:?}, f(f(t)) has {:?}",
                i + 1,
                l1.get(i).unwrap_or(&"<eof>"),
                l2.get(i).unwrap_or(&"<eof>")
            ),
        ));
    }
    if !cfg.reorders() {
        if in_items != out_items {
            let (ci, mi) = split(&in_items);
            let (co, mo) = split(&out_items);
            if ci != co {
                v.fails.push(("code-tokens-changed", first_diff(&ci, &co)));
            } else if mi != mo {
                v.fails.push(("comments-changed", first_diff(&mi, &mo)));
            } else {
                v.fails.push(("comment-moved", first_diff(&in_items, &out_items)));
            }
        }
    } else {
        let (ci, mut mi) = split(&in_items);
        let (co, mut mo) = split(&out_items);
        if ci != co {
            v.fails.push(("code-tokens-changed", first_diff(&ci, &co)));
        }
        mi.sort();
        mo.sort();
        if mi != mo {
            v.fails.push(("comments-changed", first_diff(&mi, &mo)));
        }
    }
    v.stats = json!({
        "tokens": n_tokens, "comments": n_comments, "comment_words": n_cw,
        "opt_commas_in": n_oc, "opt_commas_out": n_oc_out, "use_items": n_use,
        "changed": out1 != text, "out_lines": out1.lines().count(),
        "max_out_line": out1.lines().map(|l| l.chars().count()).max().unwrap_or(0),
    });
    v
}
