//! Impl-level oracle of C11, written from the property text (independent of the Coq model):
//! for an input that parses with zero diagnostics and a FormatterConfig,
//!   (a) the output of `get_formatted_file` parses with zero diagnostics,
//!   (b) formatting the output again returns the output,
//!   (c) the code tokens (real parser terminals, trivia ignored, optional trailing commas ignored)
//!       and the tree shape over them are unchanged; with sorting/merging on, `use`/`mod x;`
//!       runs are compared as (multi)sets of imported paths / module names,
//!   (d) the comments are preserved: the sequence of comment words, each tagged with the comment
//!       prefix (`//`, `///`, `//!`, ...) of its line, interleaved with the code tokens at the same
//!       positions (as a multiset when sorting/merging is on).
use std::panic::AssertUnwindSafe;

use cairo_lang_formatter::{
    BreakingBehaviorConfig, CollectionsBreakingBehavior, FormatterConfig, get_formatted_file,
};
use cairo_lang_parser::utils::SimpleParserDatabase;
use cairo_lang_syntax::node::ast::{self, UsePath};
use cairo_lang_syntax::node::kind::SyntaxKind;
use cairo_lang_syntax::node::{SyntaxNode, TypedSyntaxNode};
use serde_json::{Value, json};

pub const WIDTHS: [usize; 4] = [20, 40, 100, 120];
pub const TABS: [usize; 3] = [2, 4, 8];

/// Option lattice point, encoded in 10 bits: width(2) tab(2; 3 = default 4) sort tuple farr macro merge dup.
#[derive(Clone, Copy, Debug, PartialEq, Eq, Hash, PartialOrd, Ord)]
pub struct Cfg(pub u32);
impl Cfg {
    pub const N: u32 = 4 * 3 * 64;
    pub fn from_index(i: u32) -> Cfg {
        let i = i % Self::N;
        let w = i % 4;
        let t = (i / 4) % 3;
        let b = i / 12;
        Cfg(w | (t << 2) | (b << 4))
    }
    /// The default configuration of the formatter (100, 4, sort, tuple line-by-line, merge).
    pub fn default_cfg() -> Cfg {
        // width idx 2 (100), tab idx 1 (4), sort=1, tuple=1, farr=0, macro=0, merge=1, dup=0
        Cfg(2 | (1 << 2) | (1 << 4) | (1 << 5) | (1 << 8))
    }
    pub fn width(self) -> usize {
        WIDTHS[(self.0 & 3) as usize]
    }
    pub fn tab(self) -> usize {
        TABS[(((self.0 >> 2) & 3) % 3) as usize]
    }
    pub fn sort(self) -> bool {
        self.0 >> 4 & 1 == 1
    }
    pub fn tuple(self) -> bool {
        self.0 >> 5 & 1 == 1
    }
    pub fn farr(self) -> bool {
        self.0 >> 6 & 1 == 1
    }
    pub fn mac(self) -> bool {
        self.0 >> 7 & 1 == 1
    }
    pub fn merge(self) -> bool {
        self.0 >> 8 & 1 == 1
    }
    pub fn dup(self) -> bool {
        self.0 >> 9 & 1 == 1
    }
    pub fn reorders(self) -> bool {
        self.sort() || self.merge()
    }
    pub fn to_config(self) -> FormatterConfig {
        let b = |x: bool| -> CollectionsBreakingBehavior { x.into() };
        FormatterConfig::new(
            self.tab(),
            self.width(),
            self.sort(),
            BreakingBehaviorConfig { tuple: b(self.tuple()), fixed_array: b(self.farr()), macro_call: b(self.mac()) },
            self.merge(),
            self.dup(),
        )
    }
    pub fn describe(self) -> String {
        format!(
            "max_line_length={} tab_size={} sort_module_level_items={} tuple_line_by_line={} fixed_array_line_by_line={} macro_call_line_by_line={} merge_use_items={} allow_duplicate_uses={}",
            self.width(),
            self.tab(),
            self.sort(),
            self.tuple(),
            self.farr(),
            self.mac(),
            self.merge(),
            self.dup()
        )
    }
}

fn catch<T>(f: impl FnOnce() -> T) -> Result<T, String> {
    vcommon::catch(AssertUnwindSafe(f)).map_err(|m| format!("{} @ {}", m, vcommon::last_panic_location()))
}

/// One element of the observable content of a source text.
#[derive(Clone, Debug, PartialEq, Eq, PartialOrd, Ord, Hash)]
pub enum Item {
    /// a code token: kind and text
    Tok(String),
    /// a word of a comment, tagged with the prefix (`/`s and `!`s) of its comment line
    Cw(String, String),
    /// a run of use items in canonical form (set or multiset of leaves)
    Uses(Vec<String>),
    /// a run of `mod x;` items, sorted
    Mods(Vec<String>),
    Open(String),
    Close,
}

pub struct Content {
    /// code tokens + tree shape + comments interleaved (order-sensitive comparison)
    pub full: Vec<Item>,
    pub n_tokens: usize,
    pub n_comments: usize,
    pub n_comment_words: usize,
    pub n_opt_commas: usize,
    pub n_use_items: usize,
    /// comments that stand behind a token on its line
    pub n_trailing_comments: usize,
    /// raw texts of the comment tokens (trimmed)
    pub comment_texts: Vec<String>,
    /// comments held by the header (ItemHeaderDoc) of an item list whose first item is a use/mod item
    pub n_header_comment_before_use: usize,
    /// a `macro` declaration item occurs
    pub has_macro_decl: bool,
    /// distinct pairs of adjacent code terminal kinds
    pub kind_pairs: std::collections::HashSet<(SyntaxKind, SyntaxKind)>,
    /// comments that stand in the middle of a construct: the code token before them is not one of
    /// `, ; { } ( [` (and they are not at the start of the file)
    pub n_mid_construct_comments: usize,
}

struct Walker<'a> {
    db: &'a SimpleParserDatabase,
    /// canonicalise use/mod runs
    reorder: bool,
    dedupe_uses: bool,
    out: Vec<Item>,
    n_tokens: usize,
    n_comments: usize,
    n_comment_words: usize,
    n_opt_commas: usize,
    n_use_items: usize,
    n_trailing_comments: usize,
    in_trailing: bool,
    comment_texts: Vec<String>,
    n_header_comment_before_use: usize,
    has_macro_decl: bool,
    n_mid_construct_comments: usize,
    last_code_token: Option<String>,
    last_code_kind: Option<SyntaxKind>,
    kind_pairs: std::collections::HashSet<(SyntaxKind, SyntaxKind)>,
}

/// The prefix (slashes, exclamation marks) and the whitespace-separated words of one comment line.
pub fn comment_words(text: &str) -> (String, Vec<String>) {
    let t = text.trim();
    let ns = t.chars().take_while(|c| *c == '/').count();
    let rest: String = t.chars().skip(ns).collect();
    let ne = rest.chars().take_while(|c| *c == '!').count();
    let body: String = rest.chars().skip(ne).collect();
    let tag = format!("{}{}", "/".repeat(ns), "!".repeat(ne));
    (tag, body.split_whitespace().map(|s| s.to_string()).collect())
}

impl<'a> Walker<'a> {
    fn is_optional_trailing_comma(&self, n: &SyntaxNode<'a>) -> bool {
        let db = self.db;
        if n.kind(db) != SyntaxKind::TerminalComma {
            return false;
        }
        let Some(parent) = n.parent(db) else { return false };
        let sibs = parent.get_children(db);
        if sibs.last() != Some(n) {
            return false;
        }
        // language rule: a trailing comma after the last element of a separated list is optional,
        // except in a one-element tuple expression/pattern where it makes the tuple
        match parent.kind(db) {
            SyntaxKind::ExprList | SyntaxKind::PatternList => sibs.len() > 2,
            SyntaxKind::MatchArms => true,
            // every other comma-separated list node (`...List`); token trees are handled apart
            k => format!("{k:?}").ends_with("List") && k != SyntaxKind::TokenList,
        }
    }

    fn trivia(&mut self, n: &SyntaxNode<'a>) {
        let db = self.db;
        for t in n.get_children(db) {
            match t.kind(db) {
                SyntaxKind::TokenSingleLineComment
                | SyntaxKind::TokenSingleLineDocComment
                | SyntaxKind::TokenSingleLineInnerComment => {
                    self.n_comments += 1;
                    if self.in_trailing {
                        self.n_trailing_comments += 1;
                    }
                    self.comment_texts.push(t.get_text(db).trim().to_string());
                    if let Some(p) = &self.last_code_token {
                        if ![",", ";", "{", "}", "(", "["].contains(&p.as_str()) {
                            self.n_mid_construct_comments += 1;
                        }
                    }
                    let (tag, words) = comment_words(t.get_text(db));
                    if words.is_empty() {
                        // an empty comment line is still a comment
                        self.out.push(Item::Cw(tag, String::new()));
                    } else {
                        for w in words {
                            self.n_comment_words += 1;
                            self.out.push(Item::Cw(tag.clone(), w));
                        }
                    }
                }
                SyntaxKind::TokenWhitespace | SyntaxKind::TokenNewline => {}
                SyntaxKind::TokenSkipped => {
                    self.out.push(Item::Tok(format!("Skipped:{}", t.get_text(db))));
                }
                _ => self.node(t),
            }
        }
    }

    fn use_leaves(&self, p: &UsePath<'a>, prefix: &str, out: &mut Vec<String>) {
        let db = self.db;
        let txt = |n: SyntaxNode<'a>| n.get_text_without_trivia(db).long(db).to_string();
        match p {
            UsePath::Leaf(l) => {
                let name = txt(l.ident(db).as_syntax_node());
                let alias = match l.alias_clause(db) {
                    ast::OptionAliasClause::Empty(_) => String::new(),
                    ast::OptionAliasClause::AliasClause(a) => format!(" as {}", txt(a.alias(db).as_syntax_node())),
                };
                // `a::{self}` imports `a`
                if name == "self" && !prefix.is_empty() {
                    out.push(format!("{}{}", prefix.trim_end_matches("::"), alias));
                } else {
                    out.push(format!("{prefix}{name}{alias}"));
                }
            }
            UsePath::Single(s) => {
                let seg = txt(s.ident(db).as_syntax_node());
                self.use_leaves(&s.use_path(db), &format!("{prefix}{seg}::"), out);
            }
            UsePath::Multi(m) => {
                for q in m.use_paths(db).elements(db) {
                    self.use_leaves(&q, prefix, out);
                }
            }
            UsePath::Star(_) => out.push(format!("{prefix}*")),
        }
    }

    fn children(&mut self, kids: &[SyntaxNode<'a>]) {
        let db = self.db;
        if kids.len() >= 2
            && kids[0].kind(db) == SyntaxKind::ItemHeaderDoc
            && matches!(kids[1].kind(db), SyntaxKind::ItemUse | SyntaxKind::ItemModule)
        {
            self.n_header_comment_before_use += kids[0]
                .descendants(db)
                .filter(|d| {
                    matches!(
                        d.kind(db),
                        SyntaxKind::TokenSingleLineComment
                            | SyntaxKind::TokenSingleLineDocComment
                            | SyntaxKind::TokenSingleLineInnerComment
                    )
                })
                .count();
        }
        let mut i = 0;
        while i < kids.len() {
            let k = kids[i].kind(db);
            let is_mod_decl = |n: &SyntaxNode<'a>| {
                n.kind(db) == SyntaxKind::ItemModule
                    && matches!(ast::ItemModule::from_syntax_node(db, *n).body(db), ast::MaybeModuleBody::None(_))
            };
            if self.reorder && k == SyntaxKind::ItemUse {
                let mut leaves = vec![];
                let mut j = i;
                while j < kids.len() && kids[j].kind(db) == SyntaxKind::ItemUse {
                    let u = ast::ItemUse::from_syntax_node(db, kids[j]);
                    self.n_use_items += 1;
                    // decorations: attributes, visibility, `$`
                    let mut deco = String::new();
                    for part in [
                        u.attributes(db).as_syntax_node(),
                        u.visibility(db).as_syntax_node(),
                        u.dollar(db).as_syntax_node(),
                    ] {
                        deco.push_str(&self.tok_string(&part));
                    }
                    let mut ls = vec![];
                    self.use_leaves(&u.use_path(db), "", &mut ls);
                    for l in ls {
                        leaves.push(format!("{deco}use {l}"));
                    }
                    // comments attached to the item stay observable
                    self.item_comments(&kids[j]);
                    j += 1;
                }
                leaves.sort();
                if self.dedupe_uses {
                    leaves.dedup();
                }
                // a run that imports nothing (`use a::{};`) may be dropped by merging
                if !leaves.is_empty() {
                    self.out.push(Item::Uses(leaves));
                }
                i = j;
            } else if self.reorder && is_mod_decl(&kids[i]) {
                let mut mods = vec![];
                let mut j = i;
                while j < kids.len() && is_mod_decl(&kids[j]) {
                    let s = self.tok_string(&kids[j]);
                    mods.push(s);
                    self.item_comments(&kids[j]);
                    j += 1;
                }
                mods.sort();
                self.out.push(Item::Mods(mods));
                i = j;
            } else {
                self.node(&kids[i]);
                i += 1;
            }
        }
    }

    /// The normalised code tokens below `n` as one string (comments and shape dropped).
    fn tok_string(&mut self, n: &SyntaxNode<'a>) -> String {
        let before = self.out.len();
        let (a, b, c, d) = (self.n_tokens, self.n_comments, self.n_comment_words, self.n_opt_commas);
        self.node(n);
        (self.n_tokens, self.n_comments, self.n_comment_words, self.n_opt_commas) = (a, b, c, d);
        let items: Vec<Item> = self.out.drain(before..).collect();
        let (items, _) = drop_token_tree_trailing_commas(items);
        let mut s = String::new();
        for it in items {
            if let Item::Tok(t) = it {
                s.push_str(&t);
                s.push(' ');
            }
        }
        s
    }

    /// Only the comments below `n` (used for use/mod items in reorder mode).
    fn item_comments(&mut self, n: &SyntaxNode<'a>) {
        let db = self.db;
        for d in n.descendants(db) {
            if d.kind(db) == SyntaxKind::Trivia {
                let before = self.out.len();
                // trailing trivia of a terminal with text: comments there stand behind a token
                let mut trailing = false;
                if let Some(term) = d.parent(db) {
                    let kids = term.get_children(db);
                    if kids.len() == 3 && kids[2] == d && !kids[1].get_text(db).is_empty() {
                        trailing = true;
                        self.last_code_token = Some(kids[1].get_text(db).to_string());
                    }
                }
                self.in_trailing = trailing;
                self.trivia(&d);
                self.in_trailing = false;
                // keep only comment words
                let tail: Vec<Item> = self.out.drain(before..).filter(|x| matches!(x, Item::Cw(..))).collect();
                self.out.extend(tail);
            }
        }
    }

    /// `;` after a block-like expression statement that is not the last statement of its block:
    /// the language does not need it.
    fn is_optional_semicolon(&self, n: &SyntaxNode<'a>) -> bool {
        let db = self.db;
        if n.kind(db) != SyntaxKind::TerminalSemicolon || n.parent_kind(db) != Some(SyntaxKind::StatementExpr) {
            return false;
        }
        let st = n.parent(db).unwrap();
        let kids = st.get_children(db);
        let blocklike = kids.iter().any(|k| {
            matches!(
                k.kind(db),
                SyntaxKind::ExprBlock
                    | SyntaxKind::ExprIf
                    | SyntaxKind::ExprMatch
                    | SyntaxKind::ExprLoop
                    | SyntaxKind::ExprWhile
                    | SyntaxKind::ExprFor
            )
        });
        if !blocklike {
            return false;
        }
        match st.parent(db) {
            Some(list) => list.get_children(db).last() != Some(&st),
            None => false,
        }
    }

    /// `::` between a path segment and its generic arguments (`Box::<T>` = `Box<T>` in type position;
    /// elsewhere removing it changes the parse, which the shape comparison sees).
    fn is_generic_args_colon_colon(&self, n: &SyntaxNode<'a>) -> bool {
        n.kind(self.db) == SyntaxKind::TerminalColonColon
            && n.parent_kind(self.db) == Some(SyntaxKind::PathSegmentWithGenericArgs)
    }

    fn node(&mut self, n: &SyntaxNode<'a>) {
        let db = self.db;
        let kind = n.kind(db);
        if n.width(db) == cairo_lang_filesystem::span::TextWidth::default() {
            // empty nodes (missing optional parts, empty lists) carry nothing
            return;
        }
        if kind.is_terminal() {
            let kids = n.get_children(db);
            if kids.len() != 3 {
                self.out.push(Item::Tok(format!("malformed-terminal:{kind:?}")));
                return;
            }
            self.trivia(&kids[0]);
            if kind == SyntaxKind::TerminalEmpty {
                // no text
            } else if self.is_optional_trailing_comma(n)
                || self.is_optional_semicolon(n)
                || self.is_generic_args_colon_colon(n)
            {
                self.n_opt_commas += 1;
            } else if kids[1].get_text(db).is_empty() {
                // end of file
            } else {
                self.n_tokens += 1;
                self.out.push(Item::Tok(format!("{:?}:{}", kind, kids[1].get_text(db))));
            }
            if !kids[1].get_text(db).is_empty() {
                self.last_code_token = Some(kids[1].get_text(db).to_string());
                if let Some(p) = self.last_code_kind {
                    self.kind_pairs.insert((p, kind));
                }
                self.last_code_kind = Some(kind);
            }
            self.in_trailing = !kids[1].get_text(db).is_empty();
            self.trivia(&kids[2]);
            self.in_trailing = false;
        } else if kind.is_token() {
            self.n_tokens += 1;
            self.out.push(Item::Tok(format!("{:?}:{}", kind, n.get_text(db))));
        } else {
            if kind == SyntaxKind::ItemMacroDeclaration {
                self.has_macro_decl = true;
            }
            self.out.push(Item::Open(format!("{kind:?}")));
            self.children(n.get_children(db));
            self.out.push(Item::Close);
        }
    }
}

/// (kind, parent kind, grandparent kind) of every node above the token level (trivia excluded).
fn parent_contexts<'a>(
    db: &'a SimpleParserDatabase,
    n: &SyntaxNode<'a>,
    parent: u64,
    grand: u64,
    set: &mut std::collections::HashSet<u64>,
    names: &mut std::collections::HashMap<u64, String>,
) {
    let kind = n.kind(db);
    if kind == SyntaxKind::Trivia || n.text(db).is_some() {
        return;
    }
    let k = kind as u64 + 1;
    set.insert(k * 1_000_000 + parent * 1_000 + grand);
    if parent != 0 {
        names.entry(k * 1_000 + parent).or_insert_with(|| format!("{:?}<{:?}", kind, n.parent_kind(db).unwrap()));
    }
    for c in n.get_children(db) {
        parent_contexts(db, c, k, parent, set, names);
    }
}

/// A comment that directly follows the text of a token (no whitespace between them).
fn has_glued_comment<'a>(db: &'a SimpleParserDatabase, n: &SyntaxNode<'a>) -> bool {
    if n.kind(db).is_terminal() {
        let kids = n.get_children(db);
        if kids.len() == 3 && !kids[1].get_text(db).is_empty() {
            if let Some(first) = kids[2].get_children(db).first() {
                return matches!(
                    first.kind(db),
                    SyntaxKind::TokenSingleLineComment
                        | SyntaxKind::TokenSingleLineDocComment
                        | SyntaxKind::TokenSingleLineInnerComment
                );
            }
        }
        return false;
    }
    n.get_children(db).iter().any(|c| has_glued_comment(db, c))
}

/// Token trees (macro arguments): the formatter formats legacy macro arguments as an argument
/// list, so a comma directly before a closing bracket of the token tree - or before a `>` / `|`
/// leaf (generic arguments, closure parameters inside the macro) - is an optional trailing comma.
fn drop_token_tree_trailing_commas(items: Vec<Item>) -> (Vec<Item>, usize) {
    let mut out: Vec<Item> = Vec::with_capacity(items.len());
    let mut dropped = 0;
    let n = items.len();
    let mut i = 0;
    while i < n {
        // inside token trees the `::` directly before `<` (generic arguments) is optional in type
        // position and the formatter drops it there; token trees carry no type/expression
        // distinction, so it is ignored on both sides (comments attached to it stay)
        if matches!(&items[i], Item::Open(k) if k == "TokenTreeLeaf") {
            let mut e = i + 1;
            let mut cc = 0;
            let mut other = false;
            while e < n && items[e] != Item::Close {
                match &items[e] {
                    Item::Cw(..) => {}
                    Item::Tok(t) if t == "TerminalColonColon:::" => cc += 1,
                    _ => other = true,
                }
                e += 1;
            }
            if e < n && cc == 1 && !other {
                let mut j = e + 1;
                while j < n && matches!(&items[j], Item::Close | Item::Open(_) | Item::Cw(..)) {
                    j += 1;
                }
                if matches!(items.get(j), Some(Item::Tok(t)) if t == "TerminalLT:<") {
                    dropped += 1;
                    out.extend(items[i + 1..e].iter().filter(|x| matches!(x, Item::Cw(..))).cloned());
                    i = e + 1;
                    continue;
                }
            }
        }
        if matches!(&items[i], Item::Open(k) if k == "TokenTreeLeaf") {
            // a leaf holding exactly one comma (comments attached to it stay)
            let mut e = i + 1;
            let mut commas = 0;
            let mut other = false;
            while e < n && items[e] != Item::Close {
                match &items[e] {
                    Item::Cw(..) => {}
                    Item::Tok(t) if t == "TerminalComma:," => commas += 1,
                    _ => other = true,
                }
                e += 1;
            }
            if e < n && commas == 1 && !other {
                // next token after the leaf
                let mut j = e + 1;
                while j < n && matches!(&items[j], Item::Close | Item::Open(_) | Item::Cw(..)) {
                    j += 1;
                }
                let closer = matches!(items.get(j), Some(Item::Tok(t)) if t.starts_with("TerminalRParen:")
                    || t.starts_with("TerminalRBrack:") || t.starts_with("TerminalRBrace:")
                    || t.starts_with("TerminalGT:") || t.starts_with("TerminalOr:"));
                if closer {
                    dropped += 1;
                    out.extend(items[i + 1..e].iter().filter(|x| matches!(x, Item::Cw(..))).cloned());
                    i = e + 1;
                    continue;
                }
            }
        }
        out.push(items[i].clone());
        i += 1;
    }
    (out, dropped)
}

pub fn content<'a>(db: &'a SimpleParserDatabase, root: &SyntaxNode<'a>, cfg: Cfg) -> Content {
    let mut w = Walker {
        db,
        reorder: cfg.reorders(),
        dedupe_uses: cfg.merge() && !cfg.dup(),
        out: vec![],
        n_tokens: 0,
        n_comments: 0,
        n_comment_words: 0,
        n_opt_commas: 0,
        n_use_items: 0,
        n_trailing_comments: 0,
        in_trailing: false,
        comment_texts: vec![],
        n_header_comment_before_use: 0,
        has_macro_decl: false,
        n_mid_construct_comments: 0,
        last_code_token: None,
        last_code_kind: None,
        kind_pairs: Default::default(),
    };
    w.node(root);
    let (full, d) = drop_token_tree_trailing_commas(w.out);
    Content {
        full,
        n_tokens: w.n_tokens - d,
        n_comments: w.n_comments,
        n_comment_words: w.n_comment_words,
        n_opt_commas: w.n_opt_commas + d,
        n_use_items: w.n_use_items,
        n_trailing_comments: w.n_trailing_comments,
        comment_texts: w.comment_texts,
        n_header_comment_before_use: w.n_header_comment_before_use,
        has_macro_decl: w.has_macro_decl,
        n_mid_construct_comments: w.n_mid_construct_comments,
        kind_pairs: w.kind_pairs,
    }
}

fn show(it: &Item) -> String {
    match it {
        Item::Tok(t) => t.clone(),
        Item::Cw(tag, w) => format!("comment[{tag}]:{w}"),
        Item::Uses(u) => format!("uses{u:?}"),
        Item::Mods(u) => format!("mods{u:?}"),
        Item::Open(k) => format!("({k}"),
        Item::Close => ")".into(),
    }
}

/// First difference of two item sequences, with a little context.
fn first_diff(a: &[Item], b: &[Item]) -> String {
    let mut i = 0;
    while i < a.len() && i < b.len() && a[i] == b[i] {
        i += 1;
    }
    let ctx = |v: &[Item]| -> String {
        let lo = i.saturating_sub(3);
        let hi = (i + 4).min(v.len());
        v[lo..hi].iter().map(show).collect::<Vec<_>>().join(" ")
    };
    format!("at item {i}: input ..{}.. / output ..{}..", ctx(a), ctx(b))
}

fn split(items: &[Item]) -> (Vec<Item>, Vec<Item>) {
    let code = items.iter().filter(|x| !matches!(x, Item::Cw(..))).cloned().collect();
    let com = items.iter().filter(|x| matches!(x, Item::Cw(..))).cloned().collect();
    (code, com)
}

pub struct Verdict {
    pub parsed: bool,
    /// (class, detail, signature of a recognised known root cause or "")
    pub fails: Vec<(&'static str, String, String)>,
    pub out: String,
    pub stats: Value,
    /// distinct pairs of adjacent code terminal kinds of the input
    pub kind_pairs: Vec<String>,
    /// distinct (node kind, parent kind, grandparent kind) of the input tree, as k*10^6 + p*10^3 + g
    /// (0 = none), with the names of the (kind, parent) pairs
    pub parent_ctx: Vec<u64>,
    pub parent_ctx_names: Vec<(String, u64)>,
}

/// Decides C11 for one (text, config) on the real implementation.
pub fn check(text: &str, cfg: Cfg) -> Verdict {
    check_tampered(text, cfg, None)
}

/// The oracle with the formatter's answer replaced by `tamper(answer)` (self-test of the
/// oracle's sensitivity: every tampering must be reported, and not as a known finding).
pub fn check_tampered(text: &str, cfg: Cfg, tamper: Option<&dyn Fn(&str) -> Option<String>>) -> Verdict {
    let mut v = Verdict { parsed: false, fails: vec![], out: String::new(), stats: json!({}), kind_pairs: vec![], parent_ctx: vec![], parent_ctx_names: vec![] };
    let r = catch(|| {
        let db = SimpleParserDatabase::default();
        let db = &db;
        let (root, diags) = db.parse_virtual_with_diagnostics(text);
        if !diags.get_all().is_empty() {
            return None;
        }
        let c_in = content(db, &root, cfg);
        let mut ctx_set: std::collections::HashSet<u64> = Default::default();
        let mut ctx_names: std::collections::HashMap<u64, String> = Default::default();
        parent_contexts(db, &root, 0, 0, &mut ctx_set, &mut ctx_names);
        Some((c_in.full, c_in.n_tokens, c_in.n_comments, c_in.n_comment_words, c_in.n_opt_commas, c_in.n_use_items, c_in.n_trailing_comments, c_in.comment_texts, c_in.n_header_comment_before_use, c_in.has_macro_decl, c_in.n_mid_construct_comments, c_in.kind_pairs, ctx_set, ctx_names))
    });
    let (in_items, n_tokens, n_comments, n_cw, n_oc, n_use, n_trail_in, cm_in, hdr_in, has_macro, n_mid_in, pairs_in, ctx_set, ctx_names) = match r {
        Ok(Some(x)) => x,
        Ok(None) => return v,
        Err(m) => {
            // a crash of the parser is C09/C10 territory; the input is simply not error-free here
            v.stats = json!({"parser_panic": m});
            return v;
        }
    };
    v.parsed = true;
    v.kind_pairs = pairs_in.iter().map(|(a, b)| format!("{a:?}>{b:?}")).collect();
    v.parent_ctx = ctx_set.into_iter().collect();
    v.parent_ctx_names = ctx_names.into_iter().map(|(k, n)| (n, k)).collect();
    // f(t)
    let f1 = catch(|| {
        let db = SimpleParserDatabase::default();
        let (root, _) = db.parse_virtual_with_diagnostics(text);
        get_formatted_file(&db, &root, cfg.to_config())
    });
    let mut out1 = match f1 {
        Ok(s) => s,
        Err(m) => {
            v.fails.push(("panic-format", m, String::new()));
            return v;
        }
    };
    if let Some(t) = tamper {
        match t(&out1) {
            Some(s) => out1 = s,
            None => {
                v.stats = json!({"tamper_not_applicable": true});
                return v;
            }
        }
    }
    let out1 = out1;
    v.out = out1.clone();
    // (a) + content of the output + f(f(t))
    let r2 = catch(|| {
        let db = SimpleParserDatabase::default();
        let db = &db;
        let (root, diags) = db.parse_virtual_with_diagnostics(&out1);
        let d = diags.get_all();
        let derr = if d.is_empty() { None } else { Some(diags.format(db)) };
        let c_out = content(db, &root, cfg);
        let glued = has_glued_comment(db, &root);
        let out2 = get_formatted_file(db, &root, cfg.to_config());
        (derr, c_out.full, c_out.n_opt_commas, out2, glued, c_out.n_trailing_comments, c_out.comment_texts, c_out.n_header_comment_before_use)
    });
    let (derr, out_items, n_oc_out, out2, glued, n_trail_out, cm_out, hdr_out) = match r2 {
        Ok(x) => x,
        Err(m) => {
            v.fails.push(("panic-reformat", m, String::new()));
            return v;
        }
    };
    // ---- signatures of the known root causes (see known_findings.txt, property C11) ----
    // (K1 blank comment line and K2 word read as prefix are fixed in /repo: no recogniser, a
    // recurrence is a plain violation; their inputs are kept in corpus/C11 as regressions)
    // K3: a comment that stood on its own line is emitted behind the previous token on the same
    //     line (glued `a +// c`, with one space `let x = // c`, `fn f() { // c`); after re-parsing it
    //     is a trailing comment: the next pass adds a space, drops a blank line or re-breaks the
    //     longer line; glued to a `/` operator it even lexes as a doc comment (`8 /// c`).
    // K4: sorting (with or without merging) moves an item together with its leading blank lines;
    //     at the new place (after the first item's trivia was taken by merging, or directly behind a
    //     `//!` header) the next pass does not keep them.
    // K5: inside a `macro` declaration everything that follows a comment stays on the comment's
    //     line (`;`, `=> { .. }`): tokens are swallowed by the comment, the output does not parse.
    // K6: a comment-bearing use/mod item sorted to the first place of its item list (file or module
    //     body): on re-parsing the comment belongs to the list header (ItemHeaderDoc), the item is
    //     merged/split by the next pass.
    let k3 = "C11-K3-leading-comment-glued";
    let k4 = "C11-K4-merge-drops-blank-line";
    let k5 = "C11-K5-macro-rule-comment-swallows-semicolon";
    let k6 = "C11-K6-file-start-comment-reattached";
    let k7 = "C11-K7-fmt-skip-attribute-with-inner-whitespace";
    let k8 = "C11-K8-merge-reorders-equal-use-items";
    let k9 = "C11-K9-empty-comment-line-merged-away";
    let k10 = "C11-K10-tab-after-slashes";
    // K3 with a `/` operator before the glued comment: `8 /` + `// c` reads as `8` + `/// c`
    let n_div = |v: &[Item]| v.iter().filter(|x| matches!(x, Item::Tok(t) if t == "TerminalDiv:/")).count();
    let k3_slash = n_div(&in_items) > n_div(&out_items) && cm_out.iter().any(|co| {
        co.starts_with("///")
            && !cm_in.contains(co)
            && cm_in.iter().any(|ci| {
                let rest = &co[1..];
                ci.as_str() == rest || ci.starts_with(rest)
            })
    });
    // shape: code tokens + tree structure; linear: code tokens and comment words in text order
    let shape = |v: &[Item]| -> Vec<Item> {
        // nodes that hold no code token (only comments) are dropped
        let mut r: Vec<Item> = vec![];
        for x in v.iter().filter(|x| !matches!(x, Item::Cw(..))) {
            if *x == Item::Close && matches!(r.last(), Some(Item::Open(_))) {
                r.pop();
            } else {
                r.push(x.clone());
            }
        }
        r
    };
    let linear = |v: &[Item]| -> Vec<Item> {
        v.iter().filter(|x| !matches!(x, Item::Open(_) | Item::Close)).cloned().collect()
    };
    let (si, so) = (shape(&in_items), shape(&out_items));
    let (ti, to) = (linear(&si), linear(&so));
    // K5: inside a `macro` declaration the code that follows a comment stays on the comment's line:
    // a comment of the output is a comment of the input with code appended
    let k5_match = has_macro
        && cm_out.iter().any(|co| {
            !cm_in.contains(co)
                && cm_in.iter().any(|ci| {
                    co.len() > ci.len()
                        && co.starts_with(ci.as_str())
                        && !co[ci.len()..].trim().is_empty()
                        // the input comment has text of its own (an empty `///` line is a prefix of
                        // every doc comment)
                        && !ci.trim_start_matches(['/', '!']).trim().is_empty()
                })
        });
    if let Some(d) = derr {
        let sig = if k5_match { k5.to_string() } else if k3_slash { k3.to_string() } else { String::new() };
        v.fails.push(("output-does-not-parse", d.chars().take(600).collect(), sig));
    }
    if out2 != out1 {
        let (l1, l2): (Vec<&str>, Vec<&str>) = (out1.lines().collect(), out2.lines().collect());
        let mut i = 0;
        while i < l1.len() && i < l2.len() && l1[i] == l2[i] {
            i += 1;
        }
        let mut sig: Vec<&str> = vec![];
        // K4: sorting/merging is on, only blank lines in front of use items disappear
        let nb = |ls: &[&str]| -> Vec<String> { ls.iter().filter(|l| !l.trim().is_empty()).map(|l| l.to_string()).collect() };
        if sig.is_empty() && cfg.reorders() && nb(&l1) == nb(&l2) {
            let near_use = |k: usize| -> bool {
                l1[k..].iter().find(|l| !l.trim().is_empty()).map(|l| {
                    let t = l.trim_start();
                    t.starts_with("use ") || t.starts_with("pub use ") || t.starts_with("pub(") || t.starts_with("#[")
                }).unwrap_or(false)
            };
            if i < l1.len() && l1[i].trim().is_empty() && near_use(i) {
                sig.push(k4);
            }
        }
        // K6: sorting moved a comment-bearing use/mod item to the start of its item list (file or
        // module body), where the parser attaches the comment to the list header (ItemHeaderDoc)
        // instead of the item
        if sig.is_empty() && cfg.reorders() && hdr_out > hdr_in {
            sig.push(k6);
        }
        // K7: `#[cairofmt::skip]` written with whitespace inside the attribute path is not
        // recognised on the first pass and is after it
        if sig.is_empty() && out1.matches("cairofmt::skip").count() > text.matches("cairofmt::skip").count() {
            sig.push(k7);
        }
        // K5 (see below) also breaks idempotence
        if sig.is_empty() && k5_match {
            sig.push(k5);
        }
        // K8: merging emits the unmerged (comment-bearing) use items behind the merged ones; with an
        // equal-keyed duplicate the two swap on the second pass: same lines, other order
        if sig.is_empty() && cfg.merge() {
            let (mut a, mut b): (Vec<&str>, Vec<&str>) = (l1.clone(), l2.clone());
            a.sort();
            b.sort();
            let is_use_or_comment = |l: &str| {
                let t = l.trim_start();
                t.starts_with("use ") || t.starts_with("pub use ") || t.starts_with("//") || t.starts_with("#[") || t.starts_with("pub(")
            };
            if a == b && i < l1.len() && i < l2.len() && is_use_or_comment(l1[i]) && is_use_or_comment(l2[i]) {
                sig.push(k8);
            }
        }
        // K3: a comment that stood on its own line was emitted behind the token before it
        // (glued or not): after re-parsing it is a trailing comment
        if sig.is_empty() && (glued || n_trail_out > n_trail_in || k3_slash) {
            sig.push(k3);
        }
        // ... or only on the second pass: the line was broken after the token on the first pass
        // (comment on the next line), the second pass then pulls the comment behind the token
        if sig.is_empty() {
            let n_trail_out2 = catch(|| {
                let db = SimpleParserDatabase::default();
                let (root, _) = db.parse_virtual_with_diagnostics(&out2);
                content(&db, &root, cfg).n_trailing_comments
            })
            .unwrap_or(0);
            if n_trail_out2 > n_trail_out {
                sig.push(k3);
            }
        }
        // ... the K3 family at large: the input has a comment in the middle of a construct (not behind
        // `, ; { } ( [`), where the formatter has no stable place for it (a trailing comment becomes a
        // leading one or the reverse between passes, the following token is re-indented or re-broken)
        //     - only when a comment stands within three lines of the first difference.
        if sig.is_empty() && n_mid_in > 0 {
            let near = |ls: &[&str]| -> bool {
                let lo = i.saturating_sub(3);
                let hi = (i + 4).min(ls.len());
                lo < hi && ls[lo..hi].iter().any(|l| l.contains("//"))
            };
            if near(&l1) || near(&l2) {
                sig.push(k3);
            }
        }
        v.fails.push((
            "not-idempotent",
            format!(
                "line {}: f(t) has {:?}, f(f(t)) has {:?}",
                i + 1,
                l1.get(i).unwrap_or(&"<eof>"),
                l2.get(i).unwrap_or(&"<eof>")
            ),
            sig.join(" "),
        ));
    }
    if si != so {
        if ti != to {
            let sig = if k5_match { k5.to_string() } else if k3_slash { k3.to_string() } else { String::new() };
            v.fails.push(("code-tokens-changed", first_diff(&ti, &to), sig));
        } else {
            v.fails.push(("code-structure-changed", first_diff(&si, &so), String::new()));
        }
    }
    {
        // comments: in order (interleaved with the code tokens) or, when items may move, as a multiset
        let (li, lo) = (linear(&in_items), linear(&out_items));
        let (mut mi, mut mo) = (split(&li).1, split(&lo).1);
        if cfg.reorders() {
            mi.sort();
            mo.sort();
        }
        if mi != mo {
            let mut sig: Vec<&str> = vec![];
            // K9: an empty comment line (`///`) behind a wrapped line of the same prefix is merged
            // away as a "continuation": the words agree, the output has fewer empty comment lines
            let words_only = |v: &[Item]| -> Vec<Item> {
                v.iter().filter(|x| !matches!(x, Item::Cw(_, w) if w.is_empty())).cloned().collect()
            };
            let empties = |v: &[Item]| v.iter().filter(|x| matches!(x, Item::Cw(_, w) if w.is_empty())).count();
            if k5_match {
                sig.push(k5);
            } else if k3_slash {
                sig.push(k3);
            } else if empties(&mo) < empties(&mi) && words_only(&mi) == words_only(&mo) {
                sig.push(k9);
            } else {
                // K10: a TAB (any whitespace but a space) directly behind the comment prefix: Display's
                // trim() drops it and the word is glued to the prefix ("//<TAB>/x" -> "///x"): the words
                // agree once the prefix characters are ignored
                let tab_after_prefix = cm_in.iter().any(|c| {
                    let r = c.trim_start_matches('/').trim_start_matches('!');
                    r.chars().next().map(|ch| ch.is_whitespace() && ch != ' ').unwrap_or(false)
                });
                let strip = |v: &[Item]| -> Vec<String> {
                    let mut r: Vec<String> = v
                        .iter()
                        .filter_map(|x| match x {
                            Item::Cw(_, w) => {
                                let z = w.trim_start_matches(['/', '!']).to_string();
                                if z.is_empty() { None } else { Some(z) }
                            }
                            _ => None,
                        })
                        .collect();
                    if cfg.reorders() {
                        r.sort();
                    }
                    r
                };
                if tab_after_prefix && strip(&mi) == strip(&mo) {
                    sig.push(k10);
                }
            }
            v.fails.push(("comments-changed", first_diff(&mi, &mo), sig.join(" ")));
        } else if !cfg.reorders() && li != lo && si == so {
            v.fails.push(("comment-moved", first_diff(&li, &lo), String::new()));
        }
    }
    v.stats = json!({
        "tokens": n_tokens, "comments": n_comments, "comment_words": n_cw,
        "opt_commas_in": n_oc, "opt_commas_out": n_oc_out, "use_items": n_use,
        "changed": out1 != text, "out_lines": out1.lines().count(),
        "max_out_line": out1.lines().map(|l| l.chars().count()).max().unwrap_or(0),
    });
    v
}

// ---------------- self-test of the oracle ----------------
fn code_part(line: &str) -> &str {
    match line.find("//") {
        Some(i) => &line[..i],
        None => line,
    }
}
fn plain(line: &str) -> bool {
    !line.contains('"') && !line.contains('\'')
}

pub const TAMPERS: [&str; 6] =
    ["drop-semicolon", "swap-arguments", "drop-comment-word", "comment-becomes-doc", "trailing-space", "drop-comma-of-1-tuple"];

/// Property-breaking edits of a formatter answer (None = not applicable to this text).
pub fn tamper(kind: &str, out: &str) -> Option<String> {
    let lines: Vec<&str> = out.lines().collect();
    let rebuild = |k: usize, new_line: String| -> String {
        let mut v: Vec<String> = lines.iter().map(|l| l.to_string()).collect();
        v[k] = new_line;
        v.join("\n") + "\n"
    };
    match kind {
        "drop-semicolon" => {
            let k = lines.iter().position(|l| plain(l) && code_part(l).trim_end().ends_with(';') && code_part(l).contains("let "))?;
            let c = code_part(lines[k]);
            let i = c.rfind(';')?;
            Some(rebuild(k, format!("{}{}", &lines[k][..i], &lines[k][i + 1..])))
        }
        "swap-arguments" => {
            for (k, l) in lines.iter().enumerate() {
                if !plain(l) {
                    continue;
                }
                let c = code_part(l);
                // `(a, b)` with two different identifiers
                if let Some(i) = c.find('(') {
                    let rest = &c[i + 1..];
                    if let Some(j) = rest.find(')') {
                        let inner = &rest[..j];
                        let parts: Vec<&str> = inner.split(", ").collect();
                        let ident = |s: &str| !s.is_empty() && s.chars().all(|ch| ch.is_alphanumeric() || ch == '_');
                        if parts.len() == 2 && ident(parts[0]) && ident(parts[1]) && parts[0] != parts[1] {
                            let new_inner = format!("{}, {}", parts[1], parts[0]);
                            return Some(rebuild(k, format!("{}({}{}", &l[..i], new_inner, &l[i + 1 + j..])));
                        }
                    }
                }
            }
            None
        }
        "drop-comment-word" => {
            let k = lines.iter().position(|l| {
                let t = l.trim_start();
                t.starts_with("// ") && t.split_whitespace().count() >= 3
            })?;
            let l = lines[k].trim_end();
            let i = l.rfind(' ')?;
            Some(rebuild(k, l[..i].to_string()))
        }
        "comment-becomes-doc" => {
            let k = lines.iter().position(|l| l.trim_start().starts_with("// "))?;
            Some(rebuild(k, lines[k].replacen("// ", "/// ", 1)))
        }
        "trailing-space" => {
            // a code line with no comment on it or within four lines of it (trailing spaces inside a
            // comment are kept by the formatter; failures next to comments may be attributed to K3);
            // `#[cairofmt::skip]` regions keep their text raw
            if out.contains("cairofmt") {
                return None;
            }
            let k = (0..lines.len()).find(|&k| {
                !lines[k].trim().is_empty()
                    && (k.saturating_sub(4)..(k + 5).min(lines.len())).all(|j| !lines[j].contains("//"))
            })?;
            Some(rebuild(k, format!("{}  ", lines[k])))
        }
        "drop-comma-of-1-tuple" => {
            for (k, l) in lines.iter().enumerate() {
                if plain(l) && !l.contains('!') && !l.contains('$') && !out.contains("macro ") {
                    // a one-element tuple `(x,)`: the comma is not optional there
                    let c = code_part(l);
                    if let Some(i) = c.find(",)") {
                        let before = &c[..i];
                        if let Some(j) = before.rfind('(') {
                            let inner = &before[j + 1..];
                            let ident = !inner.is_empty() && inner.chars().all(|ch| ch.is_alphanumeric() || ch == '_');
                            let prev_is_call = before[..j].chars().last().map(|ch| ch.is_alphanumeric() || ch == '_' || ch == '>').unwrap_or(false);
                            if ident && !prev_is_call {
                                return Some(rebuild(k, format!("{}{}", &l[..i], &l[i + 1..])));
                            }
                        }
                    }
                }
            }
            None
        }
        _ => None,
    }
}
