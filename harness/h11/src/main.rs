//! h11 - C11 harness.
//!   h11 <outdir> <tier> <corpus-list>   run the oracle (and the Coq case legs) over the corpus,
//!                                       its layout mutants and generated programs
//!   h11 worker                          child process (one request at a time, JSON answers)
//!   h11 one <cfg-bits> <file>           oracle on one file, verbose (replay)
mod adjacency;
mod cases;
mod fixprobe;
mod progen;
mod mutate;
mod oracle;
mod pool;

use std::collections::BTreeMap;
use std::io::{BufRead, Read, Write};
use std::time::{Duration, Instant};

use oracle::Cfg;
use pool::Outcome;
use serde_json::{Value, json};
use vcommon::Rng;

struct Job {
    origin: String,
    kind: String,
    text: String,
    cfgs: Vec<Cfg>,
}

fn worker() {
    vcommon::quiet_panics();
    let t = std::thread::Builder::new()
        .stack_size(1 << 30)
        .spawn(|| {
            let stdin = std::io::stdin();
            let mut inp = stdin.lock();
            let stdout = std::io::stdout();
            let mut out = stdout.lock();
            let mut line = String::new();
            loop {
                line.clear();
                if inp.read_line(&mut line).unwrap_or(0) == 0 {
                    break;
                }
                let mut it = line.split_whitespace();
                let (Some(head), Some(n)) = (it.next(), it.next()) else { break };
                let Ok(n) = n.parse::<usize>() else { break };
                let mut buf = vec![0u8; n];
                if inp.read_exact(&mut buf).is_err() {
                    break;
                }
                let Ok(text) = String::from_utf8(buf) else { break };
                let resp = process(head, &text);
                let _ = writeln!(out, "{}", resp);
                let _ = out.flush();
            }
        })
        .unwrap();
    let _ = t.join();
}

fn process(head: &str, text: &str) -> Value {
    let (op, arg) = head.split_once(':').unwrap_or((head, ""));
    match op {
        "chk" => {
            let mut results = vec![];
            let mut parsed = true;
            let mut pairs: Option<Vec<String>> = None;
            let mut ctx: Vec<u64> = vec![];
            let mut ctx_names: Vec<(String, u64)> = vec![];
            for c in arg.split(',').filter(|s| !s.is_empty()) {
                let cfg = Cfg(c.parse::<u32>().unwrap_or(0));
                let t0 = Instant::now();
                let v = oracle::check(text, cfg);
                if !v.parsed {
                    parsed = false;
                    results.push(json!({"cfg": cfg.0, "stats": v.stats}));
                    break;
                }
                if pairs.is_none() {
                    pairs = Some(v.kind_pairs.clone());
                    ctx = v.parent_ctx.clone();
                    if text.len() < 4000 {
                        ctx_names = v.parent_ctx_names.clone();
                    }
                }
                results.push(json!({
                    "cfg": cfg.0,
                    "fails": v.fails.iter().map(|(c, d, s)| json!([c, d, s])).collect::<Vec<_>>(),
                    "stats": v.stats,
                    "ms": t0.elapsed().as_millis() as u64,
                    "out_hash": hash(&v.out),
                }));
            }
            json!({"parsed": parsed, "results": results, "pairs": pairs.unwrap_or_default(), "ctx": ctx, "ctx_names": ctx_names})
        }
        "lb" => cases::lb_case(arg, text),
        _ => json!({"error": "unknown op"}),
    }
}

fn hash(s: &str) -> u64 {
    let mut h: u64 = 0xcbf29ce484222325;
    for b in s.bytes() {
        h ^= b as u64;
        h = h.wrapping_mul(0x100000001b3);
    }
    h
}

fn one(args: &[String]) {
    vcommon::quiet_panics();
    let cfg = Cfg(args[0].parse().expect("cfg bits"));
    let text = std::fs::read_to_string(&args[1]).expect("file");
    println!("config: {}", cfg.describe());
    let v = oracle::check(&text, cfg);
    println!("parsed without diagnostics: {}", v.parsed);
    println!("--- f(t) ---\n{}--- end ---", v.out);
    for (c, d, s) in &v.fails {
        println!("FAIL {c}: {d}{}", if s.is_empty() { String::new() } else { format!("  [known root cause: {s}]") });
    }
    println!("stats: {}", v.stats);
    std::process::exit(if v.fails.is_empty() { 0 } else { 1 });
}

fn pick_cfgs(rng: &mut Rng, n_random: usize, with_default: bool) -> Vec<Cfg> {
    let mut v = vec![];
    if with_default {
        v.push(Cfg::default_cfg());
    }
    for _ in 0..n_random {
        let c = Cfg::from_index(rng.below(Cfg::N as u64) as u32);
        if !v.contains(&c) {
            v.push(c);
        }
    }
    v
}

fn main() {
    let args: Vec<String> = std::env::args().skip(1).collect();
    if args.first().map(|s| s.as_str()) == Some("worker") {
        return worker();
    }
    if args.first().map(|s| s.as_str()) == Some("fixprobe") {
        return fixprobe::run(&args[1]);
    }
    if args.first().map(|s| s.as_str()) == Some("one") {
        return one(&args[1..]);
    }
    if args.len() < 3 {
        eprintln!("usage: h11 <outdir> <quick|thorough> <corpus-list>");
        std::process::exit(2);
    }
    vcommon::quiet_panics();
    let t_start = Instant::now();
    let outdir = std::path::PathBuf::from(&args[0]);
    std::fs::create_dir_all(&outdir).unwrap();
    let thorough = args[1] == "thorough";
    let mut rng = Rng::from_env();
    let seed = rng.0;

    // ---- corpus ----
    let mut corpus: Vec<(String, String)> = vec![];
    for p in std::fs::read_to_string(&args[2]).expect("corpus list").lines() {
        if let Ok(t) = std::fs::read_to_string(p) {
            corpus.push((p.to_string(), t));
        }
    }
    let n_workers = std::thread::available_parallelism().map(|n| n.get()).unwrap_or(8).min(14);

    // ---- jobs ----
    let mut jobs: Vec<Job> = vec![];
    // (1) every corpus input: default config + random lattice points
    let n_rand_corpus = if thorough { 6 } else { 2 };
    for (p, t) in &corpus {
        if p.contains("/corpus/C11/") {
            // inputs of the known / fixed findings: always at the configurations they were found at
            let mut cfgs = vec![Cfg::default_cfg(), Cfg(4), Cfg(0), Cfg(738), Cfg(2 | (1 << 2) | (1 << 4)), Cfg(1014)];
            cfgs.extend(pick_cfgs(&mut rng, 4, false));
            jobs.push(Job { origin: p.clone(), kind: "regression".into(), text: t.clone(), cfgs });
            continue;
        }
        jobs.push(Job { origin: p.clone(), kind: "corpus".into(), text: t.clone(), cfgs: pick_cfgs(&mut rng, n_rand_corpus, true) });
    }
    // (2) layout mutants of sampled corpus inputs
    let n_mut = if thorough { 6000 } else { 700 };
    let mut parsed_pool: Vec<usize> = (0..corpus.len()).filter(|i| corpus[*i].1.len() < 60_000).collect();
    // deterministic shuffle
    for i in (1..parsed_pool.len()).rev() {
        let j = rng.below(i as u64 + 1) as usize;
        parsed_pool.swap(i, j);
    }
    let mut n_mut_made = 0;
    let mut mut_unparsable_src = 0;
    let mut k = 0;
    while n_mut_made < n_mut && !parsed_pool.is_empty() && k < parsed_pool.len() * 40 {
        let (p, t) = &corpus[parsed_pool[k % parsed_pool.len()]];
        k += 1;
        let Some(ps) = mutate::pieces(t) else {
            mut_unparsable_src += 1;
            continue;
        };
        if ps.len() < 3 {
            continue;
        }
        let m = mutate::MUTATIONS[(k + n_mut_made) % mutate::MUTATIONS.len()];
        let text = mutate::mutate(&ps, m, &mut rng);
        let with_default = rng.below(3) == 0;
        jobs.push(Job { origin: p.clone(), kind: format!("mutant:{m}"), text, cfgs: pick_cfgs(&mut rng, 2, with_default) });
        n_mut_made += 1;
    }
    // (3) generated programs
    let n_gen = if thorough { 4000 } else { 500 };
    for i in 0..n_gen {
        let text = progen::Gen::new(&mut rng).program();
        jobs.push(Job { origin: format!("gen#{i}"), kind: "generated".into(), text, cfgs: pick_cfgs(&mut rng, 3, i % 4 == 0) });
    }
    // (3b) systematic adjacency inputs (statement / expression / list / use-run neighbourhoods)
    let adj = adjacency::all();
    let narrow = [Cfg(1 << 2), Cfg(1 | (1 << 2) | (1 << 5) | (1 << 6) | (1 << 7)), Cfg(0), Cfg(3 | (2 << 2) | (1 << 4) | (1 << 8))];
    for (i, a) in adj.iter().enumerate() {
        let mut cfgs = vec![Cfg::default_cfg(), narrow[i % narrow.len()]];
        if thorough {
            cfgs.push(narrow[(i + 1) % narrow.len()]);
            cfgs.extend(pick_cfgs(&mut rng, 1, false));
        }
        jobs.push(Job { origin: a.label.clone(), kind: format!("adjacency:{}", adjacency::family(&a.label)), text: a.text.clone(), cfgs });
    }
    // (4) the whole option lattice on a few small inputs
    let n_full = if thorough { 24 } else { 4 };
    let mut smalls: Vec<(String, String)> = corpus
        .iter()
        .filter(|(p, t)| p.contains("cairo-lang-formatter/test_data/cairo_files") && t.len() < 6000)
        .cloned()
        .collect();
    for i in (1..smalls.len()).rev() {
        let j = rng.below(i as u64 + 1) as usize;
        smalls.swap(i, j);
    }
    for i in 0..n_full {
        let (origin, text) = if i % 2 == 0 && i / 2 < smalls.len() {
            smalls[i / 2].clone()
        } else {
            (format!("gen-lattice#{i}"), progen::Gen::new(&mut rng).program())
        };
        let all: Vec<Cfg> = (0..Cfg::N).map(Cfg::from_index).collect();
        for chunk in all.chunks(96) {
            jobs.push(Job { origin: origin.clone(), kind: "lattice".into(), text: text.clone(), cfgs: chunk.to_vec() });
        }
    }

    // ---- run ----
    let reqs: Vec<(String, &str)> = jobs
        .iter()
        .map(|j| (format!("chk:{}", j.cfgs.iter().map(|c| c.0.to_string()).collect::<Vec<_>>().join(",")), j.text.as_str()))
        .collect();
    let t_run = Instant::now();
    let outcomes = pool::run_all(&reqs, n_workers, Duration::from_secs(if thorough { 60 } else { 30 }));
    let run_s = t_run.elapsed().as_secs_f64();

    // ---- collect ----
    let mut failures: Vec<Value> = vec![];
    let mut by_kind: BTreeMap<String, (u64, u64, u64)> = BTreeMap::new(); // inputs, parsed, evaluations
    let mut by_cfg_width: BTreeMap<usize, u64> = BTreeMap::new();
    let mut by_class: BTreeMap<String, u64> = BTreeMap::new();
    let mut cfg_seen = std::collections::BTreeSet::new();
    let (mut evals, mut changed, mut tokens, mut comments, mut cwords, mut reordering_evals) = (0u64, 0u64, 0u64, 0u64, 0u64, 0u64);
    let mut distinct = std::collections::BTreeSet::new();
    let mut samples: Vec<String> = vec![];
    let mut fail_dir_n = 0;
    let mut adj_family: BTreeMap<String, (u64, u64)> = BTreeMap::new(); // generated, error-free
    let mut pairs_adj: std::collections::BTreeSet<String> = Default::default();
    let mut pairs_other: std::collections::BTreeSet<String> = Default::default();
    let mut ctx_adj: std::collections::BTreeSet<u64> = Default::default();
    let mut ctx_other: std::collections::BTreeSet<u64> = Default::default();
    let mut ctx_name_of: BTreeMap<u64, String> = BTreeMap::new();
    let mut kept_by_sig: BTreeMap<String, u64> = BTreeMap::new();
    std::fs::create_dir_all(outdir.join("failing")).unwrap();
    for (j, o) in jobs.iter().zip(outcomes.iter()) {
        let e = by_kind.entry(j.kind.split(':').next().unwrap().to_string()).or_default();
        e.0 += 1;
        match o {
            Outcome::Answer(v) => {
                let is_adj = j.kind.starts_with("adjacency:");
                if is_adj {
                    adj_family.entry(j.kind[10..].to_string()).or_default().0 += 1;
                }
                if !v["parsed"].as_bool().unwrap_or(false) {
                    continue;
                }
                e.1 += 1;
                if is_adj {
                    adj_family.entry(j.kind[10..].to_string()).or_default().1 += 1;
                }
                for t in v["ctx"].as_array().unwrap_or(&vec![]) {
                    if let Some(t) = t.as_u64() {
                        if is_adj { ctx_adj.insert(t); } else { ctx_other.insert(t); }
                    }
                }
                if is_adj {
                    for nm in v["ctx_names"].as_array().unwrap_or(&vec![]) {
                        if let (Some(n), Some(k)) = (nm[0].as_str(), nm[1].as_u64()) {
                            ctx_name_of.entry(k).or_insert_with(|| n.to_string());
                        }
                    }
                }
                for p in v["pairs"].as_array().unwrap_or(&vec![]) {
                    if let Some(p) = p.as_str() {
                        if is_adj {
                            pairs_adj.insert(p.to_string());
                        } else {
                            pairs_other.insert(p.to_string());
                        }
                    }
                }
                for r in v["results"].as_array().unwrap_or(&vec![]) {
                    let cfg = Cfg(r["cfg"].as_u64().unwrap_or(0) as u32);
                    evals += 1;
                    e.2 += 1;
                    cfg_seen.insert(cfg.0);
                    *by_cfg_width.entry(cfg.width()).or_default() += 1;
                    if cfg.reorders() {
                        reordering_evals += 1;
                    }
                    let st = &r["stats"];
                    if st["changed"].as_bool().unwrap_or(false) {
                        changed += 1;
                        distinct.insert((hash(&j.text), r["out_hash"].as_u64().unwrap_or(0)));
                    }
                    tokens += st["tokens"].as_u64().unwrap_or(0);
                    comments += st["comments"].as_u64().unwrap_or(0);
                    cwords += st["comment_words"].as_u64().unwrap_or(0);
                    if samples.len() < 12 && evals % 97 == 1 {
                        samples.push(format!(
                            "{} [{}] cfg({}) tokens={} comments={} changed={} max_out_line={}",
                            j.origin, j.kind, cfg.describe(), st["tokens"], st["comments"], st["changed"], st["max_out_line"]
                        ));
                    }
                    for f in r["fails"].as_array().unwrap_or(&vec![]) {
                        let class = f[0].as_str().unwrap_or("?").to_string();
                        let sig = f[2].as_str().unwrap_or("").to_string();
                        *by_class.entry(if sig.is_empty() { class.clone() } else { format!("{class} [{sig}]") }).or_default() += 1;
                        let cnt = kept_by_sig.entry(sig.clone()).or_insert(0u64);
                        *cnt += 1;
                        if (sig.is_empty() && *cnt <= 150) || (!sig.is_empty() && *cnt <= 12) {
                            fail_dir_n += 1;
                            let fp = outdir.join("failing").join(format!("f{fail_dir_n:03}.cairo"));
                            let _ = std::fs::write(&fp, &j.text);
                            failures.push(json!({
                                "class": class, "why": f[1], "sig": sig, "origin": j.origin, "kind": j.kind,
                                "cfg_bits": cfg.0, "config": cfg.describe(), "input_file": fp.to_string_lossy(),
                                "input_len": j.text.len(),
                                "replay_cmd": format!("harness/target/debug/h11 one {} {}", cfg.0, fp.to_string_lossy()),
                            }));
                        }
                    }
                }
            }
            Outcome::Hang(s) => {
                *by_class.entry("hang".into()).or_default() += 1;
                fail_dir_n += 1;
                let fp = outdir.join("failing").join(format!("f{fail_dir_n:03}.cairo"));
                let _ = std::fs::write(&fp, &j.text);
                failures.push(json!({"class": "hang", "why": format!("no answer after {s:.0}s (confirmed with a 3x budget)"),
                    "origin": j.origin, "kind": j.kind, "cfgs": j.cfgs.iter().map(|c| c.0).collect::<Vec<_>>(),
                    "input_file": fp.to_string_lossy(), "input_len": j.text.len()}));
            }
            Outcome::Died(s) => {
                *by_class.entry("crash".into()).or_default() += 1;
                fail_dir_n += 1;
                let fp = outdir.join("failing").join(format!("f{fail_dir_n:03}.cairo"));
                let _ = std::fs::write(&fp, &j.text);
                failures.push(json!({"class": "crash", "why": format!("worker died: {s}"),
                    "origin": j.origin, "kind": j.kind, "cfgs": j.cfgs.iter().map(|c| c.0).collect::<Vec<_>>(),
                    "input_file": fp.to_string_lossy(), "input_len": j.text.len()}));
            }
        }
    }

    // ---- self-test of the oracle: tampered formatter answers must be reported ----
    let selftest;
    {
        let mut applied: BTreeMap<&str, (u64, u64)> = BTreeMap::new();
        let mut undetected: Vec<Value> = vec![];
        let cfg = Cfg(2 | (1 << 2)); // width 100, tab 4, no sorting, no merging
        let mut tried = 0;
        for (p, t) in corpus.iter().filter(|(p, t)| t.len() < 20_000 && !p.contains("/corpus/C11/")).take(if thorough { 400 } else { 120 }) {
            tried += 1;
            for kind in oracle::TAMPERS {
                let f = move |s: &str| oracle::tamper(kind, s);
                let v = oracle::check_tampered(t, cfg, Some(&f));
                if !v.parsed || v.stats.get("tamper_not_applicable").is_some() {
                    continue;
                }
                let e = applied.entry(kind).or_default();
                e.0 += 1;
                // detected = some failure without a known-finding signature
                if v.fails.iter().any(|(_, _, s)| s.is_empty()) {
                    e.1 += 1;
                } else if undetected.len() < 5 {
                    undetected.push(json!({"tamper": kind, "input": p, "fails": v.fails.iter().map(|(c, _, s)| format!("{c} [{s}]")).collect::<Vec<_>>()}));
                }
            }
        }
        selftest = json!({
            "inputs": tried,
            "by_tamper": applied.iter().map(|(k, v)| (k.to_string(), json!({"applied": v.0, "detected": v.1}))).collect::<serde_json::Map<_, _>>(),
            "undetected": undetected,
        });
    }

    // ---- Coq case legs ----
    let case_summary = if std::env::var("H11_ORACLE_ONLY").is_ok() {
        json!({})
    } else {
        cases::write_cases(&outdir, thorough, &corpus, &mut rng, n_workers)
    };

    let np_adj: std::collections::BTreeSet<u64> = ctx_adj.iter().map(|t| t / 1000).collect();
    let np_other: std::collections::BTreeSet<u64> = ctx_other.iter().map(|t| t / 1000).collect();
    let np_sample: Vec<String> = np_adj.difference(&np_other).filter_map(|k| ctx_name_of.get(k).cloned()).take(60).collect();
    let summary = json!({
        "seed": seed, "tier": args[1],
        "corpus_inputs": corpus.len(),
        "jobs": jobs.len(),
        "inputs_by_kind": by_kind.iter().map(|(k, v)| (k.clone(), json!({"inputs": v.0, "error_free": v.1, "evaluations": v.2}))).collect::<serde_json::Map<_, _>>(),
        "mutant_sources_not_error_free": mut_unparsable_src,
        "evaluations": evals,
        "evaluations_with_sort_or_merge": reordering_evals,
        "evaluations_output_differs_from_input": changed,
        "distinct_input_output_pairs_changed": distinct.len(),
        "distinct_configs": cfg_seen.len(),
        "lattice_size": Cfg::N,
        "evaluations_by_width": by_cfg_width.iter().map(|(k, v)| (k.to_string(), json!(v))).collect::<serde_json::Map<_, _>>(),
        "code_tokens_compared": tokens, "comments_compared": comments, "comment_words_compared": cwords,
        "failures_by_class": by_class.iter().map(|(k, v)| (k.clone(), json!(v))).collect::<serde_json::Map<_, _>>(),
        "oracle_run_s": run_s, "workers": n_workers,
        "cases": case_summary,
        "oracle_selftest": selftest,
        "adjacency": {
            "inputs_generated": adj.len(),
            "inputs_error_free": adj_family.values().map(|v| v.1).sum::<u64>(),
            "by_family": adj_family.iter().map(|(k, v)| (k.clone(), json!({"generated": v.0, "error_free": v.1}))).collect::<serde_json::Map<_, _>>(),
            "token_kind_pairs_adjacency_inputs": pairs_adj.len(),
            "token_kind_pairs_other_inputs": pairs_other.len(),
            "token_kind_pairs_only_in_adjacency_inputs": pairs_adj.difference(&pairs_other).count(),
            "token_kind_pairs_total": pairs_adj.union(&pairs_other).count(),
            "node_parent_pairs_adjacency_inputs": np_adj.len(),
            "node_parent_pairs_other_inputs": np_other.len(),
            "node_parent_pairs_only_in_adjacency_inputs": np_adj.difference(&np_other).count(),
            "node_parent_grandparent_triples_adjacency_inputs": ctx_adj.len(),
            "node_parent_grandparent_triples_other_inputs": ctx_other.len(),
            "node_parent_grandparent_triples_only_in_adjacency_inputs": ctx_adj.difference(&ctx_other).count(),
            "sample_node_parent_pairs_only_in_adjacency_inputs": np_sample,
            "sample_pairs_only_in_adjacency_inputs": pairs_adj.difference(&pairs_other).take(40).cloned().collect::<Vec<_>>(),
        },
        "total_s": t_start.elapsed().as_secs_f64(),
    });
    std::fs::write(outdir.join("summary.json"), serde_json::to_string_pretty(&summary).unwrap()).unwrap();
    std::fs::write(outdir.join("oracle_failures.json"), serde_json::to_string_pretty(&failures).unwrap()).unwrap();
    std::fs::write(outdir.join("samples.txt"), samples.join("\n") + "\n").unwrap();
    println!(
        "h11: {} jobs, {} evaluations ({} configs), {} changed layouts, {} oracle failures {:?}, {:.0}s",
        jobs.len(), evals, cfg_seen.len(), changed, failures.len(), by_class, t_start.elapsed().as_secs_f64()
    );
}
