//! Process pool (watchdog): each worker is a child `h11 worker` process fed one request at a time.
//! No answer within the timeout = hang (child killed), child death = crash (stack overflow,
//! abort); both are attributed to the request in flight.
use std::io::{BufRead, BufReader, Write};
use std::process::{Child, ChildStdin, Command, Stdio};
use std::sync::atomic::{AtomicUsize, Ordering};
use std::sync::mpsc::{Receiver, RecvTimeoutError, channel};
use std::sync::{Arc, Mutex};
use std::time::{Duration, Instant};

use serde_json::Value;

pub enum Outcome {
    Answer(Value),
    Hang(f64),
    Died(String),
}

pub struct Proc {
    child: Child,
    stdin: ChildStdin,
    rx: Receiver<String>,
}

impl Proc {
    pub fn spawn() -> Proc {
        let exe = std::env::current_exe().expect("current_exe");
        let mut child = Command::new(exe)
            .arg("worker")
            .stdin(Stdio::piped())
            .stdout(Stdio::piped())
            .stderr(Stdio::null())
            .spawn()
            .expect("spawn worker");
        let stdin = child.stdin.take().unwrap();
        let stdout = child.stdout.take().unwrap();
        let (tx, rx) = channel();
        std::thread::spawn(move || {
            for line in BufReader::new(stdout).lines() {
                match line {
                    Ok(l) => {
                        if tx.send(l).is_err() {
                            break;
                        }
                    }
                    Err(_) => break,
                }
            }
        });
        Proc { child, stdin, rx }
    }

    fn kill(&mut self) {
        let _ = self.child.kill();
        let _ = self.child.wait();
    }

    /// One request (`head` is a single line without newline); on hang or death the child is replaced.
    pub fn request(&mut self, head: &str, text: &str, timeout: Duration) -> Outcome {
        let t0 = Instant::now();
        let hdr = format!("{} {}\n", head, text.len());
        let sent = self.stdin.write_all(hdr.as_bytes()).is_ok()
            && self.stdin.write_all(text.as_bytes()).is_ok()
            && self.stdin.flush().is_ok();
        let res = if !sent { Err(RecvTimeoutError::Disconnected) } else { self.rx.recv_timeout(timeout) };
        match res {
            Ok(line) => match serde_json::from_str::<Value>(&line) {
                Ok(v) => Outcome::Answer(v),
                Err(e) => {
                    self.kill();
                    *self = Proc::spawn();
                    Outcome::Died(format!("unparsable answer: {e}"))
                }
            },
            Err(RecvTimeoutError::Timeout) => {
                self.kill();
                *self = Proc::spawn();
                Outcome::Hang(t0.elapsed().as_secs_f64())
            }
            Err(RecvTimeoutError::Disconnected) => {
                let status = self.child.wait().map(|s| format!("{s}")).unwrap_or_else(|e| format!("{e}"));
                *self = Proc::spawn();
                Outcome::Died(status)
            }
        }
    }
}

impl Drop for Proc {
    fn drop(&mut self) {
        self.kill();
    }
}

/// Runs `jobs` (head, text) over `n` worker processes; results in input order.
pub fn run_all(jobs: &[(String, &str)], n: usize, timeout: Duration) -> Vec<Outcome> {
    let next = Arc::new(AtomicUsize::new(0));
    let results: Arc<Mutex<Vec<Option<Outcome>>>> = Arc::new(Mutex::new((0..jobs.len()).map(|_| None).collect()));
    std::thread::scope(|s| {
        for _ in 0..n.max(1) {
            let next = next.clone();
            let results = results.clone();
            s.spawn(move || {
                let mut p = Proc::spawn();
                loop {
                    let i = next.fetch_add(1, Ordering::SeqCst);
                    if i >= jobs.len() {
                        break;
                    }
                    let (head, text) = (&jobs[i].0, jobs[i].1);
                    // budget grows with the input and the number of configurations in the request
                    let ncfg = head.split(',').count() as u32;
                    let t = timeout + Duration::from_millis((text.len() as u64 / 40) * ncfg as u64);
                    let mut o = p.request(head, text, t);
                    if let Outcome::Hang(_) = o {
                        // the machine is shared: confirm a hang with a three times longer budget
                        o = p.request(head, text, t * 3);
                    }
                    results.lock().unwrap()[i] = Some(o);
                }
            });
        }
    });
    Arc::try_unwrap(results).ok().unwrap().into_inner().unwrap().into_iter().map(|o| o.unwrap()).collect()
}
