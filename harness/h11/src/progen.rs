//! Small generated programs: items, statements and expressions of every shape the formatter has
//! break-point rules for, with identifier lengths drawn so that lines land on both sides of the
//! configured widths, and comments at list gaps.
use vcommon::Rng;

pub struct Gen<'a> {
    pub rng: &'a mut Rng,
    depth: u32,
    out: String,
}

const OPS: [&str; 14] = ["+", "-", "*", "/", "%", "==", "!=", "<", "<=", "&&", "||", "&", "|", "^"];

impl<'a> Gen<'a> {
    pub fn new(rng: &'a mut Rng) -> Self {
        Gen { rng, depth: 0, out: String::new() }
    }
    fn ident(&mut self) -> String {
        let len = match self.rng.below(10) {
            0 => 1,
            1..=5 => 2 + self.rng.below(8),
            6..=7 => 10 + self.rng.below(12),
            8 => 20 + self.rng.below(25),
            _ => 38 + self.rng.below(70),
        } as usize;
        let mut s = String::new();
        for i in 0..len {
            let c = if i > 0 && i % 6 == 5 { '_' } else { (b'a' + self.rng.below(26) as u8) as char };
            s.push(c);
        }
        // avoid keywords
        if ["as", "if", "fn", "of", "in", "let", "mut", "ref", "use", "mod", "pub", "for", "nopanic", "loop", "impl", "enum", "else", "true", "type", "self", "const", "break", "false", "match", "super", "trait", "while", "crate", "return", "struct", "extern", "continue", "implicits", "macro", "do", "dyn", "try", "box", "move", "priv", "static", "typeof", "unsafe", "where", "yield", "virtual", "override", "become", "final", "abstract", "async", "await"].contains(&s.as_str()) {
            s.push('_');
        }
        s
    }
    fn ty(&mut self) -> String {
        let d = self.depth;
        self.depth += 1;
        let r = if d > 2 {
            self.rng.pick(&["felt252", "u8", "u256", "bool", "ByteArray"]).to_string()
        } else {
            match self.rng.below(9) {
                0 => format!("Array<{}>", self.ty()),
                1 => format!("({}, {})", self.ty(), self.ty()),
                2 => format!("[{}; {}]", self.ty(), 1 + self.rng.below(5)),
                3 => format!("@{}", self.ty()),
                4 => format!("Result<{}, {}>", self.ty(), self.ty()),
                5 => format!("{}::{}<{}>", self.ident(), self.ident(), self.ty()),
                6 => format!("Span<{}>", self.ty()),
                _ => self.rng.pick(&["felt252", "u8", "u128", "u256", "bool", "ByteArray", "()"]).to_string(),
            }
        };
        self.depth -= 1;
        r
    }
    fn maybe_comment(&mut self, p: u64) -> String {
        if self.rng.below(100) < p {
            let long = self.rng.below(4) == 0;
            format!(" {}\n", crate::mutate::gen_comment(self.rng, long))
        } else {
            String::new()
        }
    }
    fn list(&mut self, n: u64, f: &mut dyn FnMut(&mut Self) -> String, trailing: bool) -> String {
        let mut s = String::new();
        for i in 0..n {
            if i > 0 {
                s.push_str(", ");
                s.push_str(&self.maybe_comment(4));
            }
            s.push_str(&f(self));
        }
        if trailing && n > 0 {
            s.push(',');
            s.push_str(&self.maybe_comment(6));
        }
        s
    }
    fn lit(&mut self) -> String {
        match self.rng.below(7) {
            0 => format!("{}", self.rng.below(1000)),
            1 => format!("0x{:x}_u128", self.rng.next()),
            2 => format!("'{}'", self.ident()),
            3 => format!("\"{} {}\"", self.ident(), self.ident()),
            4 => "true".into(),
            5 => format!("{}_u8", self.rng.below(255)),
            _ => format!("{}", self.rng.next()),
        }
    }
    fn pattern(&mut self) -> String {
        let d = self.depth;
        self.depth += 1;
        let r = match if d > 2 { 0 } else { self.rng.below(7) } {
            1 => {
                let n = 2 + self.rng.below(3);
                let t = self.rng.bool();
                format!("({})", self.list(n, &mut |g| g.pattern(), t))
            }
            2 => {
                let n = 1 + self.rng.below(4);
                let t = self.rng.bool();
                format!("{} {{ {} }}", self.ident(), self.list(n, &mut |g| g.ident(), t))
            }
            3 => format!("{}::{}({})", self.ident(), self.ident(), self.pattern()),
            4 => "_".into(),
            5 => format!("mut {}", self.ident()),
            _ => self.ident(),
        };
        self.depth -= 1;
        r
    }
    pub fn expr(&mut self) -> String {
        let d = self.depth;
        self.depth += 1;
        let choice = if d > 4 { self.rng.below(3) } else { self.rng.below(22) };
        let r = match choice {
            0 => self.ident(),
            1 => self.lit(),
            2 => format!("{}::{}", self.ident(), self.ident()),
            3 | 4 => {
                let n = 2 + self.rng.below(5);
                let mut s = self.expr();
                let same = self.rng.bool();
                let op0 = *self.rng.pick(&OPS);
                for _ in 1..n {
                    let op = if same { op0 } else { *self.rng.pick(&OPS) };
                    let rhs = self.expr();
                    // comparison operators are non-associative
                    if ["==", "!=", "<", "<="].contains(&op) {
                        s = format!("({s}) {op} ({rhs})");
                    } else {
                        s = format!("{s} {op} {rhs}");
                    }
                }
                s
            }
            5 | 6 => {
                let n = self.rng.below(6);
                let t = self.rng.bool();
                format!("{}({})", self.ident(), self.list(n, &mut |g| g.expr(), t))
            }
            7 => {
                let n = 1 + self.rng.below(4);
                let mut s = self.ident();
                for _ in 0..n {
                    let k = self.rng.below(3);
                    let t = self.rng.bool();
                    s = format!("{s}.{}({})", self.ident(), self.list(k, &mut |g| g.expr(), t));
                }
                s
            }
            8 => {
                let n = 2 + self.rng.below(4);
                let t = self.rng.bool();
                format!("({})", self.list(n, &mut |g| g.expr(), t))
            }
            9 => format!("({},)", self.expr()),
            10 => {
                let n = 1 + self.rng.below(6);
                let t = self.rng.bool();
                format!("[{}]", self.list(n, &mut |g| g.expr(), t))
            }
            11 => {
                let n = self.rng.below(6);
                let t = self.rng.bool();
                let m = *self.rng.pick(&["array!", "println!", "assert!", "format!", "panic!"]);
                let (o, c) = *self.rng.pick(&[("[", "]"), ("(", ")")]);
                format!("{m}{o}{}{c}", self.list(n, &mut |g| g.expr(), t))
            }
            12 => {
                let n = 1 + self.rng.below(4);
                let t = self.rng.bool();
                format!("{} {{ {} }}", self.ident_upper(), self.list(n, &mut |g| { let a = g.ident(); let b = g.expr(); if g.rng.below(4) == 0 { a } else { format!("{a}: {b}") } }, t))
            }
            13 => {
                let n = 1 + self.rng.below(3);
                let t = self.rng.bool();
                format!("|{}| {}", self.list(n, &mut |g| g.ident(), t), self.expr())
            }
            14 => format!("if {} {{ {} }} else {{ {} }}", self.expr(), self.expr(), self.expr()),
            15 => {
                let n = 1 + self.rng.below(4);
                let mut s = format!("match {} {{ ", self.ident());
                for i in 0..n {
                    let p = self.pattern();
                    let e = if self.rng.below(3) == 0 { format!("{{ {} }}", self.block_body(2)) } else { self.expr() };
                    s.push_str(&format!("{p} => {e}"));
                    if i + 1 < n || self.rng.bool() {
                        s.push(',');
                    }
                    s.push_str(&self.maybe_comment(8));
                    s.push(' ');
                }
                s.push('}');
                s
            }
            16 => format!("{}?", self.ident()),
            17 => format!("!{}", self.ident()),
            18 => format!("-{}", self.ident()),
            19 => format!("{}[{}]", self.ident(), self.expr()),
            20 => format!("@{}.{}", self.ident(), self.ident()),
            _ => format!("*{}", self.ident()),
        };
        self.depth -= 1;
        r
    }
    fn ident_upper(&mut self) -> String {
        let mut s = self.ident();
        let c = s.remove(0).to_ascii_uppercase();
        s.insert(0, c);
        s
    }
    fn stmt(&mut self) -> String {
        let lead = self.maybe_comment(10);
        let lead = if lead.is_empty() { lead } else { lead.trim_start().to_string() };
        let s = match self.rng.below(12) {
            0..=3 => {
                let ty = if self.rng.below(3) == 0 { format!(": {}", self.ty()) } else { String::new() };
                format!("let {}{ty} = {};", self.pattern(), self.expr())
            }
            4 => format!("{} = {};", self.ident(), self.expr()),
            5 => format!("{} += {};", self.ident(), self.expr()),
            6 => format!("{};", self.expr()),
            7 => format!("return {};", self.expr()),
            8 => format!("while {} {{ {} }}", self.expr(), self.block_body(2)),
            9 => format!("for {} in {} {{ {} }}", self.pattern(), self.expr(), self.block_body(2)),
            10 => format!("loop {{ {} break; }}", self.block_body(2)),
            _ => format!("if {} {{ {} }}", self.expr(), self.block_body(2)),
        };
        format!("{lead}{s}{}", self.maybe_comment(8))
    }
    fn block_body(&mut self, max: u64) -> String {
        let d = self.depth;
        self.depth += 2;
        let n = if d > 4 { 0 } else { self.rng.below(max + 1) };
        let mut s = String::new();
        for _ in 0..n {
            s.push_str(&self.stmt());
            s.push_str(*self.rng.pick(&[" ", "\n", "\n\n"]));
        }
        if n == 0 && self.rng.below(3) == 0 {
            s.push_str(&self.maybe_comment(50));
        }
        self.depth -= 2;
        s
    }
    fn use_path(&mut self, d: u32) -> String {
        match if d > 2 { 0 } else { self.rng.below(7) } {
            0 | 1 => {
                let n = 1 + self.rng.below(3);
                let mut s = (0..n).map(|_| self.small_ident()).collect::<Vec<_>>().join("::");
                if self.rng.below(5) == 0 {
                    s.push_str(&format!(" as {}", self.small_ident()));
                }
                s
            }
            2 => format!("{}::*", self.small_ident()),
            3 => format!("{}::{}", self.small_ident(), self.use_path(d + 1)),
            _ => {
                let n = 1 + self.rng.below(5);
                let t = self.rng.bool();
                let slf = self.rng.below(4) == 0;
                let mut l = self.list(n, &mut |g| g.use_path(d + 1), t);
                if slf {
                    l = format!("self, {l}");
                }
                format!("{}::{{{}}}", self.small_ident(), l)
            }
        }
    }
    fn small_ident(&mut self) -> String {
        // few distinct names so that merging and duplicate handling trigger
        let base = *self.rng.pick(&["a", "b", "core", "dd", "e", "starknet", "zz", "m", "long_module_name_for_breaking", "x1"]);
        base.to_string()
    }
    fn params(&mut self) -> String {
        let n = self.rng.below(6);
        let t = self.rng.bool();
        self.list(
            n,
            &mut |g| {
                let m = *g.rng.pick(&["", "", "ref ", "mut "]);
                format!("{m}{}: {}", g.ident(), g.ty())
            },
            t,
        )
    }
    fn func(&mut self) -> String {
        let generics = if self.rng.below(3) == 0 {
            let n = 1 + self.rng.below(3);
            let t = self.rng.bool();
            format!("<{}>", self.list(n, &mut |g| { let a = g.ident_upper(); if g.rng.bool() { format!("{a}, +Drop<{a}>") } else { a } }, t))
        } else {
            String::new()
        };
        let ret = if self.rng.bool() { format!(" -> {}", self.ty()) } else { String::new() };
        let imp = if self.rng.below(6) == 0 { " implicits(RangeCheck, GasBuiltin) nopanic".to_string() } else { String::new() };
        let tail = if self.rng.below(3) == 0 { self.expr() } else { String::new() };
        format!("fn {}{generics}({}){ret}{imp} {{\n{}{tail}\n}}", self.ident(), self.params(), self.block_body(5))
    }
    fn item(&mut self) -> String {
        let attr = match self.rng.below(8) {
            0 => "#[inline(always)]\n".to_string(),
            1 => format!("#[derive({})]\n", self.list(3, &mut |g| g.ident_upper(), false)),
            _ => String::new(),
        };
        let vis = *self.rng.pick(&["", "", "pub ", "pub(crate) "]);
        let body = match self.rng.below(12) {
            0..=4 => self.func(),
            5 => {
                let n = self.rng.below(6);
                let t = self.rng.bool();
                format!("struct {} {{ {} }}", self.ident_upper(), self.list(n, &mut |g| format!("{}: {}", g.ident(), g.ty()), t))
            }
            6 => {
                let n = 1 + self.rng.below(5);
                let t = self.rng.bool();
                format!("enum {} {{ {} }}", self.ident_upper(), self.list(n, &mut |g| { let a = g.ident_upper(); if g.rng.bool() { format!("{a}: {}", g.ty()) } else { a } }, t))
            }
            7 => format!("const {}: {} = {};", self.ident().to_uppercase(), self.ty(), self.expr()),
            8 => {
                let n = self.rng.below(3);
                let mut s = format!("trait {}<T> {{\n", self.ident_upper());
                for _ in 0..n {
                    s.push_str(&format!("fn {}({}) -> {};\n", self.ident(), self.params(), self.ty()));
                }
                s.push('}');
                s
            }
            9 => {
                let n = self.rng.below(3);
                let mut s = format!("impl {} of {}<{}> {{\n", self.ident_upper(), self.ident_upper(), self.ty());
                for _ in 0..n {
                    s.push_str(&self.func());
                    s.push('\n');
                }
                s.push('}');
                s
            }
            10 => format!("type {} = {};", self.ident_upper(), self.ty()),
            _ => {
                let mut s = format!("mod {} {{\n", self.ident());
                s.push_str(&self.uses_and_mods());
                s.push_str(&self.func());
                s.push_str("\n}");
                s
            }
        };
        format!("{attr}{vis}{body}")
    }
    fn uses_and_mods(&mut self) -> String {
        let mut s = String::new();
        let n = self.rng.below(7);
        for _ in 0..n {
            match self.rng.below(8) {
                0 => s.push_str(&format!("mod {};\n", self.small_ident())),
                1 => s.push_str(&format!("pub use {};\n", self.use_path(0))),
                2 => {
                    s.push_str(crate::mutate::gen_comment(self.rng, false).as_str());
                    s.push('\n');
                    s.push_str(&format!("use {};\n", self.use_path(0)));
                }
                3 => s.push_str(&format!("#[cfg(test)]\nuse {};\n", self.use_path(0))),
                _ => s.push_str(&format!("use {};\n", self.use_path(0))),
            }
            if self.rng.below(6) == 0 {
                s.push('\n');
            }
        }
        s
    }
    pub fn program(mut self) -> String {
        let mut s = self.uses_and_mods();
        let n = 1 + self.rng.below(4);
        for _ in 0..n {
            let c = self.maybe_comment(25);
            s.push_str(c.trim_start());
            s.push_str(&self.item());
            s.push_str("\n\n");
        }
        self.out = s;
        self.out
    }
}
