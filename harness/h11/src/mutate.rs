//! Layout mutants of an error-free source text: the code tokens stay, the trivia between them is
//! rewritten (re-wrapped, re-indented, squeezed, comments injected at token gaps, long `//`
//! comments with long words / URLs), and identifiers are stretched to stress the line length.
use cairo_lang_parser::utils::SimpleParserDatabase;
use cairo_lang_syntax::node::kind::SyntaxKind;
use vcommon::Rng;

#[derive(Clone, Debug)]
pub struct Piece {
    pub kind: SyntaxKind,
    pub text: String,
}

/// All leaf tokens (code and trivia) of the real parse tree in text order; None when the text
/// does not parse with zero diagnostics.
pub fn pieces(text: &str) -> Option<Vec<Piece>> {
    let db = SimpleParserDatabase::default();
    let (root, diags) = db.parse_virtual_with_diagnostics(text);
    if !diags.get_all().is_empty() {
        return None;
    }
    let mut out = vec![];
    leaves(&db, &root, &mut out);
    Some(out)
}

fn leaves<'a>(db: &'a SimpleParserDatabase, n: &cairo_lang_syntax::node::SyntaxNode<'a>, out: &mut Vec<Piece>) {
    if n.text(db).is_some() {
        let t = n.get_text(db);
        if !t.is_empty() {
            out.push(Piece { kind: n.kind(db), text: t.to_string() });
        }
        return;
    }
    for c in n.get_children(db) {
        leaves(db, c, out);
    }
}

fn is_ws(k: SyntaxKind) -> bool {
    matches!(k, SyntaxKind::TokenWhitespace | SyntaxKind::TokenNewline)
}
pub fn is_comment(k: SyntaxKind) -> bool {
    matches!(
        k,
        SyntaxKind::TokenSingleLineComment
            | SyntaxKind::TokenSingleLineDocComment
            | SyntaxKind::TokenSingleLineInnerComment
    )
}

pub const MUTATIONS: [&str; 8] =
    ["rewrap", "reindent", "squeeze", "comment-inject", "long-comment", "stretch-ident", "one-line", "mixed"];

const WORDS: [&str; 24] = [
    "the", "value", "of", "x", "is", "returned,", "unless", "overflow", "happens.", "TODO(name):", "see",
    "a", "felt252", "-", "`foo(bar)`", "NOTE:", "e.g.", "1.", "*", "and", "then,", "(optional)", "i.e.", "ok",
];

fn long_word(rng: &mut Rng) -> String {
    match rng.below(4) {
        0 => format!(
            "https://example.org/{}",
            (0..(20 + rng.below(120))).map(|i| if i % 9 == 8 { '/' } else { (b'a' + (rng.below(26) as u8)) as char }).collect::<String>()
        ),
        1 => "x".repeat(15 + rng.below(130) as usize),
        2 => format!("`{}`", "path::".repeat(3 + rng.below(25) as usize)),
        _ => format!("0x{}", "f".repeat(10 + rng.below(100) as usize)),
    }
}

/// A comment line (without the newline). `style` picks the corner that is stressed.
pub fn gen_comment(rng: &mut Rng, long: bool) -> String {
    let prefix = match rng.below(12) {
        0 => "///",
        1 => "//!",
        2 => "////",
        3 => "//",
        _ => "//",
    };
    let lead = match rng.below(8) {
        0 => "",
        1 => "  ",
        2 => "    ",
        _ => " ",
    };
    let n = if long { 8 + rng.below(30) } else { 1 + rng.below(7) };
    let mut s = format!("{prefix}{lead}");
    for i in 0..n {
        if i > 0 {
            s.push_str(if rng.below(12) == 0 { "  " } else { " " });
        }
        if long && rng.below(9) == 0 {
            s.push_str(&long_word(rng));
        } else if rng.below(40) == 0 {
            s.push_str(*rng.pick(&["/x", "!y", "//", "é", "日本語", "a\u{a0}b", "x\ty"]));
        } else {
            s.push_str(*rng.pick(&WORDS));
        }
    }
    if rng.below(10) == 0 {
        s.push_str("  ");
    }
    s
}

fn glue_safe(a: &str, b: &str) -> bool {
    // removing the whitespace between a and b cannot change the token boundaries
    let safe = |c: char| "()[]{},;".contains(c);
    a.chars().last().map(safe).unwrap_or(true) || b.chars().next().map(safe).unwrap_or(true)
}

/// Applies one mutation; returns the new text.
pub fn mutate(ps: &[Piece], kind: &str, rng: &mut Rng) -> String {
    // groups: code/comment pieces separated by whitespace runs
    let mut out = String::new();
    let n = ps.len();
    // identifier stretching map
    let mut stretch: Vec<(String, String)> = vec![];
    let do_stretch = kind == "stretch-ident" || (kind == "mixed" && rng.bool());
    if do_stretch {
        let ids: Vec<&Piece> = ps.iter().filter(|p| p.kind == SyntaxKind::TokenIdentifier).collect();
        if !ids.is_empty() {
            let k = 1 + rng.below(4);
            for _ in 0..k {
                let id = rng.pick(&ids).text.clone();
                if stretch.iter().any(|(a, _)| *a == id) || id == "self" || id == "super" || id == "crate" {
                    continue;
                }
                let target = *rng.pick(&[12usize, 19, 20, 21, 30, 39, 40, 41, 60, 80, 99, 100, 101, 119, 120, 121]);
                let mut s = id.clone();
                while s.len() < target {
                    s.push(if s.len() % 7 == 6 { '_' } else { (b'a' + (s.len() % 26) as u8) as char });
                }
                stretch.push((id, s));
            }
        }
    }
    let p_inject = match kind {
        "comment-inject" => 12,
        "long-comment" => 25,
        "mixed" => 20,
        _ => 0,
    };
    let mut i = 0;
    let mut prev_code: Option<String> = None; // last non-ws piece text
    let mut after_comment = false;
    while i < n {
        // whitespace run [i, j)
        let mut j = i;
        while j < n && is_ws(ps[j].kind) {
            j += 1;
        }
        let ws_run: String = ps[i..j].iter().map(|p| p.text.as_str()).collect();
        let next = if j < n { Some(&ps[j]) } else { None };
        // choose the new separator
        let had_ws = j > i;
        let mut sep = String::new();
        match kind {
            "rewrap" | "mixed" => {
                if had_ws || rng.below(20) == 0 {
                    sep = (*rng.pick(&[" ", " ", "\n", "\n\n", "\n\n\n", "\n    ", "  ", "\t", " \n", "\n\t\t"])).to_string();
                }
            }
            "one-line" => {
                if had_ws {
                    sep = " ".into();
                }
            }
            "squeeze" => {
                if had_ws {
                    let a = prev_code.clone().unwrap_or_default();
                    let b = next.map(|p| p.text.clone()).unwrap_or_default();
                    sep = if glue_safe(&a, &b) && next.map(|p| !is_comment(p.kind)).unwrap_or(true) { "".into() } else { " ".into() };
                }
            }
            "reindent" => {
                // keep the line structure, change the indentation
                let nl = ws_run.matches('\n').count();
                if nl > 0 {
                    sep = "\n".repeat(nl);
                    let k = *rng.pick(&[0usize, 1, 2, 3, 4, 7, 8, 12, 16, 24]);
                    if rng.below(6) == 0 {
                        sep.push('\t');
                    } else {
                        sep.push_str(&" ".repeat(k));
                    }
                } else {
                    sep = ws_run.clone();
                }
            }
            _ => sep = ws_run.clone(),
        }
        if after_comment && !sep.contains('\n') {
            sep.insert(0, '\n');
        }
        // comment injection at this gap (never at the very start of a `#[cairofmt::skip]` text: harmless anyway)
        if p_inject > 0 && j < n && rng.below(100) < p_inject {
            let long = kind == "long-comment" || rng.below(3) == 0;
            let c = gen_comment(rng, long);
            if prev_code.is_some() && rng.below(3) == 0 && !after_comment {
                // trailing comment on the previous token's line
                sep = format!(" {c}\n{}", sep.trim_start_matches([' ', '\t']));
            } else {
                let k = 1 + rng.below(if long { 3 } else { 2 });
                let mut block = String::new();
                for q in 0..k {
                    if q > 0 {
                        block.push('\n');
                    }
                    block.push_str(&if q == 0 { c.clone() } else { gen_comment(rng, long) });
                }
                sep = format!("{}\n{}\n{}", sep, block, " ".repeat(rng.below(9) as usize));
            }
        }
        if prev_code.is_some() || !sep.trim().is_empty() {
            out.push_str(&sep);
        }
        i = j;
        if i >= n {
            break;
        }
        let p = &ps[i];
        let mut t = p.text.clone();
        if p.kind == SyntaxKind::TokenIdentifier {
            if let Some((_, s)) = stretch.iter().find(|(a, _)| *a == t) {
                t = s.clone();
            }
        }
        out.push_str(&t);
        after_comment = is_comment(p.kind);
        prev_code = Some(t);
        i += 1;
    }
    if !out.ends_with('\n') {
        out.push('\n');
    }
    out
}
