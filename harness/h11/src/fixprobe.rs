//! `h11 fixprobe <corpus-list>`: evaluates a proposed two-line repair of K1/K2 in
//! format_leading_comment. The function below is a verbatim copy of formatter_impl.rs
//! (CommentLine, format_leading_comment) with the two marked conditions added; it is compared
//! with the implementation (through the hook) on every comment block of the corpus: the repair
//! must not change any output there (so the pinned formatter tests stay green), must be
//! idempotent and must keep the tagged words on generated comments.
use std::fmt;

use cairo_lang_formatter::formatter_impl::verif_hook;
use vcommon::Rng;

#[derive(Clone, PartialEq, Eq)]
struct CommentLine {
    n_slashes: usize,
    n_exclamations: usize,
    n_leading_spaces: usize,
    content: String,
}
impl CommentLine {
    pub fn from_string(mut comment_line: String) -> Self {
        comment_line = comment_line.trim().to_string();
        let n_slashes = comment_line.chars().take_while(|c| *c == '/').count();
        comment_line = comment_line.chars().skip(n_slashes).collect();
        let n_exclamations = comment_line.chars().take_while(|c| *c == '!').count();
        comment_line = comment_line.chars().skip(n_exclamations).collect();
        let n_leading_spaces = comment_line.chars().take_while(|c| *c == ' ').count();
        let content = comment_line.chars().skip(n_leading_spaces).collect();
        Self { n_slashes, n_exclamations, n_leading_spaces, content }
    }
    pub fn is_same_prefix(&self, other: &Self) -> bool {
        self.n_slashes == other.n_slashes
            && self.n_exclamations == other.n_exclamations
            && self.n_leading_spaces == other.n_leading_spaces
    }
    pub fn is_open_line(&self) -> bool {
        self.content.ends_with(|c: char| c.is_alphanumeric() || c == ',')
    }
}
impl fmt::Display for CommentLine {
    fn fmt(&self, f: &mut fmt::Formatter<'_>) -> fmt::Result {
        write!(
            f,
            "{}{}{}{}",
            "/".repeat(self.n_slashes),
            "!".repeat(self.n_exclamations),
            " ".repeat(self.n_leading_spaces),
            self.content.trim()
        )
    }
}

pub fn format_leading_comment_fixed(content: &str, cur_indent: usize, max_line_width: usize) -> String {
    let mut formatted_comment = String::new();
    let mut prev_comment_line = CommentLine::from_string("".to_string());
    let append_line = |formatted_comment: &mut String, comment_line: &CommentLine| {
        formatted_comment.push_str(&" ".repeat(cur_indent));
        formatted_comment.push_str(&comment_line.to_string());
        formatted_comment.push('\n');
    };
    let mut last_line_broken = false;
    for line in content.lines() {
        let orig_comment_line = CommentLine::from_string(line.to_string());
        let max_comment_width = max_line_width
            .saturating_sub(cur_indent)
            .saturating_sub(orig_comment_line.n_slashes)
            .saturating_sub(orig_comment_line.n_exclamations)
            .saturating_sub(orig_comment_line.n_leading_spaces);
        let mut current_line = if last_line_broken
            && prev_comment_line.is_open_line()
            && prev_comment_line.is_same_prefix(&orig_comment_line)
        {
            prev_comment_line.content += " ";
            prev_comment_line
        } else {
            append_line(&mut formatted_comment, &prev_comment_line);
            CommentLine { content: "".to_string(), ..orig_comment_line }
        };
        last_line_broken = false;
        for word in orig_comment_line.content.split(' ') {
            if current_line.content.is_empty()
                || current_line.content.len() + word.len() <= max_comment_width
                // K1: the empty word of a double space never starts a line of its own.
                || word.trim().is_empty()
                // K2: a word that would be read as part of the prefix stays on its line.
                || (orig_comment_line.n_leading_spaces == 0 && word.starts_with(['/', '!']))
            {
                current_line.content.push_str(word);
                current_line.content.push(' ');
            } else {
                append_line(&mut formatted_comment, &current_line);
                last_line_broken = true;
                current_line = CommentLine { content: word.to_string(), ..current_line };
                current_line.content.push(' ');
            }
        }
        prev_comment_line = CommentLine {
            n_slashes: orig_comment_line.n_slashes,
            n_exclamations: orig_comment_line.n_exclamations,
            n_leading_spaces: orig_comment_line.n_leading_spaces,
            content: current_line.content.trim().to_string(),
        };
    }
    append_line(&mut formatted_comment, &prev_comment_line);
    formatted_comment.trim().to_string()
}

fn tagged_words(c: &str) -> Vec<(String, String)> {
    let mut v = vec![];
    for l in c.lines() {
        let (tag, ws) = crate::oracle::comment_words(l);
        for w in ws {
            v.push((tag.clone(), w));
        }
    }
    v
}

pub fn run(list: &str) {
    let mut blocks: Vec<String> = vec![];
    let mut golden: Vec<String> = vec![];
    for p in std::fs::read_to_string(list).expect("list").lines() {
        if let Ok(t) = std::fs::read_to_string(p) {
            let mut cur: Vec<&str> = vec![];
            let mut out = vec![];
            for line in t.lines() {
                if line.trim_start().starts_with("//") {
                    cur.push(line);
                } else if !cur.is_empty() {
                    out.push(cur.join("\n"));
                    cur.clear();
                }
            }
            if !cur.is_empty() {
                out.push(cur.join("\n"));
            }
            if p.contains("cairo-lang-formatter/test_data") {
                golden.extend(out.iter().cloned());
            }
            blocks.extend(out);
        }
    }
    let (mut same, mut diff, mut gdiff) = (0u64, 0u64, 0u64);
    let mut shown = 0;
    for (is_golden, set) in [(true, &golden), (false, &blocks)] {
        for b in set.iter() {
            for indent in [0usize, 4, 8, 12] {
                for w in [100usize, 120, 40, 20] {
                    if is_golden && w != 100 {
                        continue;
                    }
                    let a = verif_hook::format_leading_comment(b, indent, w);
                    let f = format_leading_comment_fixed(b, indent, w);
                    if a == f {
                        same += 1;
                    } else {
                        diff += 1;
                        if is_golden {
                            gdiff += 1;
                        }
                        if shown < 5 {
                            shown += 1;
                            println!("DIFF (golden={is_golden}) indent={indent} w={w}\n--- in\n{b}\n--- impl\n{a}\n--- fixed\n{f}\n");
                        }
                    }
                }
            }
        }
    }
    println!("corpus comment blocks: {} ({} from the formatter's test data); same={same} differ={diff} differ_on_golden_at_100={gdiff}", blocks.len(), golden.len());
    // generated comments: idempotence and word preservation of the repaired function
    let mut rng = Rng(12345);
    let (mut n, mut nonidem, mut words_changed, mut impl_nonidem, mut impl_words) = (0u64, 0u64, 0u64, 0u64, 0u64);
    let mut ex = 0;
    for _ in 0..60_000 {
        let k = 1 + rng.below(3);
        let long = rng.below(2) == 0;
        let c = (0..k).map(|_| crate::mutate::gen_comment(&mut rng, long)).collect::<Vec<_>>().join("\n");
        let w = rng.below(130) as usize;
        let i = rng.below(30) as usize;
        n += 1;
        let f1 = format_leading_comment_fixed(&c, i, w);
        let f2 = format_leading_comment_fixed(&f1, i, w);
        if f1 != f2 {
            nonidem += 1;
            if ex < 4 {
                ex += 1;
                println!("fixed NOT IDEMPOTENT indent={i} w={w}\n--- in\n{c}\n--- f\n{f1}\n--- ff\n{f2}\n");
            }
        }
        if tagged_words(&f1) != tagged_words(&c) {
            words_changed += 1;
            if ex < 8 {
                ex += 1;
                println!("fixed WORDS CHANGED indent={i} w={w}\n--- in\n{c}\n--- f\n{f1}\n");
            }
        }
        let a1 = verif_hook::format_leading_comment(&c, i, w);
        if verif_hook::format_leading_comment(&a1, i, w) != a1 {
            impl_nonidem += 1;
        }
        if tagged_words(&a1) != tagged_words(&c) {
            impl_words += 1;
        }
    }
    println!("generated comments: {n}; repaired: not idempotent {nonidem}, words changed {words_changed}; implementation: not idempotent {impl_nonidem}, words changed {impl_words}");
}
