//! Coq case legs: what the implementation answers, printed as Coq terms for C11/Corr.v.
//!  cw_NNN.v  format_leading_comment(content, cur_indent, max_line_width) -> output   (hook)
//!  lb_NNN.v  the LineBuilder tree handed to `build` with (max_line_length, tab_size) -> output  (hook)
use std::collections::BTreeSet;
use std::fmt::Write as _;
use std::panic::AssertUnwindSafe;
use std::time::Duration;

use cairo_lang_formatter::formatter_impl::verif_hook;
use cairo_lang_formatter::get_formatted_file;
use cairo_lang_parser::utils::SimpleParserDatabase;
use serde_json::{Value, json};
use vcommon::Rng;

use crate::oracle::Cfg;
use crate::pool::{self, Outcome};

/// A Coq list literal; long lists are written as appended chunks (the list notation nests).
fn coq_list_chunked(items: &[String]) -> String {
    if items.len() <= 200 {
        return format!("[{}]", items.join(";"));
    }
    let parts: Vec<String> = items.chunks(200).map(|c| format!("[{}]", c.join(";"))).collect();
    format!("({})", parts.join(" ++ "))
}

fn coq_str(s: &str) -> String {
    let items: Vec<String> = s.chars().map(|c| (c as u32).to_string()).collect();
    coq_list_chunked(&items)
}

fn note_alnum(s: &str, tbl: &mut BTreeSet<u32>) {
    for c in s.chars() {
        if c.is_alphanumeric() {
            tbl.insert(c as u32);
        }
    }
}

fn coq_tbl(tbl: &BTreeSet<u32>) -> String {
    format!("[{}]", tbl.iter().map(|c| c.to_string()).collect::<Vec<_>>().join(";"))
}

fn b(v: &Value) -> &'static str {
    if v.as_bool().unwrap_or(false) { "true" } else { "false" }
}

/// What the dumped trees exercise (measured): [components, zones, breaks, single-breakpoint
/// breaks, empty-line breaks, comma-if-broken breaks, non-optional breaks, leading comments,
/// trailing comments, open zones]
pub type TreeStats = [usize; 10];

fn coq_components(v: &Value, tbl: &mut BTreeSet<u32>, n_comp: &mut TreeStats) -> String {
    let mut parts = vec![];
    for c in v.as_array().unwrap() {
        n_comp[0] += 1;
        let tag = c[0].as_str().unwrap();
        match tag {
            "Z" => {
                n_comp[1] += 1;
                if c[2]["is_open"].as_bool() == Some(true) {
                    n_comp[9] += 1;
                }
            }
            "B" => {
                n_comp[2] += 1;
                if c[6].as_bool() == Some(true) {
                    n_comp[3] += 1;
                }
                if c[1].as_bool() == Some(true) {
                    n_comp[4] += 1;
                }
                if c[7].as_bool() == Some(true) {
                    n_comp[5] += 1;
                }
                if c[4].as_bool() == Some(false) {
                    n_comp[6] += 1;
                }
            }
            "C" => {
                if c[2].as_bool() == Some(true) {
                    n_comp[8] += 1;
                } else {
                    n_comp[7] += 1;
                }
            }
            _ => {}
        }
        parts.push(match tag {
            "T" => format!("T {}", coq_str(c[1].as_str().unwrap())),
            "Z" => {
                let bld = &c[2];
                format!(
                    "Z {} {} {} {}",
                    coq_components(&bld["children"], tbl, n_comp),
                    b(&bld["is_open"]),
                    coq_components(&bld["pending"], tbl, n_comp),
                    c[1].as_u64().unwrap()
                )
            }
            "S" => "S_".to_string(),
            "I" => format!("I {}", c[1].as_u64().unwrap()),
            "B" => format!(
                "B {} {} {} {} {} {} {}",
                b(&c[1]),
                c[2].as_u64().unwrap(),
                c[3].as_u64().unwrap(),
                b(&c[4]),
                b(&c[5]),
                b(&c[6]),
                b(&c[7])
            ),
            "C" => {
                let s = c[1].as_str().unwrap();
                note_alnum(s, tbl);
                format!("C {} {}", coq_str(s), b(&c[2]))
            }
            _ => panic!("unknown component tag"),
        });
    }
    coq_list_chunked(&parts)
}

/// Worker side of the lb leg: formats `text` under `cfg` through the hook; answers with the tree
/// (JSON), the string built from it and whether it equals get_formatted_file's answer.
pub fn lb_case(arg: &str, text: &str) -> Value {
    let cfg = Cfg(arg.parse::<u32>().unwrap_or(0));
    let r = vcommon::catch(AssertUnwindSafe(|| {
        let db = SimpleParserDatabase::default();
        let (root, diags) = db.parse_virtual_with_diagnostics(text);
        if !diags.get_all().is_empty() {
            return None;
        }
        let (tree, built) = verif_hook::line_tree_and_output(&db, &root, cfg.to_config());
        let direct = get_formatted_file(&db, &root, cfg.to_config());
        Some((tree, built, direct))
    }));
    match r {
        Ok(Some((tree, built, direct))) => json!({"ok": true, "tree": tree, "built": built, "same": built == direct}),
        Ok(None) => json!({"ok": false}),
        Err(m) => json!({"ok": false, "panic": format!("{} @ {}", m, vcommon::last_panic_location())}),
    }
}

/// Comment blocks (consecutive `//` lines joined by '\n', as push_comment aggregates them).
fn corpus_comment_blocks(text: &str, out: &mut Vec<String>) {
    let mut cur: Vec<&str> = vec![];
    for line in text.lines() {
        let t = line.trim_start();
        if t.starts_with("//") {
            cur.push(line);
        } else if !cur.is_empty() {
            out.push(cur.join("\n"));
            cur.clear();
        }
    }
    if !cur.is_empty() {
        out.push(cur.join("\n"));
    }
}

pub fn write_cases(
    outdir: &std::path::Path,
    thorough: bool,
    corpus: &[(String, String)],
    rng: &mut Rng,
    n_workers: usize,
) -> Value {
    // ---------------- comment leg ----------------
    let mut cw: Vec<(String, usize, usize)> = vec![];
    // corners
    for (c, i, w) in [
        ("", 0usize, 100usize),
        ("//", 0, 0),
        ("// ", 4, 2),
        ("// aaaa bbbb ccc  https://example.org/x", 4, 20),
        ("//aaaaaaaaaaaaaaa /bbbbbbbbbbbb", 0, 20),
        ("//a !b", 0, 4),
        ("/// a\r\n/// b\r", 2, 7),
        ("// a,\n// b", 0, 5),
        ("// long long long,\n// next line", 0, 12),
        ("// x\n\n// y", 0, 100),
        ("no prefix at all here", 3, 9),
        ("//\ttab\tseparated words", 0, 8),
        ("// é日本語 wörd ünï", 1, 9),
        ("////// many slashes and words", 90, 20),
        ("//! inner doc, continued\n//! here", 0, 14),
    ] {
        cw.push((c.to_string(), i, w));
    }
    let mut blocks = vec![];
    for (_, t) in corpus.iter() {
        if blocks.len() > 40_000 {
            break;
        }
        corpus_comment_blocks(t, &mut blocks);
    }
    let n_cw = if thorough { 9_000 } else { 1_500 };
    let widths = [0usize, 1, 2, 3, 5, 8, 12, 20, 40, 60, 100, 120];
    while cw.len() < n_cw {
        let k = cw.len();
        let content = if k % 3 == 0 && !blocks.is_empty() {
            // a real comment block, possibly cut to keep cases small
            let b = rng.pick(&blocks).clone();
            b.lines().take(1 + rng.below(6) as usize).collect::<Vec<_>>().join("\n")
        } else {
            let n = 1 + rng.below(4);
            let long = rng.below(3) == 0;
            (0..n)
                .map(|_| {
                    let pad = " ".repeat(rng.below(3) as usize * 4);
                    let mut c = crate::mutate::gen_comment(rng, long);
                    if c.len() > 260 {
                        let mut cut = 260;
                        while !c.is_char_boundary(cut) {
                            cut -= 1;
                        }
                        c.truncate(cut);
                    }
                    format!("{pad}{c}")
                })
                .collect::<Vec<_>>()
                .join(if rng.below(9) == 0 { "\r\n" } else { "\n" })
        };
        let w = if rng.bool() { *rng.pick(&widths) } else { rng.below(130) as usize };
        let i = match rng.below(4) {
            0 => 0,
            1 => 4 * rng.below(6) as usize,
            2 => rng.below(w as u64 + 3) as usize,
            _ => rng.below(140) as usize,
        };
        cw.push((content, i, w));
    }
    let mut n_cw_written = 0;
    let mut n_cw_changed = 0;
    let mut n_cw_broken = 0;
    let mut cw_panics = vec![];
    let mut distinct_cw = BTreeSet::new();
    for (si, chunk) in cw.chunks(300).enumerate() {
        let mut tbl = BTreeSet::new();
        let mut items = vec![];
        for (c, i, w) in chunk {
            let r = vcommon::catch(AssertUnwindSafe(|| verif_hook::format_leading_comment(c, *i, *w)));
            match r {
                Ok(out) => {
                    note_alnum(c, &mut tbl);
                    if out != *c {
                        n_cw_changed += 1;
                    }
                    if out.lines().count() > c.lines().count() {
                        n_cw_broken += 1;
                    }
                    distinct_cw.insert((c.clone(), *i, *w));
                    items.push(format!("({}, {}, {}, {})", coq_str(c), i, w, coq_str(&out)));
                    n_cw_written += 1;
                }
                Err(m) => cw_panics.push(json!({"content": c, "indent": i, "width": w, "panic": m})),
            }
        }
        let mut f = String::new();
        f.push_str("From C11 Require Import Corr.\nOpen Scope N_scope.\n");
        let _ = writeln!(f, "Definition tbl : list N := {}.", coq_tbl(&tbl));
        for (k, it) in items.iter().enumerate() {
            let _ = writeln!(f, "Definition k{k} : str * N * N * str := {it}.");
        }
        let names: Vec<String> = (0..items.len()).map(|k| format!("k{k}")).collect();
        let _ = writeln!(f, "Definition cases : list (str * N * N * str) := {}.", coq_list_chunked(&names));
        f.push_str("Definition bad := Eval vm_compute in check_cw tbl cases.\nPrint bad.\n");
        std::fs::write(outdir.join(format!("cw_{si:03}.v")), f).unwrap();
    }

    // ---------------- line-breaker leg ----------------
    // small inputs: corpus files and snippets below 2.5 KB, their mutants, generated programs
    let mut inputs: Vec<(String, String)> = vec![];
    let small: Vec<&(String, String)> = corpus.iter().filter(|(_, t)| t.len() < 1600 && t.len() > 20).collect();
    let n_lb = if thorough { 1500 } else { 260 };
    let mut k = 0usize;
    while inputs.len() < n_lb && k < n_lb * 20 {
        k += 1;
        match k % 4 {
            0 | 1 if !small.is_empty() => {
                let (p, t) = rng.pick(&small);
                if k % 8 < 4 {
                    inputs.push((p.clone(), t.clone()));
                } else if let Some(ps) = crate::mutate::pieces(t) {
                    if ps.len() > 3 {
                        let m = crate::mutate::MUTATIONS[(k / 8) % crate::mutate::MUTATIONS.len()];
                        let mt = crate::mutate::mutate(&ps, m, rng);
                        if mt.len() < 2400 {
                            inputs.push((format!("{p} [{m}]"), mt));
                        }
                    }
                }
            }
            _ => {
                let t = crate::progen::Gen::new(rng).program();
                if t.len() < 1800 {
                    inputs.push((format!("gen-lb#{k}"), t));
                }
            }
        }
    }
    let cfgs: Vec<Cfg> = inputs
        .iter()
        .enumerate()
        .map(|(i, _)| if i % 5 == 0 { Cfg::default_cfg() } else { Cfg::from_index(rng.below(Cfg::N as u64) as u32) })
        .collect();
    let reqs: Vec<(String, &str)> =
        inputs.iter().zip(cfgs.iter()).map(|((_, t), c)| (format!("lb:{}", c.0), t.as_str())).collect();
    let outcomes = pool::run_all(&reqs, n_workers, Duration::from_secs(30));
    let mut lb_items: Vec<(String, BTreeSet<u32>)> = vec![];
    let mut n_lb_components: TreeStats = [0; 10];
    let mut n_lb_multi = 0usize;
    let mut hook_mismatch = vec![];
    let mut lb_problems = vec![];
    for (((origin, text), cfg), o) in inputs.iter().zip(cfgs.iter()).zip(outcomes.iter()) {
        match o {
            Outcome::Answer(v) if v["ok"].as_bool() == Some(true) => {
                if v["same"].as_bool() != Some(true) {
                    hook_mismatch.push(json!({"origin": origin, "cfg_bits": cfg.0, "input": text}));
                }
                let tree: Value = serde_json::from_str(v["tree"].as_str().unwrap()).unwrap();
                let built = v["built"].as_str().unwrap();
                let mut tbl = BTreeSet::new();
                let mut n: TreeStats = [0; 10];
                let ch = coq_components(&tree["children"], &mut tbl, &mut n);
                let pend = coq_components(&tree["pending"], &mut tbl, &mut n);
                for q in 0..10 {
                    n_lb_components[q] += n[q];
                }
                if built.lines().count() > 3 {
                    n_lb_multi += 1;
                }
                lb_items.push((
                    format!("(LB {} {} {}, {}, {}, {})", ch, b(&tree["is_open"]), pend, cfg.width(), cfg.tab(), coq_str(built)),
                    tbl,
                ));
            }
            Outcome::Answer(v) => {
                if v.get("panic").is_some() {
                    lb_problems.push(json!({"origin": origin, "cfg_bits": cfg.0, "panic": v["panic"], "input": text}));
                }
            }
            Outcome::Hang(s) => lb_problems.push(json!({"origin": origin, "cfg_bits": cfg.0, "hang_s": s, "input": text})),
            Outcome::Died(s) => lb_problems.push(json!({"origin": origin, "cfg_bits": cfg.0, "died": s, "input": text})),
        }
    }
    let n_lb_written = lb_items.len();
    for (si, chunk) in lb_items.chunks(25).enumerate() {
        let mut tbl = BTreeSet::new();
        for (_, t) in chunk {
            tbl.extend(t.iter().copied());
        }
        let mut f = String::new();
        f.push_str("From C11 Require Import Corr.\nOpen Scope N_scope.\n");
        let _ = writeln!(f, "Definition tbl : list N := {}.", coq_tbl(&tbl));
        for (k, (it, _)) in chunk.iter().enumerate() {
            let _ = writeln!(f, "Definition k{k} : builder * N * N * str := {it}.");
        }
        let names: Vec<String> = (0..chunk.len()).map(|k| format!("k{k}")).collect();
        let _ = writeln!(f, "Definition cases : list (builder * N * N * str) := {}.", coq_list_chunked(&names));
        f.push_str("Definition bad := Eval vm_compute in check_lb tbl cases.\nPrint bad.\n");
        std::fs::write(outdir.join(format!("lb_{si:03}.v")), f).unwrap();
    }
    json!({
        "cw_cases": n_cw_written, "cw_distinct": distinct_cw.len(), "cw_output_differs": n_cw_changed,
        "cw_lines_added": n_cw_broken, "cw_panics": cw_panics,
        "lb_cases": n_lb_written, "lb_inputs": inputs.len(), "lb_components": n_lb_components[0],
        "lb_tree_content": {
            "protected_zones": n_lb_components[1], "break_points": n_lb_components[2],
            "single_breakpoint_breaks": n_lb_components[3], "empty_line_breaks": n_lb_components[4],
            "comma_if_broken_breaks": n_lb_components[5], "non_optional_breaks": n_lb_components[6],
            "leading_comments": n_lb_components[7], "trailing_comments": n_lb_components[8],
            "open_zones": n_lb_components[9],
        },
        "lb_outputs_over_3_lines": n_lb_multi,
        "lb_hook_vs_get_formatted_file_mismatch": hook_mismatch, "lb_problems": lb_problems,
    })
}
