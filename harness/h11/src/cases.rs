//! Coq case legs (filled in below).
use serde_json::{Value, json};
use vcommon::Rng;

pub fn lb_case(_arg: &str, _text: &str) -> Value {
    json!({})
}

pub fn write_cases(
    _outdir: &std::path::Path,
    _thorough: bool,
    _corpus: &[(String, String)],
    _rng: &mut Rng,
    _n_workers: usize,
) -> Value {
    json!({})
}
