//! Systematic adjacency inputs. The formatter's skip / insert / space / break decisions
//! (node_properties.rs: should_skip_terminal, force_no_space_before/after, allowed_empty_between,
//! break point properties; formatter_impl.rs: format_terminal, comma-if-broken) are functions of a
//! node's kind and of the kinds of the tokens next to it, so the inputs here enumerate
//! *neighbourhoods* rather than programs:
//!   1. statement adjacency: every block-like expression statement, with and without its `;`,
//!      followed by a statement (or the tail expression) starting with every token kind that can
//!      begin a statement, in every kind of enclosing block;
//!   2. expression adjacency: every binary operator next to every unary operator and every kind
//!      of operand, unary chains, postfix chains, ranges next to literals, `<` `>` of generics next
//!      to comparison operators and to each other, `::` before generic arguments in every
//!      position, closures, `$` in macros, struct/enum patterns, attributes, blank lines;
//!   3. lists: every comma separated list kind x number of elements x trailing comma present or
//!      absent x a comment behind / below the last (or first) element x short / long elements;
//!   4. use / mod runs with a comment on every element position (sorting and merging);
//!   5. construct x parent context: the rules keyed on (node kind, parent kind, grandparent kind)
//!      see every expression / type / pattern / item construct as a direct child of every parent
//!      the grammar allows (tuple, array, argument list, generic arguments, operands, conditions,
//!      initialisers, arms, closure bodies ...), and nested two deep.
//! Everything is enumerated deterministically; inputs that do not parse with zero diagnostics
//! are dropped by the oracle (and counted).

pub struct Adj {
    pub label: String,
    pub text: String,
}

fn push(out: &mut Vec<Adj>, label: String, text: String) {
    out.push(Adj { label, text });
}

/// Block-like expression statements (the `;` behind them is optional unless the next statement
/// would continue the expression).
const BLOCKLIKE: [(&str, &str); 11] = [
    ("if-else", "if a { b } else { c }"),
    ("if", "if a { b; }"),
    ("if-let", "if let Some(y) = a { y } else { c }"),
    ("match", "match a { 0 => b, _ => c }"),
    ("match-blocks", "match a { 0 => { b }, _ => { c } }"),
    ("loop", "loop { break; }"),
    ("while", "while a { b; }"),
    ("while-let", "while let Some(y) = a { b; }"),
    ("for", "for i in a { b; }"),
    ("block", "{ b }"),
    ("block-unit", "{ b; }"),
];

/// Statements by their first token: (label, text, is an expression (needs `;` as a statement and
/// may be the tail), is an item/let statement that carries its own terminator).
const STARTERS: [(&str, &str, bool); 58] = [
    ("minus", "-x", true),
    ("minus-lit", "-1", true),
    ("star", "*x", true),
    ("amp", "&x", true),
    ("ampamp", "&&x", true),
    ("closure-1", "|y| y + 1", true),
    ("closure-2", "|y, z| y", true),
    ("closure-typed", "|y: u8| -> u8 { y }", true),
    ("closure-0", "|| 5", true),
    ("closure-0-block", "|| { 5 }", true),
    ("not", "!x", true),
    ("bitnot", "~x", true),
    ("at", "@x", true),
    ("paren", "(x)", true),
    ("tuple", "(x, y)", true),
    ("unit", "()", true),
    ("fixed-array", "[x, y]", true),
    ("fixed-array-1", "[x]", true),
    ("fixed-array-rep", "[x; 2]", true),
    ("block", "{ x }", true),
    ("dotdot", "..", true),
    ("dotdot-hi", "..x", true),
    ("range", "1..2", true),
    ("literal", "5", true),
    ("literal-typed", "5_u8", true),
    ("hex", "0x1f", true),
    ("short-string", "'a'", true),
    ("string", "\"s\"", true),
    ("true", "true", true),
    ("ident", "x", true),
    ("path", "x::y", true),
    ("call", "x(y)", true),
    ("method", "x.m()", true),
    ("field", "x.y", true),
    ("index", "x[0]", true),
    ("question", "x?", true),
    ("struct-ctor", "S { a: 1 }", true),
    ("generic-call", "g::<u8>(x)", true),
    ("macro-paren", "m!(x)", true),
    ("macro-brack", "array![x]", true),
    ("macro-brace", "m!{ x }", true),
    ("if", "if x { y } else { z }", true),
    ("match", "match x { _ => y }", true),
    ("loop", "loop { break; }", true),
    ("binary", "x + y", true),
    ("assign", "x = y", true),
    ("add-assign", "x += y", true),
    ("let", "let z = 1;", false),
    ("let-mut", "let mut z: u8 = 1;", false),
    ("let-else", "let Some(z) = x else { return; };", false),
    ("return", "return x;", false),
    ("return-unit", "return;", false),
    ("break", "break;", false),
    ("break-value", "break x;", false),
    ("continue", "continue;", false),
    ("attr-let", "#[attr] let z = 1;", false),
    ("const-item", "const Z: u8 = 1;", false),
    ("use-item", "use a::b;", false),
];

/// Enclosing blocks: (label, text before the statements, text after).
const CONTEXTS: [(&str, &str, &str); 7] = [
    ("fn-body", "fn f() {\n", "\n}\n"),
    ("nested-block", "fn f() {\n    let v = {\n", "\n    };\n}\n"),
    ("match-arm", "fn f() {\n    match q {\n        1 => {\n", "\n        },\n        _ => {},\n    }\n}\n"),
    ("closure-body", "fn f() {\n    let g = |p| {\n", "\n    };\n}\n"),
    ("loop-body", "fn f() {\n    loop {\n", "\n    }\n}\n"),
    ("if-body", "fn f() {\n    if q {\n", "\n    } else {\n        r\n    }\n}\n"),
    ("impl-fn", "impl I of T {\n    fn f(self: S) -> u8 {\n", "\n    }\n}\n"),
];

fn statement_adjacency(out: &mut Vec<Adj>) {
    for (ci, (cl, pre, post)) in CONTEXTS.iter().enumerate() {
        for (bl, b) in BLOCKLIKE {
            for semi in ["", ";"] {
                for (sl, s, is_expr) in STARTERS {
                    // all starters in the function body; in the other blocks every starter too, but
                    // only one of the two positions per (block-like, starter) pair alternately
                    let positions: &[&str] = if is_expr { &["stmt", "tail"] } else { &["stmt"] };
                    for pos in positions {
                        if ci > 0 && is_expr && ((bl.len() + sl.len() + ci) % 2 == 0) != (*pos == "stmt") {
                            continue;
                        }
                        let next = if is_expr && *pos == "stmt" { format!("{s};") } else { s.to_string() };
                        let sep = if (bl.len() + sl.len()) % 3 == 0 { " " } else { "\n    " };
                        let text = format!("{pre}    let a = 1;\n    {b}{semi}{sep}{next}{post}");
                        push(out, format!("stmt/{cl}/{bl}{}/{sl}/{pos}", if semi.is_empty() { "" } else { ";" }), text);
                    }
                }
            }
        }
    }
    // two block-like statements in a row, and a block-like statement as the first / last / only one
    for (bl, b) in BLOCKLIKE {
        for (bl2, b2) in BLOCKLIKE {
            for (s1, s2) in [("", ""), (";", ""), ("", ";"), (";", ";")] {
                push(
                    out,
                    format!("stmt/pair/{bl}{s1}/{bl2}{s2}"),
                    format!("fn f() {{\n    {b}{s1}\n    {b2}{s2}\n}}\n"),
                );
            }
        }
        for semi in ["", ";"] {
            push(out, format!("stmt/only/{bl}{semi}"), format!("fn f() {{\n    {b}{semi}\n}}\n"));
            push(out, format!("stmt/first/{bl}{semi}"), format!("fn f() {{\n    {b}{semi}\n    x\n}}\n"));
        }
    }
}

const BINARY: [&str; 25] = [
    "+", "-", "*", "/", "%", "==", "!=", "<", ">", "<=", ">=", "&&", "||", "&", "|", "^", "..", "..=", "=", "+=", "-=",
    "*=", "/=", "%=", ".",
];
const UNARY: [&str; 7] = ["-", "!", "~", "@", "*", "&", "&&"];

/// Operands by their first / last token.
const ATOMS: [(&str, &str); 36] = [
    ("ident", "x"),
    ("lit", "1"),
    ("lit-typed", "1_u8"),
    ("hex", "0x1f"),
    ("short-string", "'a'"),
    ("string", "\"s\""),
    ("true", "true"),
    ("path", "x::y"),
    ("call", "g(x)"),
    ("field", "x.y"),
    ("tuple-field", "x.0"),
    ("method", "x.m()"),
    ("index", "x[0]"),
    ("paren", "(x)"),
    ("tuple", "(x, y)"),
    ("unit", "()"),
    ("array", "[x, y]"),
    ("array-rep", "[x; 2]"),
    ("struct", "S { a: 1 }"),
    ("struct-short", "S { a }"),
    ("struct-tail", "S { a, ..b }"),
    ("closure", "|p| p"),
    ("closure-0", "|| 1"),
    ("macro", "array![1]"),
    ("macro-paren", "m!(x)"),
    ("question", "x?"),
    ("generic-call", "g::<u8>(x)"),
    ("nested-generic", "A::<B<C>>::new()"),
    ("generic-path", "Option::<u8>::None"),
    ("block", "{ x }"),
    ("if", "if a { 1 } else { 2 }"),
    ("match", "match a { _ => 1 }"),
    ("neg", "-x"),
    ("deref", "*x"),
    ("snap", "@x"),
    ("not", "!x"),
];

fn expression_adjacency(out: &mut Vec<Adj>) {
    let wrap = |e: &str| format!("fn f() {{\n    let v = {e};\n}}\n");
    let stmt = |e: &str| format!("fn f() {{\n    {e};\n}}\n");
    // binary operator x operand kind on either side
    for op in BINARY {
        for (al, a) in ATOMS {
            let (l, r) = if op == "." { (format!("{a}.y"), format!("x.{a}")) } else { (format!("{a} {op} y"), format!("x {op} {a}")) };
            let assign = op.ends_with('=') && !["==", "!=", "<=", ">=", "..="].contains(&op);
            if assign {
                push(out, format!("expr/bin-lhs/{op}/{al}"), stmt(&l));
                push(out, format!("expr/bin-rhs/{op}/{al}"), stmt(&r));
            } else {
                push(out, format!("expr/bin-lhs/{op}/{al}"), wrap(&l));
                push(out, format!("expr/bin-rhs/{op}/{al}"), wrap(&r));
            }
        }
        // binary next to unary, with and without the space between them
        for u in UNARY {
            for sp in [" ", ""] {
                push(out, format!("expr/bin-unary/{op}/{u}/sp{}", sp.len()), wrap(&format!("a {op}{sp}{u}b")));
                push(out, format!("expr/unary-bin/{u}/{op}"), wrap(&format!("{u}a {op} b")));
            }
        }
        // two binary operators
        for op2 in BINARY {
            if op == "." || op2 == "." {
                continue;
            }
            push(out, format!("expr/bin-bin/{op}/{op2}"), wrap(&format!("a {op} b {op2} c")));
            push(out, format!("expr/bin-paren-bin/{op}/{op2}"), wrap(&format!("a {op} (b {op2} c)")));
        }
    }
    // unary chains
    for u1 in UNARY {
        for (al, a) in ATOMS {
            push(out, format!("expr/unary/{u1}/{al}"), wrap(&format!("{u1}{a}")));
        }
        for u2 in UNARY {
            for sp in ["", " "] {
                push(out, format!("expr/unary2/{u1}/{u2}/sp{}", sp.len()), wrap(&format!("{u1}{sp}{u2}x")));
            }
            for u3 in UNARY {
                push(out, format!("expr/unary3/{u1}/{u2}/{u3}"), wrap(&format!("{u1} {u2} {u3} x")));
            }
        }
    }
    // postfix chains
    let post = ["?", ".m()", "[0]", ".y", "(z)", ".0", "::<u8>()"];
    for (al, a) in ATOMS {
        for p in post {
            push(out, format!("expr/postfix/{al}/{p}"), wrap(&format!("{a}{p}")));
            for q in post {
                push(out, format!("expr/postfix2/{al}/{p}/{q}"), wrap(&format!("{a}{p}{q}")));
            }
        }
    }
    // ranges next to literals, fields and calls; spacing variants of the same tokens
    for lo in ["1", "1_u8", "0x1", "a", "a.b", "a.0", "f(a)", "(a)", "a[0]", "-1", ""] {
        for hi in ["2", "2_u8", "b", "b.c", "b.0", "g(b)", "(b)", "b.len()", "-2", ""] {
            for op in ["..", "..="] {
                for (sl, l, r) in [("tight", "", ""), ("spaced", " ", " "), ("left", " ", ""), ("right", "", " ")] {
                    let e = format!("{lo}{l}{op}{r}{hi}");
                    push(out, format!("expr/range/{sl}/{lo}{op}{hi}"), wrap(&e));
                    push(out, format!("expr/range-for/{sl}/{lo}{op}{hi}"), format!("fn f() {{\n    for i in {e} {{}}\n}}\n"));
                }
            }
        }
    }
    for pat in ["0..=9", "'a'..='z'", "0..9", "1 | 2", "1 | 2 | 3", "A::B(c)", "A::B", "Some(x)", "(x, y)", "S { a, b: c, .. }", "_", "x", "@x", "[x, y]"] {
        push(out, format!("expr/match-pattern/{pat}"), format!("fn f() {{\n    match a {{\n        {pat} => 1,\n        _ => 2,\n    }}\n}}\n"));
        push(out, format!("expr/let-pattern/{pat}"), format!("fn f() {{\n    let {pat} = a;\n}}\n"));
        push(out, format!("expr/if-let-pattern/{pat}"), format!("fn f() {{\n    if let {pat} = a {{}}\n}}\n"));
    }
    // `<` `>` of generics next to comparison operators, to each other and to `::`
    let tys = ["u8", "Array<u8>", "Array<Array<u8>>", "Array<Array<Array<u8>>>", "Array::<u8>", "Array<Option::<u8>>", "Result<Array<u8>, Array<u8>>", "(u8, Array<u8>)", "[Array<u8>; 2]", "@Array<u8>", "a::B<c::D<u8>>", "Span<(u8, u8)>"];
    for t in tys {
        push(out, format!("generic/let-type/{t}"), format!("fn f() {{\n    let v: {t} = x;\n}}\n"));
        push(out, format!("generic/param/{t}"), format!("fn f(v: {t}) {{}}\n"));
        push(out, format!("generic/ret/{t}"), format!("fn f() -> {t} {{\n    x\n}}\n"));
        push(out, format!("generic/member/{t}"), format!("struct S {{\n    v: {t},\n}}\n"));
        push(out, format!("generic/variant/{t}"), format!("enum E {{\n    V: {t},\n}}\n"));
        push(out, format!("generic/impl-of/{t}"), format!("impl I of Tr<{t}> {{}}\n"));
        push(out, format!("generic/impl-of-turbofish/{t}"), format!("impl I of Tr::<{t}> {{}}\n"));
        push(out, format!("generic/turbofish-call/{t}"), format!("fn f() {{\n    g::<{t}>(x);\n}}\n"));
        push(out, format!("generic/turbofish-path/{t}"), format!("fn f() {{\n    let v = G::<{t}>::new();\n}}\n"));
        push(out, format!("generic/type-alias/{t}"), format!("type A = {t};\n"));
        push(out, format!("generic/const/{t}"), format!("const C: {t} = x;\n"));
        push(out, format!("generic/closure-param/{t}"), format!("fn f() {{\n    let c = |p: {t}| -> {t} {{ p }};\n}}\n"));
        for cmp in ["<", ">", "<=", ">=", "==", "&&"] {
            push(out, format!("generic/cmp/{t}/{cmp}"), format!("fn f() {{\n    let v = g::<{t}>(x) {cmp} y;\n}}\n"));
            push(out, format!("generic/cmp-left/{t}/{cmp}"), format!("fn f() {{\n    let v = y {cmp} G::<{t}>::new();\n}}\n"));
        }
    }
    for gp in ["T", "T, U", "T, +Drop<T>", "T, -Copy<T>", "T, impl I: Tr<T>", "const N: usize", "T, +Tr<T>[Assoc: u8]", "impl I: Tr<u8>, +Drop<I::X>"] {
        push(out, format!("generic/params-fn/{gp}"), format!("fn f<{gp}>() {{}}\n"));
        push(out, format!("generic/params-struct/{gp}"), format!("struct S<{gp}> {{}}\n"));
        push(out, format!("generic/params-impl/{gp}"), format!("impl I<{gp}> of Tr<T> {{}}\n"));
        push(out, format!("generic/params-trait/{gp}"), format!("trait Tr<{gp}> {{}}\n"));
    }
    // closures in every position
    for c in ["|| 1", "|a| a", "|a, b| a + b", "|a: u8| -> u8 { a }", "|| {}", "|a| { a }", "|_| ()", "|(a, b)| a", "|mut a| a", "|ref a| a"] {
        push(out, format!("closure/let/{c}"), wrap(c));
        push(out, format!("closure/arg/{c}"), wrap(&format!("g({c}, {c})")));
        push(out, format!("closure/method-arg/{c}"), wrap(&format!("x.map({c}).filter({c})")));
        push(out, format!("closure/or-left/{c}"), wrap(&format!("a || {c}")));
        push(out, format!("closure/bitor-left/{c}"), wrap(&format!("a | {c}")));
        push(out, format!("closure/tail/{c}"), format!("fn f() {{\n    {c}\n}}\n"));
        push(out, format!("closure/stmt/{c}"), format!("fn f() {{\n    {c};\n}}\n"));
        push(out, format!("closure/call/{c}"), wrap(&format!("({c})(1)")));
        push(out, format!("closure/arm/{c}"), format!("fn f() {{\n    match a {{\n        _ => {c},\n    }}\n}}\n"));
    }
    // `$` in macro declarations and expansions
    for (l, m) in [
        ("expr", "macro m {\n    ($x:expr) => {\n        $x + 1\n    };\n}\n"),
        ("ident", "macro m {\n    ($x:ident) => {\n        let $x = 1;\n    };\n}\n"),
        ("two-rules", "macro m {\n    () => {\n        0\n    };\n    ($x:expr, $y:expr) => {\n        $x + $y\n    };\n}\n"),
        ("repetition", "macro m {\n    ($($x:expr), *) => {\n        array![$($x), *]\n    };\n}\n"),
        ("repetition-plus", "macro m {\n    ($($x:ident)+) => {\n        ($($x,)+)\n    };\n}\n"),
        ("repetition-opt", "macro m {\n    ($x:expr $(, $y:expr)?) => {\n        $x\n    };\n}\n"),
        ("defsite", "macro m {\n    ($x:expr) => {\n        $defsite::g($x)\n    };\n}\n"),
        ("callsite", "macro m {\n    ($x:ident) => {\n        $callsite::$x\n    };\n}\n"),
        ("brackets", "macro m {\n    [$x:expr] => {\n        $x\n    };\n}\n"),
        ("braces", "macro m {\n    {$x:expr} => {\n        $x\n    };\n}\n"),
        ("unary", "macro m {\n    ($x:expr) => {\n        -$x + !$x * @$x\n    };\n}\n"),
        ("field", "macro m {\n    ($x:expr) => {\n        $x.y($x)[$x]?\n    };\n}\n"),
        ("nested-call", "macro m {\n    ($x:expr) => {\n        m!($x, $x)\n    };\n}\n"),
        ("use-dollar", "use $crate::a;\n"),
        ("call-named", "fn f() {\n    g(a: $x, :$y);\n}\n"),
    ] {
        push(out, format!("macro/{l}"), m.to_string());
        push(out, format!("macro/{l}/squeezed"), m.replace("\n        ", " ").replace("\n    ", " "));
    }
    // attributes, visibility, implicits, named arguments, struct braces
    for a in ["#[a]", "#[a(b)]", "#[a(b, c)]", "#[a(b: c)]", "#[a(b: 'c', d: \"e\")]", "#[a::b]", "#[a(b(c))]", "#[a] #[b]", "#[cairofmt::skip]"] {
        push(out, format!("attr/fn/{a}"), format!("{a}\nfn f() {{}}\n"));
        push(out, format!("attr/stmt/{a}"), format!("fn f() {{\n    {a}\n    let x = 1;\n    {a}\n    g();\n}}\n"));
        push(out, format!("attr/member/{a}"), format!("struct S {{\n    {a}\n    x: u8,\n}}\n"));
        push(out, format!("attr/variant/{a}"), format!("enum E {{\n    {a}\n    X,\n}}\n"));
        push(out, format!("attr/param/{a}"), format!("fn f({a} x: u8) {{}}\n"));
        push(out, format!("attr/arm/{a}"), format!("fn f() {{\n    match a {{\n        {a}\n        _ => 1,\n    }}\n}}\n"));
        push(out, format!("attr/impl-item/{a}"), format!("impl I of T {{\n    {a}\n    fn f() {{}}\n    {a}\n    type X = u8;\n    {a}\n    const C: u8 = 1;\n}}\n"));
        push(out, format!("attr/use/{a}"), format!("{a}\nuse a::b;\n{a}\nmod c;\n"));
    }
    for v in ["", "pub ", "pub(crate) ", "pub (crate) ", "pub(super) "] {
        for item in ["fn f() {}", "struct S {}", "enum E {}", "const C: u8 = 1;", "use a::b;", "mod m;", "mod m {}", "trait T {}", "impl I of T {}", "type A = u8;", "extern fn f() nopanic;", "extern type T;"] {
            push(out, format!("vis/{}/{item}", v.trim()), format!("{v}{item}\n"));
        }
        push(out, format!("vis/member/{}", v.trim()), format!("struct S {{\n    {v}x: u8,\n}}\n"));
    }
    for sig in ["implicits(A)", "implicits(A, B)", "implicits(A) nopanic", "nopanic", "implicits()", "-> u8 implicits(A) nopanic"] {
        push(out, format!("sig/{sig}"), format!("fn f() {sig} {{}}\n"));
        push(out, format!("sig-extern/{sig}"), format!("extern fn f() {sig};\n"));
    }
    for a in ["a: b", ":a", "a", "a: b, :c, d", "ref a", "ref a: b", "a: -b", "a: |x| x", ":a, :b"] {
        push(out, format!("named-arg/{a}"), format!("fn f() {{\n    g({a});\n}}\n"));
    }
    for s in ["S {}", "S { }", "S { a }", "S { a: b }", "S { a, b }", "S { a: 1, ..s }", "S { ..s }", "a::S { a }", "S::<u8> { a }"] {
        push(out, format!("struct-ctor/{s}"), wrap(s));
        push(out, format!("struct-pattern/{s}"), format!("fn f() {{\n    let {s} = s;\n}}\n"));
    }
    // blank lines (allowed_empty_between) between statements, items, impl / trait items, members, arms
    for n in 0..4usize {
        let gap = "\n".repeat(n + 1);
        push(out, format!("blank/stmts/{n}"), format!("fn f() {{{gap}    let a = 1;{gap}    let b = 2;{gap}    a{gap}}}\n"));
        push(out, format!("blank/items/{n}"), format!("fn f() {{}}{gap}fn g() {{}}{gap}struct S {{}}{gap}"));
        push(out, format!("blank/impl-items/{n}"), format!("impl I of T {{{gap}    fn f() {{}}{gap}    fn g() {{}}{gap}}}\n"));
        push(out, format!("blank/trait-items/{n}"), format!("trait T {{{gap}    fn f();{gap}    fn g();{gap}}}\n"));
        push(out, format!("blank/members/{n}"), format!("struct S {{{gap}    a: u8,{gap}    b: u8,{gap}}}\n"));
        push(out, format!("blank/variants/{n}"), format!("enum E {{{gap}    A,{gap}    B,{gap}}}\n"));
        push(out, format!("blank/arms/{n}"), format!("fn f() {{\n    match a {{{gap}        1 => 2,{gap}        _ => 3,{gap}    }}\n}}\n"));
        push(out, format!("blank/args/{n}"), format!("fn f() {{\n    g({gap}        a,{gap}        b,{gap}    );\n}}\n"));
        push(out, format!("blank/uses/{n}"), format!("use b::c;{gap}use a::d;{gap}mod z;{gap}mod y;{gap}fn f() {{}}\n"));
        push(out, format!("blank/comments/{n}"), format!("// a{gap}// b{gap}fn f() {{{gap}    // c{gap}    // d{gap}    x{gap}    // e{gap}}}\n"));
        push(out, format!("blank/mod-body/{n}"), format!("mod m {{{gap}    use a::b;{gap}    fn f() {{}}{gap}}}\n"));
    }
}

/// A comma separated list kind: text before / after the list and the i-th element (short or long).
struct ListKind {
    name: &'static str,
    pre: &'static str,
    post: &'static str,
    elem: fn(usize, bool) -> String,
}

fn long_ident(i: usize) -> String {
    format!("a_rather_long_identifier_number_{i}_that_fills_the_line")
}

fn list_kinds() -> Vec<ListKind> {
    fn name(i: usize, long: bool) -> String {
        if long { long_ident(i) } else { format!("a{i}") }
    }
    fn ty(i: usize, long: bool) -> String {
        if long { format!("Array<Result<Option<felt252>, (u128, u128, ByteArray{i})>>") } else { ["u8", "felt252", "bool", "u128"][i % 4].to_string() }
    }
    vec![
        ListKind { name: "call-args", pre: "fn f() {\n    g(", post: ");\n}\n", elem: |i, l| name(i, l) },
        ListKind { name: "method-args", pre: "fn f() {\n    x.m(", post: ");\n}\n", elem: |i, l| name(i, l) },
        ListKind { name: "named-args", pre: "fn f() {\n    g(", post: ");\n}\n", elem: |i, l| format!("p{i}: {}", name(i, l)) },
        ListKind { name: "params", pre: "fn g(", post: ") {}\n", elem: |i, l| format!("{}: {}", name(i, l), ty(i, false)) },
        ListKind { name: "params-long-types", pre: "fn g(", post: ") {}\n", elem: |i, l| format!("a{i}: {}", ty(i, l)) },
        ListKind { name: "trait-fn-params", pre: "trait T {\n    fn g(", post: ");\n}\n", elem: |i, l| format!("{}: {}", name(i, l), ty(i, false)) },
        ListKind { name: "tuple-expr", pre: "fn f() {\n    let t = (", post: ");\n}\n", elem: |i, l| name(i, l) },
        ListKind { name: "tuple-pattern", pre: "fn f() {\n    let (", post: ") = t;\n}\n", elem: |i, l| name(i, l) },
        ListKind { name: "tuple-type", pre: "fn f(t: (", post: ")) {}\n", elem: |i, l| ty(i, l) },
        ListKind { name: "fixed-array", pre: "fn f() {\n    let t = [", post: "];\n}\n", elem: |i, l| name(i, l) },
        ListKind { name: "fixed-array-pattern", pre: "fn f() {\n    let [", post: "] = t;\n}\n", elem: |i, l| name(i, l) },
        ListKind { name: "struct-ctor", pre: "fn f() {\n    let s = S { ", post: " };\n}\n", elem: |i, l| format!("m{i}: {}", name(i, l)) },
        ListKind { name: "struct-ctor-shorthand", pre: "fn f() {\n    let s = S { ", post: " };\n}\n", elem: |i, l| name(i, l) },
        ListKind { name: "struct-pattern", pre: "fn f() {\n    let S { ", post: " } = s;\n}\n", elem: |i, l| name(i, l) },
        ListKind { name: "struct-members", pre: "struct S {\n    ", post: "\n}\n", elem: |i, l| format!("{}: {}", name(i, l), ty(i, false)) },
        ListKind { name: "enum-variants", pre: "enum E {\n    ", post: "\n}\n", elem: |i, l| if i % 2 == 0 { format!("V{}", name(i, l)) } else { format!("V{}: {}", name(i, l), ty(i, false)) } },
        ListKind { name: "generic-params", pre: "fn g<", post: ">() {}\n", elem: |i, l| format!("T{}", name(i, l)) },
        ListKind { name: "generic-params-impls", pre: "fn g<T, ", post: ">() {}\n", elem: |i, l| format!("+Tr{}<T>", name(i, l)) },
        ListKind { name: "generic-args-expr", pre: "fn f() {\n    g::<", post: ">();\n}\n", elem: |i, l| ty(i, l) },
        ListKind { name: "generic-args-type", pre: "fn f(x: G<", post: ">) {}\n", elem: |i, l| ty(i, l) },
        ListKind { name: "impl-generic-args", pre: "impl I of T<", post: "> {}\n", elem: |i, l| ty(i, l) },
        ListKind { name: "match-arms", pre: "fn f() {\n    match x {\n        ", post: "\n    }\n}\n", elem: |i, l| format!("{i} => {}", name(i, l)) },
        ListKind { name: "match-arms-blocks", pre: "fn f() {\n    match x {\n        ", post: "\n    }\n}\n", elem: |i, l| format!("{i} => {{ {} }}", name(i, l)) },
        ListKind { name: "use-list", pre: "use a::{", post: "};\n", elem: |i, l| name(i, l) },
        ListKind { name: "use-list-nested", pre: "use a::{", post: "};\n", elem: |i, l| format!("b{i}::{{{}, c}}", name(i, l)) },
        ListKind { name: "implicits", pre: "fn g() implicits(", post: ") {}\n", elem: |i, l| format!("I{}", name(i, l)) },
        ListKind { name: "derive", pre: "#[derive(", post: ")]\nstruct S {}\n", elem: |i, l| format!("D{}", name(i, l)) },
        ListKind { name: "attr-args-named", pre: "#[attr(", post: ")]\nfn f() {}\n", elem: |i, l| format!("k{i}: '{}'", name(i, l)) },
        ListKind { name: "macro-brack", pre: "fn f() {\n    let v = array![", post: "];\n}\n", elem: |i, l| name(i, l) },
        ListKind { name: "macro-paren", pre: "fn f() {\n    println!(", post: ");\n}\n", elem: |i, l| if i == 0 { "\"{} {}\"".to_string() } else { name(i, l) } },
        ListKind { name: "macro-brace", pre: "fn f() {\n    m!{", post: "};\n}\n", elem: |i, l| name(i, l) },
        ListKind { name: "closure-params", pre: "fn f() {\n    let c = |", post: "| 1;\n}\n", elem: |i, l| name(i, l) },
        ListKind { name: "enum-pattern-tuple", pre: "fn f() {\n    let Some((", post: ")) = t;\n}\n", elem: |i, l| name(i, l) },
        ListKind { name: "nested-call", pre: "fn f() {\n    g(h(", post: "), z);\n}\n", elem: |i, l| name(i, l) },
        ListKind { name: "return-tuple-type", pre: "fn f() -> (", post: ") {\n    x\n}\n", elem: |i, l| ty(i, l) },
    ]
}

fn list_adjacency(out: &mut Vec<Adj>) {
    for k in list_kinds() {
        for n in 0..4usize {
            for trailing in [false, true] {
                for long in [false, true] {
                    if n == 0 && long {
                        continue;
                    }
                    // where a comment stands: none, behind the last element (after its comma if there is
                    // one), on its own line below the last element, behind the first element, above the first
                    for cpos in ["none", "after-last", "below-last", "after-first", "above-first", "before-comma-last"] {
                        if n == 0 && !["none", "below-last"].contains(&cpos) {
                            continue;
                        }
                        let mut s = String::new();
                        if cpos == "above-first" {
                            s.push_str("\n        // c\n        ");
                        }
                        for i in 0..n {
                            s.push_str(&(k.elem)(i, long));
                            let last = i + 1 == n;
                            if last && cpos == "before-comma-last" {
                                s.push_str(" // c\n        ");
                            }
                            if !last || trailing {
                                s.push(',');
                            }
                            if (i == 0 && cpos == "after-first" && !last) || (last && cpos == "after-last") {
                                s.push_str(" // c\n        ");
                            } else if !last {
                                s.push(' ');
                            }
                        }
                        if cpos == "below-last" {
                            s.push_str("\n        // c\n    ");
                        }
                        push(
                            out,
                            format!("list/{}/n{n}/{}/{}/{cpos}", k.name, if trailing { "comma" } else { "nocomma" }, if long { "long" } else { "short" }),
                            format!("{}{}{}", k.pre, s, k.post),
                        );
                    }
                }
            }
        }
    }
}

fn use_runs(out: &mut Vec<Adj>) {
    let items = ["use b::c;", "use a::{e, d};", "mod z;", "use a::f;", "pub use q::r;", "mod y;", "use a::{self, g::*};"];
    for kind in ["//", "///", "//!"] {
        // one comment: above / behind every item, and inside the braces
        let mut positions: Vec<(usize, &str)> = vec![];
        for i in 0..items.len() {
            positions.push((i, "above"));
            positions.push((i, "behind"));
        }
        let render = |cs: &[(usize, &str)]| -> String {
            let mut s = String::new();
            for (i, it) in items.iter().enumerate() {
                if cs.contains(&(i, "above")) {
                    s.push_str(&format!("{kind} above {i}\n"));
                }
                s.push_str(it);
                if cs.contains(&(i, "behind")) {
                    s.push_str(&format!(" {kind} behind {i}"));
                }
                s.push('\n');
            }
            s.push_str("fn f() {}\n");
            s
        };
        for p in &positions {
            push(out, format!("uses/{kind}/{}-{}", p.1, p.0), render(&[*p]));
            push(out, format!("uses-in-mod/{kind}/{}-{}", p.1, p.0), format!("mod m {{\n{}}}\n", render(&[*p])));
        }
        for (a, p) in positions.iter().enumerate() {
            for q in positions.iter().skip(a + 1) {
                push(out, format!("uses2/{kind}/{}-{}/{}-{}", p.1, p.0, q.1, q.0), render(&[*p, *q]));
            }
        }
        // comments inside a use list, element by element
        for n in 1..4usize {
            for at in 0..n {
                for place in ["above", "behind", "behind-comma"] {
                    let mut s = String::from("use z::y;\nuse a::{\n");
                    for i in 0..n {
                        if i == at && place == "above" {
                            s.push_str(&format!("    {kind} c\n"));
                        }
                        s.push_str(&format!("    e{}", n - i));
                        if i == at && place == "behind" {
                            s.push_str(&format!(" {kind} c\n    ,\n"));
                        } else if i == at && place == "behind-comma" {
                            s.push_str(&format!(", {kind} c\n"));
                        } else {
                            s.push_str(",\n");
                        }
                    }
                    s.push_str("};\nuse a::b;\n");
                    push(out, format!("use-list-comment/{kind}/n{n}/{place}-{at}"), s);
                }
            }
        }
    }
}

/// Constructs by syntactic class.
const EXPR_CONSTRUCTS: [(&str, &str); 44] = [
    ("turbofish-variant", "Option::None::<u8>"),
    ("turbofish-type-variant", "Option::<u8>::None"),
    ("turbofish-call", "foo::<u8>()"),
    ("turbofish-path", "a::b::<u8>"),
    ("turbofish-nested", "a::<B<u8>>::c::<d::E<u8>>()"),
    ("turbofish-struct", "G::<u8> { a: 1 }"),
    ("turbofish-method", "x.m::<u8>()"),
    ("closure", "|p| p"),
    ("closure-0", "|| 1"),
    ("closure-typed", "|p: G::<u8>| -> G::<u8> { p }"),
    ("neg", "-x"),
    ("not", "!x"),
    ("bitnot", "~x"),
    ("snapshot", "@x"),
    ("desnap", "*x"),
    ("ref", "&x"),
    ("add", "x + y"),
    ("eq", "x == y"),
    ("lt", "x < y"),
    ("and", "x && y"),
    ("struct-ctor", "S { a: 1 }"),
    ("struct-ctor-short", "S { a, ..b }"),
    ("match", "match a { _ => 1 }"),
    ("if", "if a { 1 } else { 2 }"),
    ("loop", "loop { break 1; }"),
    ("block", "{ x }"),
    ("macro-paren", "m!(x)"),
    ("macro-brack", "array![1]"),
    ("lit-suffix", "1_u8"),
    ("short-string", "'a'"),
    ("string", "\"s\""),
    ("range", "1..2"),
    ("question", "x?"),
    ("call", "g(x)"),
    ("method", "x.m()"),
    ("index", "x[0]"),
    ("field", "x.y"),
    ("tuple", "(x, y)"),
    ("tuple-1", "(x,)"),
    ("array", "[x, y]"),
    ("array-repeat", "[x; 2]"),
    ("paren", "(x)"),
    ("path", "a::b"),
    ("ident", "x"),
];

const TYPE_CONSTRUCTS: [(&str, &str); 14] = [
    ("prim", "u8"),
    ("generic", "Array<u8>"),
    ("generic-turbofish", "Array::<u8>"),
    ("path-turbofish", "a::B::<u8>"),
    ("path-mid-turbofish", "a::B::<u8>::C"),
    ("nested-generic", "Array<Array<u8>>"),
    ("nested-turbofish", "Option<Array::<u8>>"),
    ("tuple", "(u8, u16)"),
    ("tuple-1", "(u8,)"),
    ("unit", "()"),
    ("fixed-array", "[u8; 2]"),
    ("snapshot", "@u8"),
    ("snapshot-generic", "@Array::<u8>"),
    ("path", "a::b"),
];

const PATTERN_CONSTRUCTS: [(&str, &str); 17] = [
    ("ident", "x"),
    ("wild", "_"),
    ("lit", "1"),
    ("short-string", "'a'"),
    ("path", "A::B"),
    ("enum", "A::B(c)"),
    ("enum-turbofish", "A::<u8>::B(c)"),
    ("enum-nested", "Some(Some(c))"),
    ("tuple", "(x, y)"),
    ("tuple-1", "(x,)"),
    ("struct", "S { a, b: c, .. }"),
    ("struct-turbofish", "S::<u8> { a }"),
    ("array", "[x, y]"),
    ("mut", "mut x"),
    ("ref", "ref x"),
    ("or", "1 | 2"),
    ("true", "true"),
];

/// Parent contexts: the construct replaces `§`.
const EXPR_CONTEXTS: [(&str, &str); 58] = [
    ("tuple-first", "fn f() {\n    let v = (§, 1);\n}\n"),
    ("tuple-last", "fn f() {\n    let v = (1, §);\n}\n"),
    ("tuple-single", "fn f() {\n    let v = (§,);\n}\n"),
    ("paren", "fn f() {\n    let v = (§);\n}\n"),
    ("array-first", "fn f() {\n    let v = [§, 2];\n}\n"),
    ("array-last", "fn f() {\n    let v = [2, §];\n}\n"),
    ("array-repeat-value", "fn f() {\n    let v = [§; 2];\n}\n"),
    ("array-repeat-len", "fn f() {\n    let v = [x; §];\n}\n"),
    ("call-arg", "fn f() {\n    g(§);\n}\n"),
    ("call-arg-2", "fn f() {\n    g(1, §);\n}\n"),
    ("named-arg", "fn f() {\n    g(a: §);\n}\n"),
    ("method-arg", "fn f() {\n    x.m(§);\n}\n"),
    ("callee", "fn f() {\n    (§)(1);\n}\n"),
    ("struct-field", "fn f() {\n    let v = S { a: § };\n}\n"),
    ("struct-tail", "fn f() {\n    let v = S { a: 1, ..§ };\n}\n"),
    ("let-init", "fn f() {\n    let v = §;\n}\n"),
    ("let-typed-init", "fn f() {\n    let v: u8 = §;\n}\n"),
    ("let-else-init", "fn f() {\n    let Some(v) = § else {\n        return;\n    };\n}\n"),
    ("return", "fn f() {\n    return §;\n}\n"),
    ("break", "fn f() {\n    loop {\n        break §;\n    }\n}\n"),
    ("match-scrutinee", "fn f() {\n    match § {\n        _ => 1,\n    }\n}\n"),
    ("match-arm", "fn f() {\n    match a {\n        _ => §,\n    }\n}\n"),
    ("match-arm-first", "fn f() {\n    match a {\n        1 => §,\n        _ => 2,\n    }\n}\n"),
    ("index", "fn f() {\n    let v = x[§];\n}\n"),
    ("indexed", "fn f() {\n    let v = §[0];\n}\n"),
    ("method-receiver", "fn f() {\n    let v = §.m();\n}\n"),
    ("field-receiver", "fn f() {\n    let v = §.y;\n}\n"),
    ("binary-left", "fn f() {\n    let v = § + 1;\n}\n"),
    ("binary-right", "fn f() {\n    let v = 1 + §;\n}\n"),
    ("mul-left", "fn f() {\n    let v = § * 1;\n}\n"),
    ("cmp-left", "fn f() {\n    let v = § < 1;\n}\n"),
    ("cmp-right", "fn f() {\n    let v = 1 > §;\n}\n"),
    ("and-left", "fn f() {\n    let v = § && b;\n}\n"),
    ("or-right", "fn f() {\n    let v = b || §;\n}\n"),
    ("range-lo", "fn f() {\n    let v = §..1;\n}\n"),
    ("range-hi", "fn f() {\n    let v = 1..§;\n}\n"),
    ("neg-operand", "fn f() {\n    let v = -§;\n}\n"),
    ("not-operand", "fn f() {\n    let v = !§;\n}\n"),
    ("snapshot-operand", "fn f() {\n    let v = @§;\n}\n"),
    ("desnap-operand", "fn f() {\n    let v = *§;\n}\n"),
    ("question-operand", "fn f() {\n    let v = §?;\n}\n"),
    ("if-cond", "fn f() {\n    if § {\n        x\n    }\n}\n"),
    ("while-cond", "fn f() {\n    while § {\n        x;\n    }\n}\n"),
    ("if-let-value", "fn f() {\n    if let Some(y) = § {\n        y;\n    }\n}\n"),
    ("for-iter", "fn f() {\n    for i in § {\n        x;\n    }\n}\n"),
    ("closure-body", "fn f() {\n    let c = |p| §;\n}\n"),
    ("closure-block-body", "fn f() {\n    let c = |p| {\n        §\n    };\n}\n"),
    ("const-init", "const C: u8 = §;\n"),
    ("impl-const-init", "impl I of T {\n    const C: u8 = §;\n}\n"),
    ("tail", "fn f() -> u8 {\n    §\n}\n"),
    ("stmt", "fn f() {\n    §;\n}\n"),
    ("assign-rhs", "fn f() {\n    x = §;\n}\n"),
    ("assign-lhs", "fn f() {\n    § = x;\n}\n"),
    ("add-assign-rhs", "fn f() {\n    x += §;\n}\n"),
    ("macro-arg", "fn f() {\n    m!(§);\n}\n"),
    ("macro-brack-arg", "fn f() {\n    let v = array![§, 1];\n}\n"),
    ("if-branch", "fn f() {\n    let v = if a {\n        §\n    } else {\n        §\n    };\n}\n"),
    ("block-value", "fn f() {\n    let v = {\n        §\n    };\n}\n"),
];

const TYPE_CONTEXTS: [(&str, &str); 26] = [
    ("tuple-type-first", "fn f(v: (§, u8)) {}\n"),
    ("tuple-type-last", "fn f(v: (u8, §)) {}\n"),
    ("tuple-type-single", "fn f(v: (§,)) {}\n"),
    ("array-type", "fn f(v: [§; 2]) {}\n"),
    ("param", "fn f(v: §) {}\n"),
    ("ref-param", "fn f(ref v: §) {}\n"),
    ("return", "fn f() -> § {\n    x\n}\n"),
    ("extern-return", "extern fn f() -> § nopanic;\n"),
    ("trait-fn", "trait T {\n    fn f(v: §) -> §;\n}\n"),
    ("let", "fn f() {\n    let v: § = x;\n}\n"),
    ("generic-arg-type", "fn f(v: Array<§>) {}\n"),
    ("generic-arg-type-2", "fn f(v: Result<u8, §>) {}\n"),
    ("generic-arg-expr", "fn f() {\n    g::<§>();\n}\n"),
    ("generic-arg-expr-path", "fn f() {\n    let v = G::<§>::new();\n}\n"),
    ("generic-arg-named", "fn f(v: G<T: §>) {}\n"),
    ("member", "struct S {\n    v: §,\n}\n"),
    ("variant", "enum E {\n    V: §,\n}\n"),
    ("closure-param", "fn f() {\n    let c = |p: §| p;\n}\n"),
    ("closure-return", "fn f() {\n    let c = |p| -> § { p };\n}\n"),
    ("const", "const C: § = x;\n"),
    ("alias", "type A = §;\n"),
    ("impl-type", "impl I of T {\n    type A = §;\n}\n"),
    ("impl-of-arg", "impl I of T<§> {}\n"),
    ("generic-param-impl", "fn f<T, +Tr<§>>() {}\n"),
    ("generic-param-const", "fn f<const N: §>() {}\n"),
    ("snapshot-of", "fn f(v: @§) {}\n"),
];

const PATTERN_CONTEXTS: [(&str, &str); 14] = [
    ("let", "fn f() {\n    let § = a;\n}\n"),
    ("let-else", "fn f() {\n    let § = a else {\n        return;\n    };\n}\n"),
    ("match-arm", "fn f() {\n    match a {\n        § => 1,\n        _ => 2,\n    }\n}\n"),
    ("match-arm-or", "fn f() {\n    match a {\n        § | _ => 1,\n    }\n}\n"),
    ("if-let", "fn f() {\n    if let § = a {\n        x;\n    }\n}\n"),
    ("while-let", "fn f() {\n    while let § = a {\n        x;\n    }\n}\n"),
    ("for", "fn f() {\n    for § in a {\n        x;\n    }\n}\n"),
    ("closure-param", "fn f() {\n    let c = |§| 1;\n}\n"),
    ("tuple-first", "fn f() {\n    let (§, y) = a;\n}\n"),
    ("tuple-last", "fn f() {\n    let (y, §) = a;\n}\n"),
    ("enum-inner", "fn f() {\n    let Some(§) = a;\n}\n"),
    ("struct-field", "fn f() {\n    let S { a: § } = a;\n}\n"),
    ("array-elem", "fn f() {\n    let [§, y] = a;\n}\n"),
    ("nested-tuple", "fn f() {\n    let ((§, y), z) = a;\n}\n"),
];

/// Items that may carry attributes, and the item lists that may hold them.
const ITEM_CONSTRUCTS: [(&str, &str); 14] = [
    ("fn", "fn g() {}"),
    ("struct", "struct S {}"),
    ("enum", "enum E {}"),
    ("const", "const C: u8 = 1;"),
    ("use", "use a::b;"),
    ("mod", "mod m;"),
    ("mod-body", "mod m {}"),
    ("trait", "trait T {}"),
    ("impl", "impl I of T {}"),
    ("impl-alias", "impl I = a::J;"),
    ("type", "type A = u8;"),
    ("extern-fn", "extern fn g() nopanic;"),
    ("extern-type", "extern type X;"),
    ("inline-macro", "m!(x);"),
];
const ITEM_CONTEXTS: [(&str, &str); 5] = [
    ("file", "§\n"),
    ("mod-body", "mod outer {\n    §\n}\n"),
    ("impl-body", "impl I of T {\n    §\n}\n"),
    ("trait-body", "trait T {\n    §\n}\n"),
    ("fn-body", "fn f() {\n    §\n}\n"),
];

/// construct x parent context: every construct as a direct child of every parent kind the grammar
/// allows (what the grammar does not allow is dropped by the parse-clean filter), and nested two
/// deep for the expression contexts that build a parent node of their own.
fn construct_context(out: &mut Vec<Adj>) {
    for (cl, ctx) in EXPR_CONTEXTS {
        for (kl, k) in EXPR_CONSTRUCTS {
            push(out, format!("ctx-expr/{cl}/{kl}"), ctx.replace('§', k));
        }
    }
    for (cl, ctx) in TYPE_CONTEXTS {
        for (kl, k) in TYPE_CONSTRUCTS {
            push(out, format!("ctx-type/{cl}/{kl}"), ctx.replace('§', k));
        }
    }
    for (cl, ctx) in PATTERN_CONTEXTS {
        for (kl, k) in PATTERN_CONSTRUCTS {
            push(out, format!("ctx-pattern/{cl}/{kl}"), ctx.replace('§', k));
        }
    }
    for (cl, ctx) in ITEM_CONTEXTS {
        for (kl, k) in ITEM_CONSTRUCTS {
            for attr in ["", "#[a]\n    ", "#[a(b: 1)] ", "/// doc\n    #[a]\n    ", "pub ", "#[a]\n    pub(crate) "] {
                push(out, format!("ctx-item/{cl}/{kl}/{}", attr.trim().replace('\n', " ")), ctx.replace('§', &format!("{attr}{k}")));
            }
        }
    }
    // nested two deep: inner context inside an outer context (expression level only)
    let inner: [(&str, &str); 14] = [
        ("tuple-first", "(§, 1)"),
        ("tuple-last", "(1, §)"),
        ("array-first", "[§, 2]"),
        ("array-repeat", "[§; 2]"),
        ("call-arg", "g(§)"),
        ("struct-field", "S { a: § }"),
        ("index", "x[§]"),
        ("method-receiver", "§.m()"),
        ("binary-right", "1 + §"),
        ("neg", "-§"),
        ("snapshot", "@§"),
        ("closure-body", "|p| §"),
        ("block", "{ § }"),
        ("macro-arg", "array![§]"),
    ];
    for (ol, outer) in inner {
        for (il, inn) in inner {
            for (kl, k) in EXPR_CONSTRUCTS {
                let e = outer.replace('§', &inn.replace('§', k));
                push(out, format!("ctx-nested/{ol}>{il}/{kl}"), format!("fn f() {{\n    let v = {e};\n}}\n"));
            }
        }
    }
    // types and patterns nested in tuples / generics two deep
    for (kl, k) in TYPE_CONSTRUCTS {
        for (wl, w) in [("tuple-tuple", "((§, u8), u8)"), ("array-tuple", "[(§, u8); 2]"), ("tuple-array", "([§; 2], u8)"), ("generic-tuple", "Array<(§, u8)>"), ("tuple-generic", "(Array<§>, u8)"), ("snapshot-tuple", "@(§, u8)"), ("generic-generic", "Array<Span<§>>")] {
            push(out, format!("ctx-nested-type/{wl}/{kl}"), format!("fn f(v: {}) -> {} {{\n    let w: {} = g::<{}>();\n    w\n}}\n", w.replace('§', k), w.replace('§', k), w.replace('§', k), w.replace('§', k)));
        }
    }
}

/// All adjacency inputs (deterministic).
pub fn all() -> Vec<Adj> {
    let mut out = vec![];
    statement_adjacency(&mut out);
    expression_adjacency(&mut out);
    list_adjacency(&mut out);
    use_runs(&mut out);
    construct_context(&mut out);
    out
}

/// The family of an input (first two label components), for the evidence.
pub fn family(label: &str) -> String {
    label.split('/').take(2).collect::<Vec<_>>().join("/")
}
