//! h04sn -- C04 leg for nested Starknet calls: runs the self-checking gas tests of a project
//! (/verif/corpus/C04/gasproj) with the test runner of the tree under test (`cairo-test --starknet` as a library).
//! Every test asserts, from inside Cairo, that the gas counter dropped by at least 100 * (a lower bound of the
//! number of VM steps executed in between) - including the steps of inner contract / library calls that fail.
//! usage: h04sn <project dir>      exit 0 = every test passed; the runner's own report goes to stdout.
use std::path::Path;

use cairo_lang_test_runner::{TestRunConfig, TestRunner};

fn main() {
    let dir = std::env::args().nth(1).expect("usage: h04sn <project dir>");
    // the development corelib of the tree under test is found relative to CARGO_MANIFEST_DIR (detect_corelib)
    let repo = std::env::var("VERIF_REPO").ok().filter(|s| !s.is_empty()).unwrap_or_else(|| "/repo".to_string());
    unsafe { std::env::set_var("CARGO_MANIFEST_DIR", format!("{repo}/crates/cairo-lang-test-runner")) };
    let config = TestRunConfig {
        filter: String::new(),
        include_ignored: false,
        ignored: false,
        profiler_config: None,
        gas_enabled: true,
        print_resource_usage: false,
    };
    let runner = match TestRunner::new(Path::new(&dir), true, true, config) {
        Ok(r) => r,
        Err(e) => {
            println!("H04SN-ERROR the project does not compile: {e:#}");
            std::process::exit(2);
        }
    };
    match runner.run() {
        Ok(_) => println!("H04SN-OK"),
        Err(e) => {
            println!("H04SN-FAILED {e:#}");
            std::process::exit(1);
        }
    }
}
