//! Translator + correspondence harness for the Sierra acceptance pass (C15 / C04 / C17, and the
//! mutation engine shared with C14/C02).
//!
//! usage: h15 <corpus_dir with *.sierra> <out_dir> <tier>
//! For every corpus program and every mutant the real pipeline is run under `catch_unwind`:
//!   ProgramRegistryInfo::new -> calc_metadata -> compile.
//! Every program the real compiler ACCEPTS is printed as a Coq `program` term (statements, libfunc
//! signatures from the real registry, per-branch ap/gas/tracking changes from the real compile's
//! debug info, function metadata); `Sierra/Corr.v` then requires the proved-sound model checker
//! `annot_accepts` to accept it as well.
use std::collections::HashMap;
use std::fmt::Write as _;
use std::fs;
use std::panic::AssertUnwindSafe;

use cairo_lang_casm::ap_change::ApChange;
use cairo_lang_sierra::ProgramParser;
use cairo_lang_sierra::extensions::ConcreteLibfunc;
use cairo_lang_sierra::extensions::core::CoreConcreteLibfunc;
use cairo_lang_sierra::extensions::gas::CostTokenType;
use cairo_lang_sierra::ids::{ConcreteTypeId, FunctionId};
use cairo_lang_sierra::program::{BranchTarget, GenBranchTarget, Program, Statement, StatementIdx};
use cairo_lang_sierra_to_casm::compiler::{
    CairoProgram, SierraToCasmConfig, StatementKindDebugInfo, compile,
};
use cairo_lang_sierra_to_casm::invocations::ApTrackingChange;
use cairo_lang_sierra_to_casm::metadata::{
    Metadata, MetadataComputationConfig, calc_metadata, calc_metadata_ap_change_only,
};
use cairo_lang_sierra_type_size::ProgramRegistryInfo;
use vcommon::*;

const TOKENS: [CostTokenType; 8] = [
    CostTokenType::Const,
    CostTokenType::Pedersen,
    CostTokenType::Poseidon,
    CostTokenType::Bitwise,
    CostTokenType::EcOp,
    CostTokenType::AddMod,
    CostTokenType::MulMod,
    CostTokenType::Blake,
];

#[derive(Clone, Copy, Debug, PartialEq, Eq, Hash)]
enum Stage {
    Registry,
    Metadata,
    Compile,
    Accepted,
    Panic,
}

struct Outcome {
    stage: Stage,
    detail: String,
    accepted: Option<(ProgramRegistryInfo, Metadata, CairoProgram, bool)>,
}

/// The real pipeline on one program, with the given solver setting.
fn run_pipeline(program: &Program, linear: bool) -> Outcome {
    let r = catch(AssertUnwindSafe(|| {
        let info = match ProgramRegistryInfo::new(program) {
            Ok(i) => i,
            Err(e) => return (Stage::Registry, format!("{e}"), None),
        };
        let cfg = MetadataComputationConfig {
            linear_gas_solver: linear,
            linear_ap_change_solver: linear,
            // The equation-based solver is cross-checked against the linear one by a documented
            // debug assertion (`assert_eq_variables`, "Panics otherwise") that fires on valid corpus
            // programs using builtin cost tokens; the flag below is the crate's own switch for it.
            skip_non_linear_solver_comparisons: !linear,
            ..Default::default()
        };
        // gas-checked compilation when gas metadata can be computed, otherwise ap-change only
        let (metadata, gas) = match calc_metadata(program, &info, cfg) {
            Ok(m) => (m, true),
            Err(e1) => match calc_metadata_ap_change_only(program, &info) {
                Ok(m) => (m, false),
                Err(e2) => return (Stage::Metadata, format!("{e1} / {e2}"), None),
            },
        };
        match compile(
            program,
            &info,
            &metadata,
            SierraToCasmConfig { gas_usage_check: gas, max_bytecode_size: usize::MAX },
        ) {
            Ok(c) => (Stage::Accepted, String::new(), Some((info, metadata, c, gas))),
            Err(e) => (Stage::Compile, format!("{e}"), None),
        }
    }));
    match r {
        Ok((stage, detail, accepted)) => Outcome { stage, detail, accepted },
        Err(msg) => Outcome {
            stage: Stage::Panic,
            detail: format!("{} @ {}", msg, last_panic_location()),
            accepted: None,
        },
    }
}

/// The gas-less pipeline (ap-change-only metadata, no gas usage check - what `cairo-run` uses without
/// `--available-gas`): true if the program is accepted.  A panic counts as not accepted here (it is reported by the
/// normal pipeline / C14).
fn accepted_gasless(program: &Program) -> bool {
    catch(AssertUnwindSafe(|| {
        let Ok(info) = ProgramRegistryInfo::new(program) else { return false };
        let Ok(metadata) = calc_metadata_ap_change_only(program, &info) else { return false };
        compile(program, &info, &metadata, SierraToCasmConfig { gas_usage_check: false, max_bytecode_size: usize::MAX }).is_ok()
    }))
    .unwrap_or(false)
}

fn zlist(v: &[i64]) -> String {
    coq_list(&v.iter().map(|x| coq_zi(*x as i128)).collect::<Vec<_>>())
}

/// Prints an accepted program as a Coq term of type `Sierra.Annot.program` (through the helper
/// constructors of Sierra/Corr.v, which take `Z` everywhere).
fn dump(
    program: &Program,
    info: &ProgramRegistryInfo,
    metadata: &Metadata,
    casm: &CairoProgram,
    gas: bool,
) -> Result<String, String> {
    let ty_idx: HashMap<&ConcreteTypeId, usize> =
        program.type_declarations.iter().enumerate().map(|(i, d)| (&d.id, i + 1)).collect();
    let fn_idx: HashMap<&FunctionId, usize> =
        program.funcs.iter().enumerate().map(|(i, f)| (&f.id, i)).collect();
    let ty = |t: &ConcreteTypeId| -> Result<String, String> {
        ty_idx.get(t).map(|i| i.to_string()).ok_or_else(|| format!("undeclared type {t}"))
    };
    let mut stmts = vec![];
    for (i, st) in program.statements.iter().enumerate() {
        match st {
            Statement::Return(vs) => {
                stmts.push(format!(
                    "(R {})",
                    coq_list(&vs.iter().map(|v| (v.id + 1).to_string()).collect::<Vec<_>>())
                ));
            }
            Statement::Invocation(inv) => {
                let lf = info.registry().get_libfunc(&inv.libfunc_id).map_err(|e| e.to_string())?;
                let kind = match lf {
                    CoreConcreteLibfunc::FunctionCall(f) => format!(
                        "(KCall {})",
                        fn_idx.get(&f.function.id).ok_or("unknown callee")?
                    ),
                    CoreConcreteLibfunc::BranchAlign(_) => "KAlign".to_string(),
                    _ => "KOther".to_string(),
                };
                let params = lf
                    .param_signatures()
                    .iter()
                    .map(|p| ty(&p.ty))
                    .collect::<Result<Vec<_>, _>>()?;
                let dbg = match &casm.debug_info.sierra_statement_info[i].additional_kind_info {
                    StatementKindDebugInfo::Invoke(d) => d,
                    _ => return Err("debug info kind mismatch".into()),
                };
                let sig_outs: Vec<Vec<String>> = lf
                    .output_types()
                    .map(|ts| ts.map(|t| ty(t)).collect::<Result<Vec<_>, _>>())
                    .collect::<Result<Vec<_>, _>>()?;
                if sig_outs.len() != inv.branches.len() || dbg.result_branch_changes.len() != inv.branches.len() {
                    return Err(format!("#{i}: branch count mismatch"));
                }
                let mut brs = vec![];
                for (k, b) in inv.branches.iter().enumerate() {
                    let ch = &dbg.result_branch_changes[k];
                    let target = StatementIdx(i).next(b.target).0;
                    // the types the compiler attached to the new references must be the signature's
                    let dbg_outs =
                        ch.refs.iter().map(|r| ty(&r.ty)).collect::<Result<Vec<_>, _>>()?;
                    if dbg_outs != sig_outs[k] {
                        return Err(format!("#{i}: branch {k}: reference types differ from signature"));
                    }
                    let ap = match ch.ap_change {
                        ApChange::Known(x) => format!("(Some {})", x),
                        ApChange::Unknown => "None".to_string(),
                    };
                    let track = match ch.ap_tracking_change {
                        ApTrackingChange::None => "TNone",
                        ApTrackingChange::Enable => "TEnable",
                        ApTrackingChange::Disable => "TDisable",
                    };
                    let gas_vec: Vec<i64> = TOKENS
                        .iter()
                        .map(|t| ch.gas_cost.get(t).copied().unwrap_or(0))
                        .collect();
                    for (t, _) in ch.gas_cost.iter() {
                        if !TOKENS.contains(t) {
                            return Err(format!("#{i}: unexpected cost token {t:?}"));
                        }
                    }
                    brs.push(format!(
                        "(B {} {} {} {} {} {})",
                        target,
                        coq_list(&b.results.iter().map(|v| (v.id + 1).to_string()).collect::<Vec<_>>()),
                        coq_list(&sig_outs[k]),
                        ap,
                        track,
                        zlist(&gas_vec)
                    ));
                }
                let ft = match lf.fallthrough() {
                    Some(k) => format!("(Some {})", k),
                    None => "None".into(),
                };
                stmts.push(format!(
                    "(I {} {} {} {} {})",
                    kind,
                    coq_list(&params),
                    coq_list(&inv.args.iter().map(|v| (v.id + 1).to_string()).collect::<Vec<_>>()),
                    coq_list(&brs),
                    ft
                ));
            }
        }
    }
    let mut funcs = vec![];
    for f in &program.funcs {
        let params = f
            .params
            .iter()
            .map(|p| Ok(format!("({}, {})", p.id.id + 1, ty(&p.ty)?)))
            .collect::<Result<Vec<_>, String>>()?;
        let rets = f.signature.ret_types.iter().map(|t| ty(t)).collect::<Result<Vec<_>, _>>()?;
        let cost = if gas {
            let c = metadata.gas_info.function_costs.get(&f.id).ok_or("missing function cost")?;
            let v: Vec<i64> = TOKENS.iter().map(|t| c.get(t).copied().unwrap_or(0)).collect();
            format!("(Some {})", zlist(&v))
        } else {
            "None".into()
        };
        let ap = match metadata.ap_change_info.function_ap_change.get(&f.id) {
            Some(k) => format!("(Some {})", k),
            None => "None".into(),
        };
        funcs.push(format!(
            "(F {} {} {} {} {})",
            f.entry_point.0,
            coq_list(&params),
            coq_list(&rets),
            cost,
            ap
        ));
    }
    Ok(format!("(P {}\n {})", coq_list(&stmts).replace("; (", ";\n  ("), coq_list(&funcs)))
}


// ---------------- static CASM checks on accepted corpus programs (impl-level oracles) ----------------
// * layout: statement ranges are contiguous, start at 0 and add up to the sizes of their instructions
// * libfunc_ap_ok: on every path through the instructions of one statement, the ap movement equals
//   the branch's declared ApChange::Known
// * (necessary part of) libfunc_cost_ok: 90 * steps(path) <= declared Const cost of the branch
//   (100 per step, minus at most one refunded 10-gas hole per step)
use cairo_lang_casm::instructions::{Instruction, InstructionBody};
use cairo_lang_casm::operand::{DerefOrImmediate, ResOperand};
use num_bigint::BigInt;

fn imm_i64(v: &BigInt) -> Option<i64> {
    use std::convert::TryFrom;
    i64::try_from(v.clone()).ok()
}

struct PathExit {
    pc: usize,
    ap: Option<i64>,
    steps: usize,
}

fn statement_paths(instrs: &[Instruction], start: usize, end: usize) -> Option<Vec<PathExit>> {
    // pc -> index
    let mut at = HashMap::new();
    let mut pc = start;
    for (k, i) in instrs.iter().enumerate() {
        at.insert(pc, k);
        pc += i.body.op_size();
    }
    if pc != end {
        return None;
    }
    let mut exits = vec![];
    // (pc, ap, steps)
    let mut stack: Vec<(usize, Option<i64>, usize)> = vec![(start, Some(0), 0)];
    let mut budget = 20000;
    while let Some((pc, ap, steps)) = stack.pop() {
        budget -= 1;
        if budget == 0 || steps > 4000 {
            return None; // internal loop: not a straight-line-with-branches libfunc
        }
        if pc < start || pc >= end {
            exits.push(PathExit { pc, ap, steps });
            continue;
        }
        let Some(&k) = at.get(&pc) else { return None };
        let i = &instrs[k];
        let size = i.body.op_size();
        let ap1 = if i.inc_ap { ap.map(|a| a + 1) } else { ap };
        let rel = |d: &DerefOrImmediate| -> Option<usize> {
            match d {
                DerefOrImmediate::Immediate(v) => {
                    let t = pc as i64 + imm_i64(&v.value)?;
                    if t < 0 { None } else { Some(t as usize) }
                }
                _ => None,
            }
        };
        match &i.body {
            InstructionBody::AssertEq(a)
                if matches!(&a.b, ResOperand::BinOp(b)
                    if b.a == a.a
                        && matches!(b.op, cairo_lang_casm::operand::Operation::Add)
                        && matches!(&b.b, DerefOrImmediate::Immediate(v) if v.value != BigInt::from(0))) =>
            {
                // `[x] = [x] + c` with c != 0: the builder's `fail` - no run continues past it
            }
            InstructionBody::AssertEq(_) | InstructionBody::QM31AssertEq(_) | InstructionBody::Blake2sCompress(_) => {
                stack.push((pc + size, ap1, steps + 1))
            }
            InstructionBody::AddAp(a) => {
                let d = match &a.operand {
                    ResOperand::Immediate(v) => imm_i64(&v.value),
                    _ => None,
                };
                stack.push((pc + size, ap1.and_then(|x| d.map(|y| x + y)), steps + 1))
            }
            InstructionBody::Jump(j) => {
                if !j.relative {
                    return None;
                }
                stack.push((rel(&j.target)?, ap1, steps + 1))
            }
            InstructionBody::Jnz(j) => {
                stack.push((pc + size, ap1, steps + 1));
                stack.push((rel(&j.jump_offset)?, ap1, steps + 1));
            }
            // a call inside a libfunc: ap movement unknown afterwards (function_call is derived
            // in the Coq theorem from the callee, other internal calls must be declared Unknown)
            InstructionBody::Call(_) => stack.push((pc + size, None, steps + 1)),
            InstructionBody::Ret(_) => return None,
        }
    }
    Some(exits)
}

/// `drop<T>` / `dup<T>` may be specialised only for droppable / duplicatable types: the only
/// libfuncs that discard or copy a value must be allowed to by the value's type (C15).
fn dup_drop_check(program: &Program, info: &ProgramRegistryInfo, fail: &mut dyn FnMut(String)) {
    use cairo_lang_sierra::extensions::ConcreteType;
    use cairo_lang_sierra::program::GenericArg;
    for d in &program.libfunc_declarations {
        let g = d.long_id.generic_id.0.as_str();
        if g != "drop" && g != "dup" {
            continue;
        }
        let Some(GenericArg::Type(t)) = d.long_id.generic_args.first() else { continue };
        let Ok(ty) = info.registry().get_type(t) else { continue };
        let ti = ty.info();
        if g == "drop" && !ti.droppable {
            fail(format!("dup_drop: libfunc {} = drop<{}> is declared for a type that is not droppable", d.id, t));
        }
        if g == "dup" && !ti.duplicatable {
            fail(format!("dup_drop: libfunc {} = dup<{}> is declared for a type that is not duplicatable", d.id, t));
        }
    }
}

fn static_checks(
    name: &str,
    program: &Program,
    info: &ProgramRegistryInfo,
    metadata: &Metadata,
    casm: &CairoProgram,
    gas: bool,
    failures: &mut Vec<String>,
    counts: &mut (usize, usize, usize),
) {
    let infos = &casm.debug_info.sierra_statement_info;
    let mut fail = |what: String| {
        failures.push(format!("{{\"program\": {:?}, \"why\": {:?}}}", name, what));
    };
    dup_drop_check(program, info, &mut fail);
    // ---- layout ----
    let mut expected_start = 0usize;
    for (i, si) in infos.iter().enumerate() {
        if si.start_offset != expected_start {
            fail(format!("layout: statement #{i} starts at {} but the previous one ended at {}", si.start_offset, expected_start));
        }
        let next_idx = infos.get(i + 1).map(|n| n.instruction_idx).unwrap_or(casm.instructions.len());
        if next_idx < si.instruction_idx {
            fail(format!("layout: statement #{i} instruction index decreases"));
            return;
        }
        let size: usize = casm.instructions[si.instruction_idx..next_idx].iter().map(|x| x.body.op_size()).sum();
        if si.end_offset != si.start_offset + size {
            fail(format!("layout: statement #{i} range [{}, {}) but its instructions occupy {}", si.start_offset, si.end_offset, size));
        }
        expected_start = si.end_offset;
    }
    // ---- per-branch ap / steps ----
    for (i, st) in program.statements.iter().enumerate() {
        let Statement::Invocation(inv) = st else { continue };
        let Ok(lf) = info.registry().get_libfunc(&inv.libfunc_id) else { continue };
        let si = &infos[i];
        let StatementKindDebugInfo::Invoke(dbg) = &si.additional_kind_info else { continue };
        let next_idx = infos.get(i + 1).map(|n| n.instruction_idx).unwrap_or(casm.instructions.len());
        let instrs = &casm.instructions[si.instruction_idx..next_idx];
        let is_call = matches!(lf, CoreConcreteLibfunc::FunctionCall(_) | CoreConcreteLibfunc::CouponCall(_));
        let is_gas = matches!(lf, CoreConcreteLibfunc::Gas(_) | CoreConcreteLibfunc::Coupon(_));
        // coupons are pre-paid calls: buying one must charge at least the callee's entry cost (every
        // token), refunding one may return at most that
        if gas {
            use cairo_lang_sierra::extensions::coupon::CouponConcreteLibfunc;
            if let CoreConcreteLibfunc::Coupon(c) = lf {
                let (f, sign) = match c {
                    CouponConcreteLibfunc::Buy(b) => (&b.function.id, 1i64),
                    CouponConcreteLibfunc::Refund(b) => (&b.function.id, -1i64),
                };
                if let (Some(fc), Some(ch)) = (metadata.gas_info.function_costs.get(f), dbg.result_branch_changes.first()) {
                    for t in TOKENS.iter() {
                        let declared = ch.gas_cost.get(t).copied().unwrap_or(0);
                        let callee = fc.get(t).copied().unwrap_or(0);
                        if declared < sign * callee {
                            fail(format!(
                                "libfunc_cost_ok: #{i} {}: declared {:?} cost {} but the callee's entry cost is {} (a coupon is a pre-paid call)",
                                inv.libfunc_id, t, declared, callee
                            ));
                        }
                    }
                }
            }
        }
        let Some(exits) = statement_paths(instrs, si.start_offset, si.end_offset) else {
            counts.2 += 1;
            continue;
        };
        for ex in exits {
            // which branch does this exit belong to?
            let mut matched = vec![];
            for (k, b) in inv.branches.iter().enumerate() {
                let t = StatementIdx(i).next(b.target).0;
                let tstart = infos.get(t).map(|x| x.start_offset);
                if tstart == Some(ex.pc) {
                    matched.push(k);
                }
            }
            if matched.is_empty() {
                // jumps into shared code (const segments, panic paths) are not branch exits
                continue;
            }
            counts.0 += 1;
            if !is_call {
                if let Some(ap) = ex.ap {
                    let ok = matched.iter().any(|k| match dbg.result_branch_changes[*k].ap_change {
                        ApChange::Known(x) => x as i64 == ap,
                        ApChange::Unknown => true,
                    });
                    if !ok {
                        fail(format!(
                            "libfunc_ap_ok: #{i} {}: a path to branch {:?} moves ap by {} but the declared change is {:?}",
                            inv.libfunc_id, matched, ap,
                            matched.iter().map(|k| dbg.result_branch_changes[*k].ap_change).collect::<Vec<_>>()
                        ));
                    }
                }
            }
            if gas && !is_gas {
                counts.1 += 1;
                let ok = matched.iter().any(|k| {
                    let g = &dbg.result_branch_changes[*k].gas_cost;
                    let c = g.get(&CostTokenType::Const).copied().unwrap_or(0);
                    // builtin tokens are priced separately (their instruction is paid by the token)
                    let other = g.iter().any(|(t, v)| *t != CostTokenType::Const && *v != 0);
                    // a step may fill a pre-paid memory hole (store_local: steps 1, holes -1 => 90 per step)
                    other || 90 * ex.steps as i64 <= c
                });
                if !ok {
                    fail(format!(
                        "libfunc_cost_ok: #{i} {}: a path to branch {:?} takes {} steps but the declared Const cost is {:?}",
                        inv.libfunc_id, matched, ex.steps,
                        matched.iter().map(|k| dbg.result_branch_changes[*k].gas_cost.get(&CostTokenType::Const).copied().unwrap_or(0)).collect::<Vec<_>>()
                    ));
                }
            }
        }
    }
}

// ---------------- mutants ----------------
fn all_vars(p: &Program) -> Vec<u64> {
    let mut v = vec![];
    for s in &p.statements {
        match s {
            Statement::Return(vs) => v.extend(vs.iter().map(|x| x.id)),
            Statement::Invocation(i) => {
                v.extend(i.args.iter().map(|x| x.id));
                for b in &i.branches {
                    v.extend(b.results.iter().map(|x| x.id));
                }
            }
        }
    }
    v.sort();
    v.dedup();
    v
}

/// All single-point mutants of `p` of the given kinds at statement `i` (bounded per statement).
fn mutants_at(p: &Program, i: usize, rng: &mut Rng) -> Vec<(String, Program)> {
    use cairo_lang_sierra::ids::VarId;
    let mut out = vec![];
    let n = p.statements.len();
    let vars = all_vars(p);
    let mut push = |name: String, q: Program| out.push((name, q));
    // delete (targets beyond i shift down)
    {
        let mut q = p.clone();
        q.statements.remove(i);
        for s in q.statements.iter_mut() {
            if let Statement::Invocation(inv) = s {
                for b in inv.branches.iter_mut() {
                    if let GenBranchTarget::Statement(t) = &mut b.target {
                        if t.0 > i {
                            t.0 -= 1;
                        }
                    }
                }
            }
        }
        for f in q.funcs.iter_mut() {
            if f.entry_point.0 > i {
                f.entry_point.0 -= 1;
            }
        }
        push(format!("delete#{i}"), q);
    }
    // swap with next
    if i + 1 < n {
        let mut q = p.clone();
        q.statements.swap(i, i + 1);
        push(format!("swap#{i}"), q);
    }
    // duplicate
    {
        let mut q = p.clone();
        let s = q.statements[i].clone();
        q.statements.insert(i, s);
        for (j, s) in q.statements.iter_mut().enumerate() {
            if let Statement::Invocation(inv) = s {
                for b in inv.branches.iter_mut() {
                    if let GenBranchTarget::Statement(t) = &mut b.target {
                        if t.0 > i || (t.0 == i && j != i) {
                            t.0 += if t.0 > i { 1 } else { 0 };
                        }
                    }
                }
            }
        }
        for f in q.funcs.iter_mut() {
            if f.entry_point.0 > i {
                f.entry_point.0 += 1;
            }
        }
        push(format!("dup#{i}"), q);
    }
    match &p.statements[i] {
        Statement::Return(vs) => {
            if vs.len() >= 2 {
                let mut q = p.clone();
                if let Statement::Return(w) = &mut q.statements[i] {
                    w.swap(0, 1);
                }
                push(format!("retswap#{i}"), q);
            }
            if !vs.is_empty() && !vars.is_empty() {
                let mut q = p.clone();
                if let Statement::Return(w) = &mut q.statements[i] {
                    w[0] = VarId::new(*rng.pick(&vars));
                }
                push(format!("retvar#{i}"), q);
                let mut q = p.clone();
                if let Statement::Return(w) = &mut q.statements[i] {
                    w.pop();
                }
                push(format!("retdrop#{i}"), q);
            }
        }
        Statement::Invocation(inv) => {
            if inv.args.len() >= 2 {
                let mut q = p.clone();
                if let Statement::Invocation(x) = &mut q.statements[i] {
                    x.args.swap(0, 1);
                }
                push(format!("argswap#{i}"), q);
            }
            if !inv.args.is_empty() && !vars.is_empty() {
                let mut q = p.clone();
                let k = rng.below(inv.args.len() as u64) as usize;
                if let Statement::Invocation(x) = &mut q.statements[i] {
                    x.args[k] = VarId::new(*rng.pick(&vars));
                }
                push(format!("argvar#{i}"), q);
            }
            for (k, b) in inv.branches.iter().enumerate() {
                if !b.results.is_empty() && !vars.is_empty() {
                    let mut q = p.clone();
                    if let Statement::Invocation(x) = &mut q.statements[i] {
                        x.branches[k].results[0] = VarId::new(*rng.pick(&vars));
                    }
                    push(format!("resvar#{i}.{k}"), q);
                }
                if b.results.len() >= 2 {
                    let mut q = p.clone();
                    if let Statement::Invocation(x) = &mut q.statements[i] {
                        x.branches[k].results.swap(0, 1);
                    }
                    push(format!("resswap#{i}.{k}"), q);
                }
                // retarget: self, next+1, previous, a random statement, fallthrough<->explicit
                let cur = StatementIdx(i).next(b.target).0;
                let mut cands = vec![i, cur + 1, cur.saturating_sub(1), rng.below(n as u64) as usize, n];
                cands.dedup();
                for t in cands {
                    if t == cur {
                        continue;
                    }
                    let mut q = p.clone();
                    if let Statement::Invocation(x) = &mut q.statements[i] {
                        x.branches[k].target = BranchTarget::Statement(StatementIdx(t));
                    }
                    push(format!("retarget#{i}.{k}->{t}"), q);
                }
                if matches!(b.target, GenBranchTarget::Fallthrough) {
                    let mut q = p.clone();
                    if let Statement::Invocation(x) = &mut q.statements[i] {
                        x.branches[k].target = BranchTarget::Statement(StatementIdx(i + 1));
                    }
                    push(format!("explicit#{i}.{k}"), q);
                }
            }
            if inv.branches.len() >= 2 {
                let mut q = p.clone();
                if let Statement::Invocation(x) = &mut q.statements[i] {
                    x.branches.swap(0, 1);
                }
                push(format!("brswap#{i}"), q);
            }
            if p.libfunc_declarations.len() >= 2 {
                let mut q = p.clone();
                let other = rng.pick(&p.libfunc_declarations).id.clone();
                if let Statement::Invocation(x) = &mut q.statements[i] {
                    x.libfunc_id = other;
                }
                push(format!("libfunc#{i}"), q);
            }
        }
    }
    out
}

fn program_mutants(p: &Program, rng: &mut Rng) -> Vec<(String, Program)> {
    let mut out = vec![];
    // entry point moves, signature edits
    for (k, f) in p.funcs.iter().enumerate() {
        for d in [1usize, usize::MAX] {
            let mut q = p.clone();
            q.funcs[k].entry_point.0 = f.entry_point.0.wrapping_add(d);
            out.push((format!("entry#{k}"), q));
        }
        if f.params.len() >= 2 {
            let mut q = p.clone();
            q.funcs[k].params.swap(0, 1);
            q.funcs[k].signature.param_types.swap(0, 1);
            out.push((format!("paramswap#{k}"), q));
        }
        if f.signature.ret_types.len() >= 2 {
            let mut q = p.clone();
            q.funcs[k].signature.ret_types.swap(0, 1);
            out.push((format!("retswap_sig#{k}"), q));
        }
        // the two places a function's parameter types are stored (`signature.param_types`, used by callers, and
        // `params[..].ty`, used by the body) made to disagree - only expressible in the JSON / felt252 forms
        for j in 0..f.params.len() {
            // every declared type for small programs, a seeded one otherwise
            let others: Vec<_> = if p.type_declarations.len() <= 8 {
                p.type_declarations.iter().map(|d| d.id.clone()).collect()
            } else {
                vec![rng.pick(&p.type_declarations).id.clone()]
            };
            for other in others {
                if other == f.params[j].ty {
                    continue;
                }
                let mut q = p.clone();
                q.funcs[k].signature.param_types[j] = other.clone();
                out.push((format!("sigonly#{k}.{j}:{other}"), q));
                let mut q = p.clone();
                q.funcs[k].params[j].ty = other.clone();
                out.push((format!("paramty#{k}.{j}:{other}"), q));
            }
        }
        if f.params.len() >= 2 && f.params[0].ty != f.params[1].ty {
            let mut q = p.clone();
            q.funcs[k].signature.param_types.swap(0, 1);
            out.push((format!("sigswap#{k}"), q));
        }
    }
    if p.type_declarations.len() >= 2 {
        let mut q = p.clone();
        let k = rng.below(p.type_declarations.len() as u64 - 1) as usize;
        q.type_declarations.swap(k, k + 1);
        out.push((format!("typeorder#{k}"), q));
    }
    // libfunc declarations: replace a type argument by another declared type (e.g. drop<T> for a
    // non-droppable T, store_temp<T'>, dup<T'>)
    {
        use cairo_lang_sierra::program::GenericArg;
        for (k, d) in p.libfunc_declarations.iter().enumerate() {
            for (j, a) in d.long_id.generic_args.iter().enumerate() {
                if let GenericArg::Type(_) = a {
                    for _ in 0..2 {
                        let other = rng.pick(&p.type_declarations).id.clone();
                        let mut q = p.clone();
                        q.libfunc_declarations[k].long_id.generic_args[j] = GenericArg::Type(other);
                        out.push((format!("libdecl#{k}.{j}"), q));
                    }
                }
            }
        }
    }
    out
}

fn main() {
    quiet_panics();
    let args: Vec<String> = std::env::args().collect();
    let corpus_dir = &args[1];
    let out_dir = &args[2];
    let thorough = args.get(3).map(|s| s == "thorough").unwrap_or(false);
    let mut rng = Rng::from_env();
    fs::create_dir_all(out_dir).unwrap();

    let mut files: Vec<_> = fs::read_dir(corpus_dir)
        .unwrap()
        .filter_map(|e| e.ok())
        .map(|e| e.path())
        .filter(|p| p.extension().map(|x| x == "sierra").unwrap_or(false))
        .collect();
    files.sort();

    let max_stmts_coq = if thorough { 4000 } else { 700 };
    let mutant_budget_per_program = if thorough { 400 } else { 40 };
    let max_stmts_mutate = if thorough { 400 } else { 120 };

    let mut stage_counts: HashMap<(bool, Stage), usize> = HashMap::new();
    let mut panics: Vec<String> = vec![];
    let mut accepted_terms: Vec<(String, usize, String, String)> = vec![]; // (name, n_stmts, term, sierra text)
    let mut dump_errors: Vec<String> = vec![];
    let mut static_failures: Vec<String> = vec![];
    let mut negatives_accepted: Vec<String> = vec![];
    let mut negatives_verdicts: Vec<String> = vec![];
    let mut static_counts: (usize, usize, usize) = (0, 0, 0);
    let mut n_programs = 0;
    let mut n_mutants = 0;
    let mut n_accepted_mutants = 0;
    let mut seen: std::collections::HashSet<String> = Default::default();

    let mut handle = |name: String,
                      program: &Program,
                      is_mutant: bool,
                      linear: bool,
                      stage_counts: &mut HashMap<(bool, Stage), usize>,
                      accepted_terms: &mut Vec<(String, usize, String, String)>,
                      panics: &mut Vec<String>,
                      dump_errors: &mut Vec<String>,
                      static_failures: &mut Vec<String>,
                      static_counts: &mut (usize, usize, usize)|
     -> bool {
        let o = run_pipeline(program, linear);
        *stage_counts.entry((is_mutant, o.stage)).or_insert(0) += 1;
        if o.stage == Stage::Panic {
            panics.push(format!(
                "{{\"program\": {:?}, \"linear_solver\": {}, \"panic\": {:?}, \"sierra\": {:?}}}",
                name,
                linear,
                o.detail,
                if program.statements.len() <= 200 { catch(AssertUnwindSafe(|| program.to_string())).unwrap_or_else(|_| format!("{:?}", program.statements)) } else { String::from("(large)") }
            ));
        }
        let _ = &o.detail;
        if let Some((info, metadata, casm, gas)) = &o.accepted {
            if !is_mutant {
                static_checks(&name, program, info, metadata, casm, *gas, static_failures, static_counts);
            } else {
                let nm = name.clone();
                dup_drop_check(program, info, &mut |what: String| {
                    static_failures.push(format!("{{\"program\": {:?}, \"why\": {:?}}}", nm, what));
                });
            }
            if program.statements.len() <= max_stmts_coq {
                match dump(program, info, metadata, casm, *gas) {
                    Ok(t) => accepted_terms.push((
                        name,
                        program.statements.len(),
                        t,
                        catch(AssertUnwindSafe(|| program.to_string())).unwrap_or_default(),
                    )),
                    Err(e) => dump_errors.push(format!("{name}: {e}")),
                }
            }
            true
        } else {
            false
        }
    };

    for path in &files {
        let text = fs::read_to_string(path).unwrap();
        let base = path.file_stem().unwrap().to_string_lossy().to_string();
        let Ok(program) = ProgramParser::new().parse(&text) else {
            if base.starts_with("n_") {
                // a template that does not even parse tests nothing: reported by the driver as a machinery problem
                negatives_verdicts.push(format!("{base}: ParseError"));
            }
            continue;
        };
        n_programs += 1;
        for linear in if thorough { vec![true, false] } else { vec![true] } {
            // every negative template (n_*) is an invalid program by construction: the real pipeline must reject it
            if base.starts_with("n_") {
                let o = run_pipeline(&program, linear);
                negatives_verdicts.push(format!("{base}[linear={linear}]: {:?}: {}", o.stage, o.detail.chars().take(160).collect::<String>()));
                // some rules are shadowed by the gas validation when gas metadata exists: also without gas
                let gasless = linear && accepted_gasless(&program);
                if gasless {
                    negatives_verdicts.push(format!("{base}[gasless]: Accepted"));
                }
                if o.accepted.is_some() || gasless {
                    negatives_accepted.push(format!("{{\"program\": {:?}, \"linear_solver\": {}, \"sierra\": {:?}}}", base, linear, text));
                }
            }
            handle(
                format!("{base}[linear={linear}]"),
                &program,
                false,
                linear,
                &mut stage_counts,
                &mut accepted_terms,
                &mut panics,
                &mut dump_errors,
                &mut static_failures,
                &mut static_counts,
            );
        }
        if program.statements.len() > max_stmts_mutate {
            continue;
        }
        // single-point mutants (every statement is visited; the per-program budget samples them)
        let mut ms = program_mutants(&program, &mut rng);
        for i in 0..program.statements.len() {
            ms.extend(mutants_at(&program, i, &mut rng));
        }
        // H15_ONLY_OPS=a,b: keep only the mutants whose operator name starts with one of the given prefixes (probing)
        if let Ok(only) = std::env::var("H15_ONLY_OPS") {
            let pre: Vec<&str> = only.split(',').collect();
            ms.retain(|(n, _)| pre.iter().any(|p| n.starts_with(p)));
        }
        // seeded selection without replacement
        let mut picked = 0;
        // negative templates are tiny and each mutant is a deliberate near-miss: all of them are tried
        let budget = if base.starts_with("n_") { usize::MAX } else { mutant_budget_per_program };
        while picked < budget && !ms.is_empty() {
            let k = rng.below(ms.len() as u64) as usize;
            let (mname, q) = ms.swap_remove(k);
            let key = format!("{:?}|{:?}|{:?}", q.statements, q.funcs, q.type_declarations);
            if !seen.insert(key) {
                continue;
            }
            picked += 1;
            n_mutants += 1;
            if handle(
                format!("{base}~{mname}"),
                &q,
                true,
                true,
                &mut stage_counts,
                &mut accepted_terms,
                &mut panics,
                &mut dump_errors,
                &mut static_failures,
                &mut static_counts,
            ) {
                n_accepted_mutants += 1;
            }
        }
    }

    // ---- write Coq shards: pack programs up to ~1500 statements per shard ----
    let mut shards = 0;
    let mut cur: Vec<&(String, usize, String, String)> = vec![];
    let mut cur_size = 0;
    let mut flush = |cur: &mut Vec<&(String, usize, String, String)>, shards: &mut usize| {
        if cur.is_empty() {
            return;
        }
        let mut s = String::new();
        writeln!(s, "From Coq Require Import ZArith List.\nImport ListNotations.\nFrom Sierra Require Import Annot Corr.").unwrap();
        writeln!(s, "Local Open Scope Z_scope.").unwrap();
        for (k, (name, _, term, _)) in cur.iter().enumerate() {
            writeln!(s, "(* {} *)", name.replace("*)", "* )")).unwrap();
            writeln!(s, "Definition prog_{} : program := {}.", k, term).unwrap();
        }
        writeln!(
            s,
            "Definition cases : list (Z * program) := [{}].",
            (0..cur.len()).map(|k| format!("({}, prog_{})", k, k)).collect::<Vec<_>>().join("; ")
        )
        .unwrap();
        writeln!(s, "Definition bad := Eval vm_compute in check_accept cases.").unwrap();
        writeln!(s, "Print bad.").unwrap();
        let names: Vec<String> = cur.iter().map(|(n, _, _, _)| n.clone()).collect();
        let texts: Vec<String> = cur.iter().map(|(n, _, _, t)| format!("{:?}: {:?}", n, t)).collect();
        fs::write(format!("{}/acc_{:03}.sierra.json", out_dir, shards), format!("{{{}}}", texts.join(",\n"))).unwrap();
        fs::write(format!("{}/acc_{:03}.v", out_dir, shards), s).unwrap();
        fs::write(format!("{}/acc_{:03}.names", out_dir, shards), names.join("\n")).unwrap();
        *shards += 1;
        cur.clear();
    };
    for t in &accepted_terms {
        if cur_size + t.1 > 1500 && !cur.is_empty() {
            flush(&mut cur, &mut shards);
            cur_size = 0;
        }
        cur_size += t.1;
        cur.push(t);
    }
    flush(&mut cur, &mut shards);

    let mut sc: Vec<String> = stage_counts
        .iter()
        .map(|((m, s), c)| format!("\"{}_{:?}\": {}", if *m { "mutant" } else { "corpus" }, s, c))
        .collect();
    sc.sort();
    let summary = format!(
        "{{\"corpus_programs\": {}, \"mutants\": {}, \"accepted_mutants\": {}, \"accepted_dumped\": {}, \"dump_errors\": {}, \"impl_panics\": {}, \"shards\": {}, \"static_failures\": {}, \"static_branch_paths\": {}, \"static_cost_paths\": {}, \"static_skipped_statements\": {}, \"stages\": {{{}}}}}",
        n_programs,
        n_mutants,
        n_accepted_mutants,
        accepted_terms.len(),
        dump_errors.len(),
        panics.len(),
        shards,
        static_failures.len(),
        static_counts.0,
        static_counts.1,
        static_counts.2,
        sc.join(", ")
    );
    fs::write(format!("{}/summary.json", out_dir), &summary).unwrap();
    fs::write(format!("{}/panics.json", out_dir), format!("[{}]", panics.join(",\n"))).unwrap();
    fs::write(format!("{}/dump_errors.txt", out_dir), dump_errors.join("\n")).unwrap();
    fs::write(format!("{}/static_failures.json", out_dir), format!("[{}]", static_failures.join(",\n"))).unwrap();
    fs::write(format!("{}/negatives_verdicts.txt", out_dir), negatives_verdicts.join("\n")).unwrap();
    fs::write(format!("{}/negatives_accepted.json", out_dir), format!("[{}]", negatives_accepted.join(",\n"))).unwrap();
    let samples: Vec<String> = accepted_terms.iter().rev().take(3).map(|(n, k, _, _)| format!("{n} ({k} statements)")).collect();
    fs::write(format!("{}/samples.txt", out_dir), samples.join("\n")).unwrap();
    println!("{}", summary);
}
