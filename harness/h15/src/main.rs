//! Translator + correspondence harness for the Sierra acceptance pass (C15 / C04 / C17, and the
//! mutation engine shared with C14/C02).
//!
//! usage: h15 <corpus_dir with *.sierra> <out_dir> <tier>
//! For every corpus program and every mutant the real pipeline is run under `catch_unwind`:
//!   ProgramRegistryInfo::new -> calc_metadata -> compile.
//! Every program the real compiler ACCEPTS is printed as a Coq `program` term (statements, libfunc
//! signatures from the real registry, per-branch ap/gas/tracking changes from the real compile's
//! debug info, function metadata); `Sierra/Corr.v` then requires the proved-sound model checker
//! `annot_accepts` to accept it as well.
use std::collections::HashMap;
use std::fmt::Write as _;
use std::fs;
use std::panic::AssertUnwindSafe;

use cairo_lang_casm::ap_change::ApChange;
use cairo_lang_sierra::ProgramParser;
use cairo_lang_sierra::extensions::ConcreteLibfunc;
use cairo_lang_sierra::extensions::core::CoreConcreteLibfunc;
use cairo_lang_sierra::extensions::gas::CostTokenType;
use cairo_lang_sierra::ids::{ConcreteTypeId, FunctionId};
use cairo_lang_sierra::program::{BranchTarget, GenBranchTarget, Program, Statement, StatementIdx};
use cairo_lang_sierra_to_casm::compiler::{
    CairoProgram, SierraToCasmConfig, StatementKindDebugInfo, compile,
};
use cairo_lang_sierra_to_casm::invocations::ApTrackingChange;
use cairo_lang_sierra_to_casm::metadata::{
    Metadata, MetadataComputationConfig, calc_metadata, calc_metadata_ap_change_only,
};
use cairo_lang_sierra_type_size::ProgramRegistryInfo;
use vcommon::*;

const TOKENS: [CostTokenType; 8] = [
    CostTokenType::Const,
    CostTokenType::Pedersen,
    CostTokenType::Poseidon,
    CostTokenType::Bitwise,
    CostTokenType::EcOp,
    CostTokenType::AddMod,
    CostTokenType::MulMod,
    CostTokenType::Blake,
];

#[derive(Clone, Copy, Debug, PartialEq, Eq, Hash)]
enum Stage {
    Registry,
    Metadata,
    Compile,
    Accepted,
    Panic,
}

struct Outcome {
    stage: Stage,
    detail: String,
    accepted: Option<(ProgramRegistryInfo, Metadata, CairoProgram, bool)>,
}

/// The real pipeline on one program, with the given solver setting.
fn run_pipeline(program: &Program, linear: bool) -> Outcome {
    let r = catch(AssertUnwindSafe(|| {
        let info = match ProgramRegistryInfo::new(program) {
            Ok(i) => i,
            Err(e) => return (Stage::Registry, format!("{e}"), None),
        };
        let cfg = MetadataComputationConfig {
            linear_gas_solver: linear,
            linear_ap_change_solver: linear,
            ..Default::default()
        };
        // gas-checked compilation when gas metadata can be computed, otherwise ap-change only
        let (metadata, gas) = match calc_metadata(program, &info, cfg) {
            Ok(m) => (m, true),
            Err(e1) => match calc_metadata_ap_change_only(program, &info) {
                Ok(m) => (m, false),
                Err(e2) => return (Stage::Metadata, format!("{e1} / {e2}"), None),
            },
        };
        match compile(
            program,
            &info,
            &metadata,
            SierraToCasmConfig { gas_usage_check: gas, max_bytecode_size: usize::MAX },
        ) {
            Ok(c) => (Stage::Accepted, String::new(), Some((info, metadata, c, gas))),
            Err(e) => (Stage::Compile, format!("{e}"), None),
        }
    }));
    match r {
        Ok((stage, detail, accepted)) => Outcome { stage, detail, accepted },
        Err(msg) => Outcome {
            stage: Stage::Panic,
            detail: format!("{} @ {}", msg, last_panic_location()),
            accepted: None,
        },
    }
}

fn zlist(v: &[i64]) -> String {
    coq_list(&v.iter().map(|x| coq_zi(*x as i128)).collect::<Vec<_>>())
}

/// Prints an accepted program as a Coq term of type `Sierra.Annot.program` (through the helper
/// constructors of Sierra/Corr.v, which take `Z` everywhere).
fn dump(
    program: &Program,
    info: &ProgramRegistryInfo,
    metadata: &Metadata,
    casm: &CairoProgram,
    gas: bool,
) -> Result<String, String> {
    let ty_idx: HashMap<&ConcreteTypeId, usize> =
        program.type_declarations.iter().enumerate().map(|(i, d)| (&d.id, i + 1)).collect();
    let fn_idx: HashMap<&FunctionId, usize> =
        program.funcs.iter().enumerate().map(|(i, f)| (&f.id, i)).collect();
    let ty = |t: &ConcreteTypeId| -> Result<String, String> {
        ty_idx.get(t).map(|i| i.to_string()).ok_or_else(|| format!("undeclared type {t}"))
    };
    let mut stmts = vec![];
    for (i, st) in program.statements.iter().enumerate() {
        match st {
            Statement::Return(vs) => {
                stmts.push(format!(
                    "(R {})",
                    coq_list(&vs.iter().map(|v| (v.id + 1).to_string()).collect::<Vec<_>>())
                ));
            }
            Statement::Invocation(inv) => {
                let lf = info.registry().get_libfunc(&inv.libfunc_id).map_err(|e| e.to_string())?;
                let kind = match lf {
                    CoreConcreteLibfunc::FunctionCall(f) => format!(
                        "(KCall {})",
                        fn_idx.get(&f.function.id).ok_or("unknown callee")?
                    ),
                    CoreConcreteLibfunc::BranchAlign(_) => "KAlign".to_string(),
                    _ => "KOther".to_string(),
                };
                let params = lf
                    .param_signatures()
                    .iter()
                    .map(|p| ty(&p.ty))
                    .collect::<Result<Vec<_>, _>>()?;
                let dbg = match &casm.debug_info.sierra_statement_info[i].additional_kind_info {
                    StatementKindDebugInfo::Invoke(d) => d,
                    _ => return Err("debug info kind mismatch".into()),
                };
                let sig_outs: Vec<Vec<String>> = lf
                    .output_types()
                    .map(|ts| ts.map(|t| ty(t)).collect::<Result<Vec<_>, _>>())
                    .collect::<Result<Vec<_>, _>>()?;
                if sig_outs.len() != inv.branches.len() || dbg.result_branch_changes.len() != inv.branches.len() {
                    return Err(format!("#{i}: branch count mismatch"));
                }
                let mut brs = vec![];
                for (k, b) in inv.branches.iter().enumerate() {
                    let ch = &dbg.result_branch_changes[k];
                    let target = StatementIdx(i).next(b.target).0;
                    // the types the compiler attached to the new references must be the signature's
                    let dbg_outs =
                        ch.refs.iter().map(|r| ty(&r.ty)).collect::<Result<Vec<_>, _>>()?;
                    if dbg_outs != sig_outs[k] {
                        return Err(format!("#{i}: branch {k}: reference types differ from signature"));
                    }
                    let ap = match ch.ap_change {
                        ApChange::Known(x) => format!("(Some {})", x),
                        ApChange::Unknown => "None".to_string(),
                    };
                    let track = match ch.ap_tracking_change {
                        ApTrackingChange::None => "TNone",
                        ApTrackingChange::Enable => "TEnable",
                        ApTrackingChange::Disable => "TDisable",
                    };
                    let gas_vec: Vec<i64> = TOKENS
                        .iter()
                        .map(|t| ch.gas_cost.get(t).copied().unwrap_or(0))
                        .collect();
                    for (t, _) in ch.gas_cost.iter() {
                        if !TOKENS.contains(t) {
                            return Err(format!("#{i}: unexpected cost token {t:?}"));
                        }
                    }
                    brs.push(format!(
                        "(B {} {} {} {} {} {})",
                        target,
                        coq_list(&b.results.iter().map(|v| (v.id + 1).to_string()).collect::<Vec<_>>()),
                        coq_list(&sig_outs[k]),
                        ap,
                        track,
                        zlist(&gas_vec)
                    ));
                }
                let ft = match lf.fallthrough() {
                    Some(k) => format!("(Some {})", k),
                    None => "None".into(),
                };
                stmts.push(format!(
                    "(I {} {} {} {} {})",
                    kind,
                    coq_list(&params),
                    coq_list(&inv.args.iter().map(|v| (v.id + 1).to_string()).collect::<Vec<_>>()),
                    coq_list(&brs),
                    ft
                ));
            }
        }
    }
    let mut funcs = vec![];
    for f in &program.funcs {
        let params = f
            .params
            .iter()
            .map(|p| Ok(format!("({}, {})", p.id.id + 1, ty(&p.ty)?)))
            .collect::<Result<Vec<_>, String>>()?;
        let rets = f.signature.ret_types.iter().map(|t| ty(t)).collect::<Result<Vec<_>, _>>()?;
        let cost = if gas {
            let c = metadata.gas_info.function_costs.get(&f.id).ok_or("missing function cost")?;
            let v: Vec<i64> = TOKENS.iter().map(|t| c.get(t).copied().unwrap_or(0)).collect();
            format!("(Some {})", zlist(&v))
        } else {
            "None".into()
        };
        let ap = match metadata.ap_change_info.function_ap_change.get(&f.id) {
            Some(k) => format!("(Some {})", k),
            None => "None".into(),
        };
        funcs.push(format!(
            "(F {} {} {} {} {})",
            f.entry_point.0,
            coq_list(&params),
            coq_list(&rets),
            cost,
            ap
        ));
    }
    Ok(format!("(P {}\n {})", coq_list(&stmts).replace("; (", ";\n  ("), coq_list(&funcs)))
}

// ---------------- mutants ----------------
fn all_vars(p: &Program) -> Vec<u64> {
    let mut v = vec![];
    for s in &p.statements {
        match s {
            Statement::Return(vs) => v.extend(vs.iter().map(|x| x.id)),
            Statement::Invocation(i) => {
                v.extend(i.args.iter().map(|x| x.id));
                for b in &i.branches {
                    v.extend(b.results.iter().map(|x| x.id));
                }
            }
        }
    }
    v.sort();
    v.dedup();
    v
}

/// All single-point mutants of `p` of the given kinds at statement `i` (bounded per statement).
fn mutants_at(p: &Program, i: usize, rng: &mut Rng) -> Vec<(String, Program)> {
    use cairo_lang_sierra::ids::VarId;
    let mut out = vec![];
    let n = p.statements.len();
    let vars = all_vars(p);
    let mut push = |name: String, q: Program| out.push((name, q));
    // delete (targets beyond i shift down)
    {
        let mut q = p.clone();
        q.statements.remove(i);
        for s in q.statements.iter_mut() {
            if let Statement::Invocation(inv) = s {
                for b in inv.branches.iter_mut() {
                    if let GenBranchTarget::Statement(t) = &mut b.target {
                        if t.0 > i {
                            t.0 -= 1;
                        }
                    }
                }
            }
        }
        for f in q.funcs.iter_mut() {
            if f.entry_point.0 > i {
                f.entry_point.0 -= 1;
            }
        }
        push(format!("delete#{i}"), q);
    }
    // swap with next
    if i + 1 < n {
        let mut q = p.clone();
        q.statements.swap(i, i + 1);
        push(format!("swap#{i}"), q);
    }
    // duplicate
    {
        let mut q = p.clone();
        let s = q.statements[i].clone();
        q.statements.insert(i, s);
        for (j, s) in q.statements.iter_mut().enumerate() {
            if let Statement::Invocation(inv) = s {
                for b in inv.branches.iter_mut() {
                    if let GenBranchTarget::Statement(t) = &mut b.target {
                        if t.0 > i || (t.0 == i && j != i) {
                            t.0 += if t.0 > i { 1 } else { 0 };
                        }
                    }
                }
            }
        }
        for f in q.funcs.iter_mut() {
            if f.entry_point.0 > i {
                f.entry_point.0 += 1;
            }
        }
        push(format!("dup#{i}"), q);
    }
    match &p.statements[i] {
        Statement::Return(vs) => {
            if vs.len() >= 2 {
                let mut q = p.clone();
                if let Statement::Return(w) = &mut q.statements[i] {
                    w.swap(0, 1);
                }
                push(format!("retswap#{i}"), q);
            }
            if !vs.is_empty() && !vars.is_empty() {
                let mut q = p.clone();
                if let Statement::Return(w) = &mut q.statements[i] {
                    w[0] = VarId::new(*rng.pick(&vars));
                }
                push(format!("retvar#{i}"), q);
                let mut q = p.clone();
                if let Statement::Return(w) = &mut q.statements[i] {
                    w.pop();
                }
                push(format!("retdrop#{i}"), q);
            }
        }
        Statement::Invocation(inv) => {
            if inv.args.len() >= 2 {
                let mut q = p.clone();
                if let Statement::Invocation(x) = &mut q.statements[i] {
                    x.args.swap(0, 1);
                }
                push(format!("argswap#{i}"), q);
            }
            if !inv.args.is_empty() && !vars.is_empty() {
                let mut q = p.clone();
                let k = rng.below(inv.args.len() as u64) as usize;
                if let Statement::Invocation(x) = &mut q.statements[i] {
                    x.args[k] = VarId::new(*rng.pick(&vars));
                }
                push(format!("argvar#{i}"), q);
            }
            for (k, b) in inv.branches.iter().enumerate() {
                if !b.results.is_empty() && !vars.is_empty() {
                    let mut q = p.clone();
                    if let Statement::Invocation(x) = &mut q.statements[i] {
                        x.branches[k].results[0] = VarId::new(*rng.pick(&vars));
                    }
                    push(format!("resvar#{i}.{k}"), q);
                }
                if b.results.len() >= 2 {
                    let mut q = p.clone();
                    if let Statement::Invocation(x) = &mut q.statements[i] {
                        x.branches[k].results.swap(0, 1);
                    }
                    push(format!("resswap#{i}.{k}"), q);
                }
                // retarget: self, next+1, previous, a random statement, fallthrough<->explicit
                let cur = StatementIdx(i).next(b.target).0;
                let mut cands = vec![i, cur + 1, cur.saturating_sub(1), rng.below(n as u64) as usize, n];
                cands.dedup();
                for t in cands {
                    if t == cur {
                        continue;
                    }
                    let mut q = p.clone();
                    if let Statement::Invocation(x) = &mut q.statements[i] {
                        x.branches[k].target = BranchTarget::Statement(StatementIdx(t));
                    }
                    push(format!("retarget#{i}.{k}->{t}"), q);
                }
                if matches!(b.target, GenBranchTarget::Fallthrough) {
                    let mut q = p.clone();
                    if let Statement::Invocation(x) = &mut q.statements[i] {
                        x.branches[k].target = BranchTarget::Statement(StatementIdx(i + 1));
                    }
                    push(format!("explicit#{i}.{k}"), q);
                }
            }
            if inv.branches.len() >= 2 {
                let mut q = p.clone();
                if let Statement::Invocation(x) = &mut q.statements[i] {
                    x.branches.swap(0, 1);
                }
                push(format!("brswap#{i}"), q);
            }
            if p.libfunc_declarations.len() >= 2 {
                let mut q = p.clone();
                let other = rng.pick(&p.libfunc_declarations).id.clone();
                if let Statement::Invocation(x) = &mut q.statements[i] {
                    x.libfunc_id = other;
                }
                push(format!("libfunc#{i}"), q);
            }
        }
    }
    out
}

fn program_mutants(p: &Program, rng: &mut Rng) -> Vec<(String, Program)> {
    let mut out = vec![];
    // entry point moves, signature edits
    for (k, f) in p.funcs.iter().enumerate() {
        for d in [1usize, usize::MAX] {
            let mut q = p.clone();
            q.funcs[k].entry_point.0 = f.entry_point.0.wrapping_add(d);
            out.push((format!("entry#{k}"), q));
        }
        if f.params.len() >= 2 {
            let mut q = p.clone();
            q.funcs[k].params.swap(0, 1);
            q.funcs[k].signature.param_types.swap(0, 1);
            out.push((format!("paramswap#{k}"), q));
        }
        if f.signature.ret_types.len() >= 2 {
            let mut q = p.clone();
            q.funcs[k].signature.ret_types.swap(0, 1);
            out.push((format!("retswap_sig#{k}"), q));
        }
    }
    if p.type_declarations.len() >= 2 {
        let mut q = p.clone();
        let k = rng.below(p.type_declarations.len() as u64 - 1) as usize;
        q.type_declarations.swap(k, k + 1);
        out.push((format!("typeorder#{k}"), q));
    }
    out
}

fn main() {
    quiet_panics();
    let args: Vec<String> = std::env::args().collect();
    let corpus_dir = &args[1];
    let out_dir = &args[2];
    let thorough = args.get(3).map(|s| s == "thorough").unwrap_or(false);
    let mut rng = Rng::from_env();
    fs::create_dir_all(out_dir).unwrap();

    let mut files: Vec<_> = fs::read_dir(corpus_dir)
        .unwrap()
        .filter_map(|e| e.ok())
        .map(|e| e.path())
        .filter(|p| p.extension().map(|x| x == "sierra").unwrap_or(false))
        .collect();
    files.sort();

    let max_stmts_coq = if thorough { 4000 } else { 700 };
    let mutant_budget_per_program = if thorough { 400 } else { 40 };
    let max_stmts_mutate = if thorough { 400 } else { 120 };

    let mut stage_counts: HashMap<(bool, Stage), usize> = HashMap::new();
    let mut panics: Vec<String> = vec![];
    let mut accepted_terms: Vec<(String, usize, String)> = vec![]; // (name, n_stmts, term)
    let mut dump_errors: Vec<String> = vec![];
    let mut n_programs = 0;
    let mut n_mutants = 0;
    let mut n_accepted_mutants = 0;
    let mut seen: std::collections::HashSet<String> = Default::default();

    let mut handle = |name: String,
                      program: &Program,
                      is_mutant: bool,
                      linear: bool,
                      stage_counts: &mut HashMap<(bool, Stage), usize>,
                      accepted_terms: &mut Vec<(String, usize, String)>,
                      panics: &mut Vec<String>,
                      dump_errors: &mut Vec<String>|
     -> bool {
        let o = run_pipeline(program, linear);
        *stage_counts.entry((is_mutant, o.stage)).or_insert(0) += 1;
        if o.stage == Stage::Panic {
            panics.push(format!(
                "{{\"program\": {:?}, \"linear_solver\": {}, \"panic\": {:?}, \"sierra\": {:?}}}",
                name,
                linear,
                o.detail,
                if program.statements.len() <= 200 { catch(AssertUnwindSafe(|| program.to_string())).unwrap_or_else(|_| format!("{:?}", program.statements)) } else { String::from("(large)") }
            ));
        }
        let _ = &o.detail;
        if let Some((info, metadata, casm, gas)) = &o.accepted {
            if program.statements.len() <= max_stmts_coq {
                match dump(program, info, metadata, casm, *gas) {
                    Ok(t) => accepted_terms.push((name, program.statements.len(), t)),
                    Err(e) => dump_errors.push(format!("{name}: {e}")),
                }
            }
            true
        } else {
            false
        }
    };

    for path in &files {
        let text = fs::read_to_string(path).unwrap();
        let Ok(program) = ProgramParser::new().parse(&text) else { continue };
        let base = path.file_stem().unwrap().to_string_lossy().to_string();
        n_programs += 1;
        for linear in if thorough { vec![true, false] } else { vec![true] } {
            handle(
                format!("{base}[linear={linear}]"),
                &program,
                false,
                linear,
                &mut stage_counts,
                &mut accepted_terms,
                &mut panics,
                &mut dump_errors,
            );
        }
        if program.statements.len() > max_stmts_mutate {
            continue;
        }
        // single-point mutants (every statement is visited; the per-program budget samples them)
        let mut ms = program_mutants(&program, &mut rng);
        for i in 0..program.statements.len() {
            ms.extend(mutants_at(&program, i, &mut rng));
        }
        // seeded selection without replacement
        let mut picked = 0;
        while picked < mutant_budget_per_program && !ms.is_empty() {
            let k = rng.below(ms.len() as u64) as usize;
            let (mname, q) = ms.swap_remove(k);
            let key = format!("{:?}|{:?}|{:?}", q.statements, q.funcs, q.type_declarations);
            if !seen.insert(key) {
                continue;
            }
            picked += 1;
            n_mutants += 1;
            if handle(
                format!("{base}~{mname}"),
                &q,
                true,
                true,
                &mut stage_counts,
                &mut accepted_terms,
                &mut panics,
                &mut dump_errors,
            ) {
                n_accepted_mutants += 1;
            }
        }
    }

    // ---- write Coq shards: pack programs up to ~1500 statements per shard ----
    let mut shards = 0;
    let mut cur: Vec<&(String, usize, String)> = vec![];
    let mut cur_size = 0;
    let mut flush = |cur: &mut Vec<&(String, usize, String)>, shards: &mut usize| {
        if cur.is_empty() {
            return;
        }
        let mut s = String::new();
        writeln!(s, "From Coq Require Import ZArith List.\nImport ListNotations.\nFrom Sierra Require Import Annot Corr.").unwrap();
        writeln!(s, "Local Open Scope Z_scope.").unwrap();
        for (k, (name, _, term)) in cur.iter().enumerate() {
            writeln!(s, "(* {} *)", name.replace("*)", "* )")).unwrap();
            writeln!(s, "Definition prog_{} : program := {}.", k, term).unwrap();
        }
        writeln!(
            s,
            "Definition cases : list (Z * program) := [{}].",
            (0..cur.len()).map(|k| format!("({}, prog_{})", k, k)).collect::<Vec<_>>().join("; ")
        )
        .unwrap();
        writeln!(s, "Definition bad := Eval vm_compute in check_accept cases.").unwrap();
        writeln!(s, "Print bad.").unwrap();
        let names: Vec<String> = cur.iter().map(|(n, _, _)| n.clone()).collect();
        fs::write(format!("{}/acc_{:03}.v", out_dir, shards), s).unwrap();
        fs::write(format!("{}/acc_{:03}.names", out_dir, shards), names.join("\n")).unwrap();
        *shards += 1;
        cur.clear();
    };
    for t in &accepted_terms {
        if cur_size + t.1 > 1500 && !cur.is_empty() {
            flush(&mut cur, &mut shards);
            cur_size = 0;
        }
        cur_size += t.1;
        cur.push(t);
    }
    flush(&mut cur, &mut shards);

    let mut sc: Vec<String> = stage_counts
        .iter()
        .map(|((m, s), c)| format!("\"{}_{:?}\": {}", if *m { "mutant" } else { "corpus" }, s, c))
        .collect();
    sc.sort();
    let summary = format!(
        "{{\"corpus_programs\": {}, \"mutants\": {}, \"accepted_mutants\": {}, \"accepted_dumped\": {}, \"dump_errors\": {}, \"impl_panics\": {}, \"shards\": {}, \"stages\": {{{}}}}}",
        n_programs,
        n_mutants,
        n_accepted_mutants,
        accepted_terms.len(),
        dump_errors.len(),
        panics.len(),
        shards,
        sc.join(", ")
    );
    fs::write(format!("{}/summary.json", out_dir), &summary).unwrap();
    fs::write(format!("{}/panics.json", out_dir), format!("[{}]", panics.join(",\n"))).unwrap();
    fs::write(format!("{}/dump_errors.txt", out_dir), dump_errors.join("\n")).unwrap();
    let samples: Vec<String> = accepted_terms.iter().rev().take(3).map(|(n, k, _)| format!("{n} ({k} statements)")).collect();
    fs::write(format!("{}/samples.txt", out_dir), samples.join("\n")).unwrap();
    println!("{}", summary);
}
