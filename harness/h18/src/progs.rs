//! Sierra programs: renumbering of parsed programs (`canon`), dropping debug names (`strip`),
//! the random generator and the boundary programs.
use std::collections::HashMap;

use cairo_lang_sierra::ids::*;
use cairo_lang_sierra::program::*;
use num_bigint::{BigInt, BigUint};
use num_traits::One;
use vcommon::Rng;

// ---------------------------------------------------------------- id rewriting
pub trait IdMap {
    fn ty(&mut self, t: &ConcreteTypeId) -> ConcreteTypeId;
    fn lf(&mut self, t: &ConcreteLibfuncId) -> ConcreteLibfuncId;
    fn fu(&mut self, t: &FunctionId) -> FunctionId;
    fn va(&mut self, t: &VarId) -> VarId;
    fn ut(&mut self, t: &UserTypeId) -> UserTypeId;
}
fn map_args(a: &[GenericArg], m: &mut dyn IdMap) -> Vec<GenericArg> {
    a.iter()
        .map(|g| match g {
            GenericArg::UserType(u) => GenericArg::UserType(m.ut(u)),
            GenericArg::Type(t) => GenericArg::Type(m.ty(t)),
            GenericArg::Value(v) => GenericArg::Value(v.clone()),
            GenericArg::UserFunc(f) => GenericArg::UserFunc(m.fu(f)),
            GenericArg::Libfunc(l) => GenericArg::Libfunc(m.lf(l)),
        })
        .collect()
}
/// Rewrites every id of the program (declarations first, then statements, then functions).
pub fn map_program(p: &Program, m: &mut dyn IdMap) -> Program {
    let type_declarations = p
        .type_declarations
        .iter()
        .map(|d| TypeDeclaration {
            id: m.ty(&d.id),
            long_id: ConcreteTypeLongId {
                generic_id: d.long_id.generic_id.clone(),
                generic_args: map_args(&d.long_id.generic_args, m),
            },
            declared_type_info: d.declared_type_info.clone(),
        })
        .collect();
    let libfunc_declarations = p
        .libfunc_declarations
        .iter()
        .map(|d| LibfuncDeclaration {
            id: m.lf(&d.id),
            long_id: ConcreteLibfuncLongId {
                generic_id: d.long_id.generic_id.clone(),
                generic_args: map_args(&d.long_id.generic_args, m),
            },
        })
        .collect();
    let statements = p
        .statements
        .iter()
        .map(|s| match s {
            Statement::Invocation(i) => Statement::Invocation(Invocation {
                libfunc_id: m.lf(&i.libfunc_id),
                args: i.args.iter().map(|v| m.va(v)).collect(),
                branches: i
                    .branches
                    .iter()
                    .map(|b| BranchInfo { target: b.target, results: b.results.iter().map(|v| m.va(v)).collect() })
                    .collect(),
            }),
            Statement::Return(vs) => Statement::Return(vs.iter().map(|v| m.va(v)).collect()),
        })
        .collect();
    let funcs = p
        .funcs
        .iter()
        .map(|f| Function {
            id: m.fu(&f.id),
            signature: FunctionSignature {
                param_types: f.signature.param_types.iter().map(|t| m.ty(t)).collect(),
                ret_types: f.signature.ret_types.iter().map(|t| m.ty(t)).collect(),
            },
            params: f.params.iter().map(|q| Param { id: m.va(&q.id), ty: m.ty(&q.ty) }).collect(),
            entry_point: f.entry_point,
        })
        .collect();
    Program { type_declarations, libfunc_declarations, statements, funcs }
}

struct Strip;
impl IdMap for Strip {
    fn ty(&mut self, t: &ConcreteTypeId) -> ConcreteTypeId {
        ConcreteTypeId::new(t.id)
    }
    fn lf(&mut self, t: &ConcreteLibfuncId) -> ConcreteLibfuncId {
        ConcreteLibfuncId::new(t.id)
    }
    fn fu(&mut self, t: &FunctionId) -> FunctionId {
        FunctionId::new(t.id)
    }
    fn va(&mut self, t: &VarId) -> VarId {
        VarId::new(t.id)
    }
    fn ut(&mut self, t: &UserTypeId) -> UserTypeId {
        UserTypeId { id: t.id.clone(), debug_name: None }
    }
}
/// The program without any debug name.
pub fn strip(p: &Program) -> Program {
    map_program(p, &mut Strip)
}

#[derive(Default)]
struct Canon {
    ty: HashMap<u64, u64>,
    lf: HashMap<u64, u64>,
    fu: HashMap<u64, u64>,
    va: HashMap<u64, u64>,
}
fn renum(m: &mut HashMap<u64, u64>, k: u64) -> u64 {
    let n = m.len() as u64;
    *m.entry(k).or_insert(n)
}
impl IdMap for Canon {
    fn ty(&mut self, t: &ConcreteTypeId) -> ConcreteTypeId {
        ConcreteTypeId { id: renum(&mut self.ty, t.id), debug_name: t.debug_name.clone() }
    }
    fn lf(&mut self, t: &ConcreteLibfuncId) -> ConcreteLibfuncId {
        ConcreteLibfuncId { id: renum(&mut self.lf, t.id), debug_name: t.debug_name.clone() }
    }
    fn fu(&mut self, t: &FunctionId) -> FunctionId {
        FunctionId { id: renum(&mut self.fu, t.id), debug_name: t.debug_name.clone() }
    }
    fn va(&mut self, t: &VarId) -> VarId {
        VarId { id: renum(&mut self.va, t.id), debug_name: t.debug_name.clone() }
    }
    fn ut(&mut self, t: &UserTypeId) -> UserTypeId {
        t.clone()
    }
}
/// Renumbers a parsed program: type / libfunc / function ids 0.. in declaration order (ids that
/// are used but never declared follow, in order of first use), var ids 0.. in order of first
/// appearance (statements, then function parameters).  Debug names are kept.
pub fn canon(p: &Program) -> Program {
    let mut c = Canon::default();
    for d in &p.type_declarations {
        renum(&mut c.ty, d.id.id);
    }
    for d in &p.libfunc_declarations {
        renum(&mut c.lf, d.id.id);
    }
    for f in &p.funcs {
        renum(&mut c.fu, f.id.id);
    }
    map_program(p, &mut c)
}

// ---------------------------------------------------------------- statistics over a program
#[derive(Default)]
pub struct Stats {
    pub kinds: std::collections::BTreeMap<String, u64>,
    pub long_id_uses: u64,
    pub multi_branch: u64,
}
impl Stats {
    fn bump(&mut self, k: &str) {
        *self.kinds.entry(k.to_string()).or_insert(0) += 1;
    }
    pub fn add(&mut self, p: &Program, long_ids: &[String]) {
        let two128 = BigInt::one() << 128;
        let prime = BigInt::from(stark_prime());
        let args = |s: &mut Stats, a: &[GenericArg]| {
            for g in a {
                match g {
                    GenericArg::UserType(_) => s.bump("user_type"),
                    GenericArg::Type(_) => s.bump("type"),
                    GenericArg::UserFunc(_) => s.bump("user_func"),
                    GenericArg::Libfunc(_) => s.bump("libfunc"),
                    GenericArg::Value(v) => {
                        s.bump("value");
                        if v.sign() == num_bigint::Sign::Minus {
                            s.bump("negative_value");
                        }
                        let m = BigInt::from(v.magnitude().clone());
                        if m >= two128 {
                            s.bump("value_ge_2_128");
                        }
                        if m >= prime {
                            s.bump("value_ge_P");
                        }
                    }
                }
            }
        };
        for d in &p.type_declarations {
            args(self, &d.long_id.generic_args);
            if long_ids.iter().any(|l| l == d.long_id.generic_id.0.as_str()) {
                self.long_id_uses += 1;
            }
        }
        for d in &p.libfunc_declarations {
            args(self, &d.long_id.generic_args);
            if long_ids.iter().any(|l| l == d.long_id.generic_id.0.as_str()) {
                self.long_id_uses += 1;
            }
        }
        for s in &p.statements {
            if let Statement::Invocation(i) = s {
                if i.branches.len() >= 2 {
                    self.multi_branch += 1;
                }
            }
        }
    }
}

pub fn stark_prime() -> BigUint {
    (BigUint::one() << 251) + BigUint::from(17u32) * (BigUint::one() << 192) + BigUint::one()
}
pub fn rand_bits(rng: &mut Rng, bits: u32) -> BigUint {
    rng.bits(bits).to_biguint().unwrap()
}

// ---------------------------------------------------------------- generator
pub struct Pools {
    /// generic type ids of the core library (observed: `CoreType::by_id` accepts them)
    pub type_ids: Vec<String>,
    /// `CoreLibfunc::supported_ids()`
    pub libfunc_ids: Vec<String>,
    /// the > 31 byte ids the serializer accepts
    pub long_ids: Vec<String>,
}
#[derive(Clone, Copy)]
pub struct Opts {
    /// Restrict the program to the domain of the text round-trip leg (`text_leg_domain` in
    /// summary.json), i.e. to what `impl Display for Program` / `ProgramParser` are meant to
    /// handle:
    /// * no debug names (a debug name is printed verbatim and need not be a token sequence of the
    ///   grammar; the corpus covers the names the compiler produces);
    /// * generic ids are core ids that are `PathLabel`s of the grammar and none of its keywords
    ///   (the grammar cannot express other strings);
    /// * branch targets and entry points are < number of statements: the printer names
    ///   statements by label (`labels[&idx]` panics for a branch target outside the program, an
    ///   out-of-range entry point prints a label that is defined nowhere);
    /// * no function when there is no statement (same reason).
    pub text_ok: bool,
    pub medium: bool,
}

const DEBUG_NAMES: [&str; 10] =
    ["x", "felt252", "Array<felt252>", "core::foo::<u8>", "\u{e9}", "", "v0", "a b", "Tuple<(), u8>", "\u{65e5}\u{672c}"];

fn dbg<T: for<'a> From<&'a str>>(rng: &mut Rng, o: Opts) -> Option<T> {
    if o.text_ok || rng.below(4) != 0 { None } else { Some(T::from(*rng.pick(&DEBUG_NAMES))) }
}
/// Is `s` a `PathLabel` of the Sierra grammar that is not one of its keywords?
pub fn is_path_label(s: &str) -> bool {
    const KW: [&str; 6] = ["type", "libfunc", "return", "fallthrough", "true", "false"];
    !s.is_empty()
        && s.split("::").all(|part| {
            let mut cs = part.chars();
            match cs.next() {
                Some(c) if c.is_ascii_alphabetic() || c == '_' => {}
                _ => return false,
            }
            cs.all(|c| c.is_ascii_alphanumeric() || c == '_') && !KW.contains(&part)
        })
}
fn rand_ascii(rng: &mut Rng, len: usize) -> String {
    let mut s = String::new();
    for _ in 0..len {
        let c = if rng.below(20) == 0 { 1 + rng.below(0x7f) as u8 } else { 0x20 + rng.below(0x5f) as u8 };
        s.push(c as char);
    }
    s
}
fn rand_multibyte(rng: &mut Rng, max_bytes: usize) -> String {
    const CS: [char; 9] = ['\u{e9}', '\u{65e5}', '\u{672c}', '\u{f1}', '\u{1d518}', '\u{df}', 'a', '_', '\u{7ff}'];
    let target = 1 + rng.below(max_bytes as u64) as usize;
    let mut s = String::new();
    loop {
        let c = *rng.pick(&CS);
        if s.len() + c.len_utf8() > target {
            break;
        }
        s.push(c);
    }
    if s.is_empty() {
        s.push('\u{e9}');
    }
    s
}
pub fn gen_generic_id(rng: &mut Rng, pools: &Pools, o: Opts, is_type: bool) -> String {
    let core = if is_type { &pools.type_ids } else { &pools.libfunc_ids };
    if o.text_ok {
        loop {
            let s = rng.pick(core);
            if is_path_label(s) {
                return s.clone();
            }
        }
    }
    match rng.below(12) {
        0..=3 => rng.pick(core).clone(),
        4 => rng.pick(if is_type { &pools.libfunc_ids } else { &pools.type_ids }).clone(),
        5 | 6 => {
            let len = 1 + rng.below(31) as usize;
            rand_ascii(rng, len)
        }
        7 => rand_multibyte(rng, 31),
        8 | 9 if !pools.long_ids.is_empty() => rng.pick(&pools.long_ids).clone(),
        10 => rand_ascii(rng, 31),
        _ => {
            let len = 1 + rng.below(8) as usize;
            (0..len).map(|_| (b'a' + rng.below(26) as u8) as char).collect()
        }
    }
}
pub fn gen_u64(rng: &mut Rng, near: u64) -> u64 {
    match rng.below(20) {
        0..=11 => rng.below(near.max(1)),
        12..=14 => rng.below(12),
        15 => rng.below(1000),
        16 => rng.next(),
        17 => *rng.pick(&[u64::MAX, u64::MAX - 1, 1 << 63, 1 << 32, (1 << 32) - 1]),
        _ => rng.below(near.max(1) + 3),
    }
}
pub fn gen_value(rng: &mut Rng) -> BigInt {
    let p = BigInt::from(stark_prime());
    let one = BigInt::one();
    let two128: BigInt = BigInt::one() << 128;
    let m: BigInt = match rng.below(16) {
        0 => BigInt::from(0),
        1..=4 => BigInt::from(rng.below(100)),
        5 => &two128 + &one,
        6 => &two128 - &one,
        7 => two128.clone(),
        8 => &p - &one,
        9 => &p - BigInt::from(2),
        10 => p.clone(),
        11 => &p + BigInt::from(rng.below(3)),
        12 => BigInt::from(rand_bits(rng, 252)),
        13 => {
            let nb = 64 + rng.below(190) as u32;
            BigInt::from(rand_bits(rng, nb))
        }
        14 => BigInt::from(rng.next()),
        _ => (BigInt::one() << 255) + BigInt::from(rng.below(5)),
    };
    if rng.below(3) == 0 { -m } else { m }
}
pub fn gen_user_type(rng: &mut Rng) -> BigUint {
    match rng.below(10) {
        0 => BigUint::from(0u32),
        1 | 2 => BigUint::from(rng.below(50)),
        3..=6 => rand_bits(rng, 250),
        7 => (BigUint::one() << 251) + rand_bits(rng, 64),
        8 => stark_prime() + BigUint::from(rng.below(3)),
        _ => (BigUint::one() << 256) + rand_bits(rng, 100),
    }
}
fn gen_arg(rng: &mut Rng, o: Opts, nt: u64, nl: u64, nf: u64) -> GenericArg {
    match rng.below(9) {
        0 | 1 => GenericArg::UserType(UserTypeId { id: gen_user_type(rng), debug_name: dbg(rng, o) }),
        2 | 3 => GenericArg::Type(ConcreteTypeId { id: gen_u64(rng, nt), debug_name: dbg(rng, o) }),
        4..=6 => GenericArg::Value(gen_value(rng)),
        7 => GenericArg::UserFunc(FunctionId { id: gen_u64(rng, nf), debug_name: dbg(rng, o) }),
        _ => GenericArg::Libfunc(ConcreteLibfuncId { id: gen_u64(rng, nl), debug_name: dbg(rng, o) }),
    }
}
fn gen_args(rng: &mut Rng, o: Opts, nt: u64, nl: u64, nf: u64) -> Vec<GenericArg> {
    let n = match rng.below(10) {
        0..=2 => 0,
        3..=5 => 1,
        6 | 7 => 2,
        8 => 3,
        _ => 4 + rng.below(4),
    };
    (0..n).map(|_| gen_arg(rng, o, nt, nl, nf)).collect()
}
fn gen_var(rng: &mut Rng, o: Opts) -> VarId {
    VarId { id: gen_u64(rng, 20), debug_name: dbg(rng, o) }
}
fn gen_vars(rng: &mut Rng, o: Opts, max: u64) -> Vec<VarId> {
    (0..rng.below(max + 1)).map(|_| gen_var(rng, o)).collect()
}
/// A random program that the felt252 format can represent (see `ser_ok` in Serde.v): sequential
/// declaration ids, parameter types equal to the signature, generic ids that survive.
/// `min` forces at least that many declarations of each kind / statements.
pub fn gen_program_min(rng: &mut Rng, pools: &Pools, o: Opts, min: u64) -> Program {
    let (nt, nl, ns, nf) = if o.medium {
        (15 + rng.below(30), 15 + rng.below(30), 100 + rng.below(150), 3 + rng.below(8))
    } else {
        (min + rng.below(7 - min.min(6)), min + rng.below(7 - min.min(6)), min + rng.below(13 - min.min(12)), min + rng.below(4 - min.min(3)))
    };
    // the textual form needs a statement to attach a function label to
    let nf = if o.text_ok && ns == 0 { 0 } else { nf };
    let type_declarations = (0..nt)
        .map(|i| TypeDeclaration {
            id: ConcreteTypeId { id: i, debug_name: dbg(rng, o) },
            long_id: ConcreteTypeLongId {
                generic_id: GenericTypeId::from_string(gen_generic_id(rng, pools, o, true)),
                generic_args: gen_args(rng, o, nt, nl, nf),
            },
            declared_type_info: if rng.below(3) == 0 {
                None
            } else {
                let bits = rng.below(16);
                Some(DeclaredTypeInfo {
                    storable: bits & 1 != 0,
                    droppable: bits & 2 != 0,
                    duplicatable: bits & 4 != 0,
                    zero_sized: bits & 8 != 0,
                })
            },
        })
        .collect();
    let libfunc_declarations = (0..nl)
        .map(|i| LibfuncDeclaration {
            id: ConcreteLibfuncId { id: i, debug_name: dbg(rng, o) },
            long_id: ConcreteLibfuncLongId {
                generic_id: GenericLibfuncId::from_string(gen_generic_id(rng, pools, o, false)),
                generic_args: gen_args(rng, o, nt, nl, nf),
            },
        })
        .collect();
    let gen_target = |rng: &mut Rng| -> BranchTarget {
        if rng.bool() {
            return BranchTarget::Fallthrough;
        }
        let idx = if o.text_ok {
            rng.below(ns) as usize
        } else {
            match rng.below(8) {
                0 => 0,
                1..=4 => rng.below(ns.max(1)) as usize,
                5 => rng.next() as usize,
                6 => usize::MAX - 1,
                _ => rng.below(ns + 5) as usize,
            }
        };
        // usize::MAX is how Fallthrough is written: not representable as a target
        BranchTarget::Statement(StatementIdx(if idx == usize::MAX { usize::MAX - 1 } else { idx }))
    };
    let statements = (0..ns)
        .map(|_| {
            if rng.below(5) == 0 {
                Statement::Return(gen_vars(rng, o, 3))
            } else {
                let nb = match rng.below(10) {
                    0 => 0,
                    1..=5 => 1,
                    6 | 7 => 2,
                    8 => 3,
                    _ => 4,
                };
                Statement::Invocation(Invocation {
                    libfunc_id: ConcreteLibfuncId { id: gen_u64(rng, nl), debug_name: dbg(rng, o) },
                    args: gen_vars(rng, o, 5),
                    branches: (0..nb).map(|_| BranchInfo { target: gen_target(rng), results: gen_vars(rng, o, 3) }).collect(),
                })
            }
        })
        .collect();
    let funcs = (0..nf)
        .map(|i| {
            let params: Vec<Param> = (0..rng.below(5))
                .map(|_| Param { id: gen_var(rng, o), ty: ConcreteTypeId { id: gen_u64(rng, nt), debug_name: dbg(rng, o) } })
                .collect();
            let ret_types = (0..rng.below(4)).map(|_| ConcreteTypeId { id: gen_u64(rng, nt), debug_name: dbg(rng, o) }).collect();
            // the signature's copy of a parameter type may carry another debug name
            let param_types = params
                .iter()
                .map(|q| ConcreteTypeId { id: q.ty.id, debug_name: if rng.bool() { q.ty.debug_name.clone() } else { dbg(rng, o) } })
                .collect();
            let entry = if o.text_ok {
                rng.below(ns) as usize
            } else {
                match rng.below(8) {
                    0 => 0,
                    1..=5 => rng.below(ns.max(1)) as usize,
                    6 => rng.next() as usize,
                    _ => usize::MAX - 1,
                }
            };
            Function {
                id: FunctionId { id: i, debug_name: dbg(rng, o) },
                signature: FunctionSignature { param_types, ret_types },
                params,
                entry_point: StatementIdx(if entry == usize::MAX { usize::MAX - 1 } else { entry }),
            }
        })
        .collect();
    Program { type_declarations, libfunc_declarations, statements, funcs }
}
pub fn gen_program(rng: &mut Rng, pools: &Pools, o: Opts) -> Program {
    gen_program_min(rng, pools, o, 0)
}

// ---------------------------------------------------------------- boundary programs
/// Programs at the edge of what the serializer accepts or preserves.  They are not part of the
/// impl-level round-trip oracle; they go to the `ser` leg (and, when accepted, to the `de` leg).
pub fn boundary_programs(rng: &mut Rng, pools: &Pools, rounds: usize) -> Vec<(String, Program)> {
    let o = Opts { text_ok: false, medium: false };
    let mut out: Vec<(String, Program)> = vec![];
    for _ in 0..rounds {
        // a base with >= 2 declarations of each kind, >= 2 statements
        let mut base = gen_program_min(rng, pools, o, 2);
        // make sure there is an invocation with a branch and a function with a parameter
        base.statements[0] = Statement::Invocation(Invocation {
            libfunc_id: ConcreteLibfuncId::new(0),
            args: vec![VarId::new(0)],
            branches: vec![
                BranchInfo { target: BranchTarget::Fallthrough, results: vec![VarId::new(1)] },
                BranchInfo { target: BranchTarget::Statement(StatementIdx(1)), results: vec![] },
            ],
        });
        base.funcs[0].params = vec![Param { id: VarId::new(0), ty: ConcreteTypeId::new(1) }, Param { id: VarId::new(1), ty: ConcreteTypeId::new(0) }];
        base.funcs[0].signature.param_types = vec![ConcreteTypeId::new(1), ConcreteTypeId::new(0)];
        let mut push = |name: &str, p: Program| out.push((name.to_string(), p));

        // declaration ids: swapped / gap / starting at 1 / duplicated / huge
        for kind in 0..3 {
            for how in 0..5 {
                let mut p = base.clone();
                let set = |p: &mut Program, k: usize, v: u64| match kind {
                    0 => p.type_declarations[k].id.id = v,
                    1 => p.libfunc_declarations[k].id.id = v,
                    _ => p.funcs[k].id.id = v,
                };
                let n = match kind {
                    0 => p.type_declarations.len(),
                    1 => p.libfunc_declarations.len(),
                    _ => p.funcs.len(),
                };
                match how {
                    0 => {
                        set(&mut p, 0, 1);
                        set(&mut p, 1, 0);
                    }
                    1 => set(&mut p, n - 1, n as u64),
                    2 => {
                        for k in 0..n {
                            set(&mut p, k, k as u64 + 1);
                        }
                    }
                    3 => set(&mut p, 1, 0),
                    _ => set(&mut p, n - 1, (1u64 << 32) + (n as u64 - 1)),
                }
                push(&format!("decl-ids kind={} how={}", kind, how), p);
            }
        }
        // params: length mismatch (shorter, longer, empty), type mismatch
        let mut p = base.clone();
        p.funcs[0].params.pop();
        push("params shorter", p);
        let mut p = base.clone();
        p.funcs[0].params.push(Param { id: VarId::new(7), ty: ConcreteTypeId::new(0) });
        push("params longer", p);
        let mut p = base.clone();
        p.funcs[0].params.clear();
        push("params empty", p);
        let mut p = base.clone();
        p.funcs[0].signature.param_types.clear();
        push("param_types empty", p);
        let mut p = base.clone();
        p.funcs[0].params[1].ty = ConcreteTypeId::new(5);
        push("param ty mismatch (last)", p);
        let mut p = base.clone();
        p.funcs[0].params[0].ty = ConcreteTypeId::new(0);
        push("param ty mismatch (first)", p);
        let mut p = base.clone();
        p.funcs[0].params.swap(0, 1);
        push("params swapped", p);
        // generic ids
        let e16: String = "\u{e9}".repeat(16); // 16 chars, 32 bytes
        let e15a: String = format!("{}a", "\u{e9}".repeat(15)); // 16 chars, 31 bytes
        let ids: Vec<(String, String)> = vec![
            ("32 bytes".into(), rand_ascii(rng, 32)),
            ("33 bytes".into(), rand_ascii(rng, 33)),
            ("40 bytes".into(), rand_ascii(rng, 40)),
            ("31 bytes".into(), rand_ascii(rng, 31)),
            ("30 bytes".into(), rand_ascii(rng, 30)),
            ("empty".into(), String::new()),
            ("NUL ab".into(), "\0ab".into()),
            ("NUL".into(), "\0".into()),
            ("NUL NUL a".into(), "\0\0a".into()),
            ("a NUL".into(), "a\0".into()),
            ("16 chars 32 bytes".into(), e16),
            ("16 chars 31 bytes".into(), e15a),
            ("long id + suffix".into(), format!("{}x", pools.long_ids.first().cloned().unwrap_or_else(|| "y".repeat(32)))),
            ("long id - last char".into(), {
                let mut s = pools.long_ids.first().cloned().unwrap_or_else(|| "y".repeat(33));
                s.pop();
                s
            }),
            ("long id upper".into(), pools.long_ids.last().cloned().unwrap_or_else(|| "y".repeat(33)).to_uppercase()),
        ];
        for (name, s) in &ids {
            let mut p = base.clone();
            p.type_declarations[1].long_id.generic_id = GenericTypeId::from_string(s.clone());
            push(&format!("type generic id {}", name), p);
            let mut p = base.clone();
            let k = p.libfunc_declarations.len() - 1;
            p.libfunc_declarations[k].long_id.generic_id = GenericLibfuncId::from_string(s.clone());
            push(&format!("libfunc generic id {}", name), p);
        }
        // targets / entry points
        let mut p = base.clone();
        if let Statement::Invocation(i) = &mut p.statements[0] {
            i.branches[1].target = BranchTarget::Statement(StatementIdx(usize::MAX));
        }
        push("target usize::MAX", p);
        let mut p = base.clone();
        p.funcs[1].entry_point = StatementIdx(usize::MAX);
        push("entry usize::MAX", p);
    }
    out
}

// ---------------------------------------------------------------- programs with debug names
struct StripUv;
impl IdMap for StripUv {
    fn ty(&mut self, t: &ConcreteTypeId) -> ConcreteTypeId {
        t.clone()
    }
    fn lf(&mut self, t: &ConcreteLibfuncId) -> ConcreteLibfuncId {
        t.clone()
    }
    fn fu(&mut self, t: &FunctionId) -> FunctionId {
        t.clone()
    }
    fn va(&mut self, t: &VarId) -> VarId {
        VarId::new(t.id)
    }
    fn ut(&mut self, t: &UserTypeId) -> UserTypeId {
        UserTypeId { id: t.id.clone(), debug_name: None }
    }
}
/// The program without the debug names that `DebugInfo` has no place for (variables, user types).
pub fn strip_uv(p: &Program) -> Program {
    map_program(p, &mut StripUv)
}

/// Debug names that are token sequences of the Sierra grammar in the spacing `Display` produces
/// (so that print . parse is the identity on them), unique per index `k`.
pub fn text_type_name(kind: u64, k: u64) -> String {
    match kind % 11 {
        0 => format!("T{k}"),
        1 => format!("core::m{k}::T"),
        2 => format!("Array<T{k}>"),
        3 => format!("core::option::Option::<core::integer::u{k}>"),
        4 => format!("Tuple<u8, T{k}, -5, 340282366920938463463374607431768211457>"),
        5 => format!("Coupon<user@ns::f{k}::<core::integer::u8, core::integer::u8Drop>>"),
        6 => format!("(T{k}, u8)"),
        7 => format!("@T{k}"),
        8 => format!("[T{k}; 3]"),
        9 => format!("G{k}<ut@ns::S, lib@store_temp<u8>, user@f{k}>"),
        _ => format!("L{k}_{}", "a".repeat(300)),
    }
}
pub fn text_libfunc_name(kind: u64, k: u64) -> String {
    match kind % 8 {
        0 => format!("lf{k}"),
        1 => format!("store_temp<T{k}>"),
        2 => format!("function_call<user@ns::f{k}>"),
        3 => format!("coupon_call<user@ns::f{k}::<core::integer::u8, core::integer::u8Drop>>"),
        4 => format!("core::x{k}"),
        5 => format!("enum_init<core::option::Option::<T{k}>, 1>"),
        6 => format!("coupon_buy<Coupon<user@f{k}>>"),
        _ => format!("l{k}_{}", "b".repeat(200)),
    }
}
pub fn text_func_name(kind: u64, k: u64) -> String {
    // the bracketed parts are re-joined by the parser without spaces, so only space-free bodies are
    // fix-points of print . parse; the compiler's own spellings (with spaces) are covered by the
    // freshly compiled corpus, where the comparison is made after one parse
    match kind % 14 {
        0 => format!("f{k}"),
        1 => format!("ns::f{k}"),
        2 => format!("ns::f{k}::<core::integer::u8, core::integer::u8Drop>"),
        3 => format!("ns::f{k}[expr12]"),
        4 => format!("ns::f{k}{{closure.0}}"),
        5 => format!("ns::f{k}[expr3]{{closure.1}}"),
        // specialization on constants: enum variants / paths, method calls, struct literals, arrays,
        // snapshots, negative numbers, nested brackets
        6 => format!("ns::bar{k}{{bool::False({{}}),2.into_box(),}}"),
        7 => format!("ns::g{k}::<core::felt252, core::felt252Drop>[141-345]{{0,@array![1,2,3,4],@{k},}}"),
        8 => format!("ns::h{k}{{NotSpecialized,core::option::Option::<core::integer::u8>::Some(5),S{{a:1,b:-2}},}}"),
        9 => format!("ns::i{k}::<T>{{E::V({{}}),2.into_box(),S{{a:1}},}}"),
        10 => format!("ns::j{k}[0-{k}]{{{{{{x::y::<z>}}}},[a,[b,c]],(d,e),}}"),
        11 => format!("ns::k{k}{{closure@/src/lib.cairo:3:29:3:31}}"),
        12 => format!("ns::l{k}{{a\\b/c.d-e@f:g::h<i>j!}}"),
        _ => format!("m{k}::{}", "c".repeat(150)),
    }
}
/// Arbitrary strings (not necessarily printable back): only for the legs that do not parse text.
const ANY_NAMES: [&str; 14] =
    ["123", "", "a b", "x::<y,z>@w", "\u{e9}\u{65e5}\u{672c}", ",", "<", "@", "0", "[1]", "user@[1]", "a::b", "T", "ut@x"];

pub struct NameTables {
    pub ty: Vec<Option<String>>,
    pub lf: Vec<Option<String>>,
    pub fu: Vec<Option<String>>,
}
struct Namer<'a> {
    t: &'a NameTables,
}
impl IdMap for Namer<'_> {
    // every reference is folded into the declared range (a closed program); undeclared stay bare
    fn ty(&mut self, x: &ConcreteTypeId) -> ConcreteTypeId {
        let n = self.t.ty.len() as u64;
        if n == 0 {
            return ConcreteTypeId::new(x.id);
        }
        let id = x.id % n;
        ConcreteTypeId { id, debug_name: self.t.ty[id as usize].as_deref().map(Into::into) }
    }
    fn lf(&mut self, x: &ConcreteLibfuncId) -> ConcreteLibfuncId {
        let n = self.t.lf.len() as u64;
        if n == 0 {
            return ConcreteLibfuncId::new(x.id);
        }
        let id = x.id % n;
        ConcreteLibfuncId { id, debug_name: self.t.lf[id as usize].as_deref().map(Into::into) }
    }
    fn fu(&mut self, x: &FunctionId) -> FunctionId {
        let n = self.t.fu.len() as u64;
        if n == 0 {
            return FunctionId::new(x.id);
        }
        let id = x.id % n;
        FunctionId { id, debug_name: self.t.fu[id as usize].as_deref().map(Into::into) }
    }
    fn va(&mut self, x: &VarId) -> VarId {
        VarId::new(x.id)
    }
    fn ut(&mut self, x: &UserTypeId) -> UserTypeId {
        UserTypeId { id: x.id.clone(), debug_name: None }
    }
}

/// A closed program (every referenced type / libfunc / function id is declared) in the text
/// domain, whose ids carry debug names consistently: an id has the same name (or none) at its
/// declaration and at every use - the invariant of compiler output, and what `DebugInfo` can
/// store.  The first type and libfunc declarations carry every `GenericArg` kind.
/// `text_names`: names are printable-and-parsable and unique; otherwise arbitrary strings too.
pub fn gen_named_program(rng: &mut Rng, pools: &Pools, text_names: bool) -> Program {
    let o = Opts { text_ok: true, medium: false };
    let mut p = gen_program_min(rng, pools, o, 2);
    let all_kinds = |rng: &mut Rng| -> Vec<GenericArg> {
        let mut v = vec![
            GenericArg::UserType(UserTypeId { id: rand_bits(rng, 250), debug_name: None }),
            GenericArg::Type(ConcreteTypeId::new(rng.next())),
            GenericArg::Value(-BigInt::from(rng.below(1000) + 1)),
            GenericArg::Value((BigInt::one() << 128) + BigInt::from(rng.below(1000))),
            GenericArg::UserFunc(FunctionId::new(rng.next())),
            GenericArg::Libfunc(ConcreteLibfuncId::new(rng.next())),
            GenericArg::UserFunc(FunctionId::new(rng.next())),
        ];
        // any order
        for i in (1..v.len()).rev() {
            v.swap(i, rng.below(i as u64 + 1) as usize);
        }
        v
    };
    p.type_declarations[0].long_id.generic_args = all_kinds(rng);
    p.libfunc_declarations[0].long_id.generic_args = all_kinds(rng);
    // a coupon-like type and the libfuncs that name a user function
    p.type_declarations[1].long_id =
        ConcreteTypeLongId { generic_id: "Coupon".into(), generic_args: vec![GenericArg::UserFunc(FunctionId::new(rng.next()))] };
    p.libfunc_declarations[1].long_id = ConcreteLibfuncLongId {
        generic_id: (*rng.pick(&["function_call", "coupon_call"])).into(),
        generic_args: vec![GenericArg::UserFunc(FunctionId::new(rng.next()))],
    };
    let mut names = |rng: &mut Rng, n: usize, f: &dyn Fn(u64, u64) -> String| -> Vec<Option<String>> {
        // all named / none named / a mix
        let mode = rng.below(4);
        (0..n as u64)
            .map(|k| {
                let named = match mode {
                    0 => true,
                    1 => false,
                    _ => rng.below(3) != 0,
                };
                if !named {
                    None
                } else if text_names || rng.below(3) != 0 {
                    Some(f(rng.below(64), k))
                } else {
                    Some((*rng.pick(&ANY_NAMES)).to_string())
                }
            })
            .collect()
    };
    let t = NameTables {
        ty: names(rng, p.type_declarations.len(), &text_type_name),
        lf: names(rng, p.libfunc_declarations.len(), &text_libfunc_name),
        fu: names(rng, p.funcs.len(), &text_func_name),
    };
    let mut q = map_program(&p, &mut Namer { t: &t });
    if text_names {
        // user types by name: the id is the hash of the name, as the parser will compute it
        let mut k = 0;
        for d in q.type_declarations.iter_mut() {
            for a in d.long_id.generic_args.iter_mut() {
                if let GenericArg::UserType(u) = a {
                    k += 1;
                    if k % 2 == 0 {
                        *u = UserTypeId::from_string(format!("ns::S{k}::<core::felt252>"));
                    }
                }
            }
        }
    }
    q
}
