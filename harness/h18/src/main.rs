//! C18 correspondence harness: runs cairo-lang-starknet-classes' felt252 codec
//! (`sierra_to_felt252s`, `sierra_from_felt252s`, `compress`, `decompress`) on corpus, generated,
//! boundary and mutated inputs and prints the inputs with the implementation's answers as Coq
//! terms for `C18/Corr.v`; and runs the impl-level oracle "Sierra programs survive every
//! serialization unchanged" (felt252, contract class, text, JSON).
//!
//! usage: h18 <out_dir> <tier>      (VERIF_SEED from the environment)
#![recursion_limit = "256"]
mod pr;
mod progs;
mod vecs;

use std::collections::{BTreeMap, HashSet};
use std::panic::AssertUnwindSafe;
use std::path::{Path, PathBuf};

use cairo_lang_sierra::ProgramParser;
use cairo_lang_sierra::extensions::core::{CoreLibfunc, CoreType};
use cairo_lang_sierra::extensions::{GenericLibfunc, GenericType};
use cairo_lang_sierra::ids::*;
use cairo_lang_sierra::program::*;
use cairo_lang_starknet_classes::compiler_version::VersionId;
use cairo_lang_starknet_classes::contract_class::ContractClass;
use cairo_lang_starknet_classes::keccak::starknet_keccak;
use cairo_lang_starknet_classes::verif_exports::{compress, decompress, sierra_from_felt252s, sierra_to_felt252s};
use cairo_lang_utils::bigint::BigUintAsHex;
use num_bigint::BigUint;
use num_traits::{One, Zero};
use serde_json::{Value, json};
use vcommon::{Rng, catch, last_panic_location, quiet_panics};

use progs::{Opts, Pools, rand_bits, stark_prime};

type Felts = Vec<BigUintAsHex>;

// ------------------------------------------------------------------ implementation entry points
fn panic_msg(m: String) -> String {
    format!("panic: {} at {}", m, last_panic_location())
}
fn i_ser(sv: VersionId, cv: VersionId, p: &Program) -> Result<Result<Felts, String>, String> {
    catch(AssertUnwindSafe(|| sierra_to_felt252s(sv, cv, p).map_err(|e| format!("{:?}", e)))).map_err(panic_msg)
}
fn i_de(f: &[BigUintAsHex]) -> Result<Option<(VersionId, VersionId, Program)>, String> {
    catch(AssertUnwindSafe(|| sierra_from_felt252s(f).ok())).map_err(panic_msg)
}
fn i_compress(v: &[BigUintAsHex]) -> Result<Felts, String> {
    catch(AssertUnwindSafe(|| {
        let mut out = vec![];
        compress(v, &mut out);
        out
    }))
    .map_err(panic_msg)
}
fn i_decompress(v: &[BigUintAsHex]) -> Result<Option<Vec<BigUint>>, String> {
    catch(AssertUnwindSafe(|| decompress(v).map(|r| r.into_iter().cloned().collect::<Vec<BigUint>>()))).map_err(panic_msg)
}
/// Records the input the implementation is about to be run on; an abort (allocation failure, stack
/// overflow) cannot be caught in-process, the driver then reports this file.
fn inflight(dir: &str, leg: &str, v: &[BigUint]) {
    let _ = std::fs::write(format!("{}/inflight.json", dir), json!({"leg": leg, "felts": hexes(v)}).to_string());
}
fn wrap(v: &[BigUint]) -> Felts {
    v.iter().map(|x| BigUintAsHex { value: x.clone() }).collect()
}
fn unwrap_f(v: &[BigUintAsHex]) -> Vec<BigUint> {
    v.iter().map(|x| x.value.clone()).collect()
}
fn hexes(v: &[BigUint]) -> Value {
    Value::Array(v.iter().map(|x| Value::String(format!("0x{:x}", x))).collect())
}
fn big(n: u64) -> BigUint {
    BigUint::from(n)
}

// ------------------------------------------------------------------ oracle bookkeeping
#[derive(Default)]
struct Oracle {
    failures: Vec<Value>,
    checks: BTreeMap<String, u64>,
}
impl Oracle {
    fn check(&mut self, leg: &str) {
        *self.checks.entry(leg.to_string()).or_insert(0) += 1;
    }
    fn fail(&mut self, leg: &str, why: String, input: Value) {
        // keep the file bounded if something is badly broken
        if self.failures.len() < 400 {
            self.failures.push(json!({"leg": leg, "why": why, "input": input}));
        } else {
            self.failures.push(json!({"leg": leg, "why": why}));
        }
    }
}

fn rand_version(rng: &mut Rng) -> VersionId {
    let c = |rng: &mut Rng| -> usize {
        match rng.below(40) {
            0 => usize::MAX,
            1 => rng.next() as usize,
            2 => 1 << 32,
            _ => rng.below(12) as usize,
        }
    };
    VersionId { major: c(rng), minor: c(rng), patch: c(rng) }
}

/// felt252 round trip + contract-class extraction (legs "felt-roundtrip", "class-extract").
/// Returns the serialization when the implementation produced one.
fn oracle_felt(or: &mut Oracle, rng: &mut Rng, p: &Program, input: &Value, class_always: bool) -> Option<Felts> {
    let sv = rand_version(rng);
    let cv = rand_version(rng);
    or.check("felt-roundtrip");
    let inp = |extra: Value| json!({"program": input, "sierra_version": format!("{:?}", sv), "compiler_version": format!("{:?}", cv), "detail": extra});
    let felts = match i_ser(sv, cv, p) {
        Err(pm) => {
            or.fail("felt-roundtrip", format!("sierra_to_felt252s: {}", pm), inp(Value::Null));
            return None;
        }
        Ok(Err(e)) => {
            or.fail("felt-roundtrip", format!("sierra_to_felt252s refused a representable program: {}", e), inp(Value::Null));
            return None;
        }
        Ok(Ok(f)) => f,
    };
    match i_de(&felts) {
        Err(pm) => or.fail("felt-roundtrip", format!("sierra_from_felt252s: {}", pm), inp(hexes(&unwrap_f(&felts)))),
        Ok(None) => or.fail("felt-roundtrip", "sierra_from_felt252s rejects the output of sierra_to_felt252s".into(), inp(hexes(&unwrap_f(&felts)))),
        Ok(Some((sv2, cv2, p2))) => {
            if sv2 != sv || cv2 != cv {
                or.fail("felt-roundtrip", format!("versions changed: {:?} {:?}", sv2, cv2), inp(hexes(&unwrap_f(&felts))));
            } else if &p2 != p {
                or.fail("felt-roundtrip", format!("program changed; got {:?}", p2), inp(hexes(&unwrap_f(&felts))));
            }
        }
    }
    let prime = stark_prime();
    if class_always || felts.iter().all(|f| f.value < prime) {
        or.check("class-extract");
        let cc = ContractClass {
            sierra_program: felts.clone(),
            sierra_program_debug_info: None,
            contract_class_version: "0.1.0".into(),
            entry_points_by_type: Default::default(),
            abi: None,
        };
        match catch(AssertUnwindSafe(|| cc.extract_sierra_program(false).map(|e| (e.sierra_version, e.compiler_version, e.program)).map_err(|e| format!("{:?}", e)))) {
            Err(pm) => or.fail("class-extract", panic_msg(pm), inp(hexes(&unwrap_f(&felts)))),
            Ok(Err(e)) => or.fail("class-extract", format!("extract_sierra_program: {}", e), inp(hexes(&unwrap_f(&felts)))),
            Ok(Ok((sv2, cv2, p2))) => {
                if sv2 != sv || cv2 != cv || &p2 != p {
                    or.fail("class-extract", format!("extracted program / versions differ; got {:?} {:?} {:?}", sv2, cv2, p2), inp(hexes(&unwrap_f(&felts))));
                }
            }
        }
    }
    Some(felts)
}

/// JSON round trip through `VersionedProgram` (leg "json-roundtrip"); compares with `==` and on
/// the `Debug` rendering (which shows the debug names that `==` ignores).
fn oracle_json(or: &mut Oracle, p: &Program, input: &Value) {
    or.check("json-roundtrip");
    let r = catch(AssertUnwindSafe(|| -> Result<(), String> {
        let vp = VersionedProgram::v1(ProgramArtifact::stripped(p.clone()));
        let s = serde_json::to_string(&vp).map_err(|e| format!("to_string: {}", e))?;
        let vp2: VersionedProgram = serde_json::from_str(&s).map_err(|e| format!("from_str: {}", e))?;
        if vp2 != vp {
            return Err("deserialized VersionedProgram != original".into());
        }
        let p2 = vp2.into_v1().map_err(|e| format!("into_v1: {}", e))?.program;
        if format!("{:?}", p2) != format!("{:?}", p) {
            return Err("Debug rendering (debug names) differs after the JSON round trip".into());
        }
        Ok(())
    }));
    match r {
        Err(pm) => or.fail("json-roundtrip", panic_msg(pm), input.clone()),
        Ok(Err(e)) => or.fail("json-roundtrip", e, input.clone()),
        Ok(Ok(())) => {}
    }
}

/// Text round trip (leg "text-roundtrip"): print, parse, compare, print again.
fn oracle_text(or: &mut Oracle, p: &Program, input: &Value) {
    or.check("text-roundtrip");
    let r = catch(AssertUnwindSafe(|| -> Result<(), String> {
        let t1 = p.to_string();
        let p1 = ProgramParser::new().parse(&t1).map_err(|e| format!("printed program does not parse: {:?}", format!("{:?}", e).chars().take(300).collect::<String>()))?;
        if &p1 != p {
            return Err(format!("parse(print(p)) != p; text:\n{}", t1.chars().take(2000).collect::<String>()));
        }
        if p1.to_string() != t1 {
            return Err("print(parse(print(p))) != print(p)".into());
        }
        Ok(())
    }));
    match r {
        Err(pm) => or.fail("text-roundtrip", panic_msg(pm), input.clone()),
        Ok(Err(e)) => or.fail("text-roundtrip", e, input.clone()),
        Ok(Ok(())) => {}
    }
}

/// The pipeline of `sierra-compile`: registry info, metadata, compile, print.
fn casm_text(p: &Program) -> Result<String, String> {
    use cairo_lang_sierra_to_casm::compiler::{SierraToCasmConfig, compile};
    use cairo_lang_sierra_to_casm::metadata::calc_metadata;
    use cairo_lang_sierra_type_size::ProgramRegistryInfo;
    let r = catch(AssertUnwindSafe(|| -> Result<String, String> {
        let info = ProgramRegistryInfo::new(p).map_err(|e| format!("registry: {:?}", e))?;
        let md = calc_metadata(p, &info, Default::default()).map_err(|e| format!("metadata: {:?}", e))?;
        let c = compile(p, &info, &md, SierraToCasmConfig { gas_usage_check: true, max_bytecode_size: usize::MAX })
            .map_err(|e| format!("compile: {:?}", e))?;
        Ok(c.to_string())
    }));
    match r {
        Ok(x) => x,
        Err(pm) => Err(panic_msg(pm)),
    }
}
/// CASM equality (leg "casm-equality", explored): the CASM of a corpus program must not depend on
/// how its ids are spelled (hashed names / canonical numbers with or without debug names) nor
/// change through the felt252 round trip.  Returns false when the program as parsed does not
/// compile stand-alone (contracts need the Starknet pipeline) - then nothing is compared.
fn oracle_casm(or: &mut Oracle, p0: &Program, canon: &Program, name: &str) -> bool {
    let Ok(base) = casm_text(p0) else { return false };
    or.check("casm-equality");
    let mut variants: Vec<(&str, Program)> = vec![("canonical ids", canon.clone()), ("canonical ids, no debug names", progs::strip(canon))];
    let v = VersionId { major: 1, minor: 0, patch: 0 };
    if let Ok(Ok(f)) = i_ser(v, v, canon) {
        if let Ok(Some((_, _, back))) = i_de(&f) {
            variants.push(("felt252 round trip", back));
        }
    }
    if let Ok(Ok(t)) = catch(AssertUnwindSafe(|| ProgramParser::new().parse(&p0.to_string()).map_err(|_| ()))) {
        variants.push(("text round trip", t));
    }
    for (what, q) in variants {
        match casm_text(&q) {
            Ok(c) if c == base => {}
            Ok(_) => or.fail("casm-equality", format!("CASM differs for the same program with {}", what), json!({"corpus": name})),
            Err(e) => or.fail("casm-equality", format!("program with {} does not compile: {}", what, trunc(&e, 300)), json!({"corpus": name})),
        }
    }
    true
}

/// `Debug` rendering: shows every debug name (which `==` ignores).
/// Root of the tree under test: $VERIF_REPO (scratch worktrees of the seeded-change evaluation) or /repo.
fn repo(rel: &str) -> String {
    format!("{}/{}", std::env::var("VERIF_REPO").unwrap_or_else(|_| "/repo".into()).trim_end_matches('/'), rel)
}
fn dbg_str(p: &Program) -> String {
    format!("{:?}", p)
}
/// Leg "debug-info-populate" (explored + modelled in C18/DebugInfo.v): the names recorded by
/// `DebugInfo::extract` put back by `populate` into the stripped program give the program again -
/// every id, also inside the generic arguments of type and libfunc declarations.  `p` must carry
/// its names consistently (declaration = uses); variable and user type names are outside DebugInfo.
/// Also the JSON form of the DebugInfo itself (leg "debug-info-json").
fn oracle_debug_info(or: &mut Oracle, p: &Program, input: &Value) {
    use cairo_lang_sierra::debug_info::DebugInfo;
    or.check("debug-info-populate");
    let c = progs::strip_uv(p);
    let r = catch(AssertUnwindSafe(|| -> Result<(), (String, String)> {
        let info = DebugInfo::extract(&c);
        let mut q = progs::strip(&c);
        info.populate(&mut q);
        if dbg_str(&q) != dbg_str(&c) {
            return Err(("debug-info-populate".into(), format!("populate(extract(p), strip(p)) != p; got {}", trunc(&dbg_str(&q), 1500))));
        }
        let js = serde_json::to_string(&info).map_err(|e| ("debug-info-json".to_string(), format!("to_string: {}", e)))?;
        let back: DebugInfo = serde_json::from_str(&js).map_err(|e| ("debug-info-json".to_string(), format!("from_str: {}", e)))?;
        if back != info {
            return Err(("debug-info-json".into(), "DebugInfo changed through JSON".into()));
        }
        Ok(())
    }));
    match r {
        Err(pm) => or.fail("debug-info-populate", panic_msg(pm), input.clone()),
        Ok(Err((leg, e))) => or.fail(&leg, e, input.clone()),
        Ok(Ok(())) => {}
    }
}
/// Leg "class-debug-info" (explored): ContractClass::new (felt252 program + DebugInfo) -> JSON ->
/// ContractClass -> extract_sierra_program(true) gives the same program with the same names and
/// the same text; when `parse_back`, that text parses to an isomorphic program (leg
/// "class-debug-info-text"), and when a CASM baseline is given, it compiles to the same CASM (leg
/// "casm-equality").  Returns false if the class path does not apply (a felt >= P).
fn oracle_class_debug(or: &mut Oracle, p: &Program, input: &Value, parse_back: bool, casm_base: Option<&str>) -> bool {
    let c = progs::strip_uv(p);
    let v = VersionId { major: 1, minor: 0, patch: 0 };
    let prime = stark_prime();
    match i_ser(v, v, &c) {
        Ok(Ok(f)) if f.iter().all(|x| x.value < prime) => {}
        _ => return false,
    }
    or.check("class-debug-info");
    let r = catch(AssertUnwindSafe(|| -> Result<(), (String, String)> {
        let leg = "class-debug-info".to_string();
        let cc = ContractClass::new(&c, Default::default(), None, Default::default()).map_err(|e| (leg.clone(), format!("ContractClass::new: {:?}", e)))?;
        let js = serde_json::to_string(&cc).map_err(|e| (leg.clone(), format!("to_string: {}", e)))?;
        let cc2: ContractClass = serde_json::from_str(&js).map_err(|e| (leg.clone(), format!("from_str: {}", e)))?;
        if cc2 != cc {
            return Err((leg, "ContractClass changed through JSON".into()));
        }
        let e = cc2.extract_sierra_program(true).map_err(|e| (leg.clone(), format!("extract_sierra_program(true): {:?}", e)))?.program;
        if dbg_str(&e) != dbg_str(&c) {
            return Err((leg, format!("extracted + populated program differs (ids / debug names); got {}", trunc(&dbg_str(&e), 1500))));
        }
        let te = e.to_string();
        if te != c.to_string() {
            return Err((leg, "extracted + populated program prints differently".into()));
        }
        if parse_back {
            let leg = "class-debug-info-text".to_string();
            let q = ProgramParser::new().parse(&te).map_err(|e| (leg.clone(), format!("text of the extracted program does not parse: {}", trunc(&format!("{:?}", e), 300))))?;
            if dbg_str(&progs::canon(&q)) != dbg_str(&progs::canon(&ProgramParser::new().parse(&c.to_string()).map_err(|e| (leg.clone(), format!("text of the original does not parse: {}", trunc(&format!("{:?}", e), 300))))?)) {
                return Err((leg, "parse(print(extracted)) is not the program parse(print(original))".into()));
            }
            if let Some(base) = casm_base {
                match casm_text(&q) {
                    Ok(t) if t == base => {}
                    Ok(_) => return Err(("casm-equality".into(), "CASM differs after class + debug info + text round trip".into())),
                    Err(e) => return Err(("casm-equality".into(), format!("program after class + debug info + text round trip does not compile: {}", trunc(&e, 300)))),
                }
            }
        }
        Ok(())
    }));
    match r {
        Err(pm) => or.fail("class-debug-info", panic_msg(pm), input.clone()),
        Ok(Err((leg, e))) => or.fail(&leg, e, input.clone()),
        Ok(Ok(())) => {}
    }
    true
}
/// Text round trip of a program that carries debug names (leg "text-roundtrip-named"): ids are
/// re-derived from the names by the parser, so the comparison is up to the renumbering `canon`,
/// names included; printing is a fix-point.
fn oracle_text_named(or: &mut Oracle, p: &Program, input: &Value) {
    or.check("text-roundtrip-named");
    let r = catch(AssertUnwindSafe(|| -> Result<(), String> {
        let t1 = p.to_string();
        let p1 = ProgramParser::new().parse(&t1).map_err(|e| format!("printed program does not parse: {}; text:\n{}", trunc(&format!("{:?}", e), 300), trunc(&t1, 1500)))?;
        if dbg_str(&progs::canon(&p1)) != dbg_str(&progs::canon(p)) {
            return Err(format!("parse(print(p)) is not p up to renumbering; text:\n{}", trunc(&t1, 1500)));
        }
        if p1.to_string() != t1 {
            return Err("print(parse(print(p))) != print(p)".into());
        }
        Ok(())
    }));
    match r {
        Err(pm) => or.fail("text-roundtrip-named", panic_msg(pm), input.clone()),
        Ok(Err(e)) => or.fail("text-roundtrip-named", e, input.clone()),
        Ok(Ok(())) => {}
    }
}

/// The `//! > sierra_code` sections of the e2e test data: compiler output with debug names.
fn e2e_sections() -> Vec<(String, String)> {
    let mut files = vec![];
    walk(Path::new(&repo("tests/e2e_test_data")), "", &mut files, true);
    files.sort();
    let mut out = vec![];
    for f in files {
        let Ok(text) = std::fs::read_to_string(&f) else { continue };
        let mut test = String::new();
        let mut expect_name = true;
        let mut cur: Option<String> = None;
        for line in text.lines() {
            if let Some(h) = line.strip_prefix("//! > ") {
                if let Some(code) = cur.take() {
                    out.push((format!("{}::{}", f.to_str().unwrap_or(""), test), code));
                }
                if h.starts_with("=====") {
                    expect_name = true;
                } else if expect_name {
                    test = h.trim().to_string();
                    expect_name = false;
                } else if h.trim() == "sierra_code" {
                    cur = Some(String::new());
                }
            } else if let Some(c) = cur.as_mut() {
                c.push_str(line);
                c.push('\n');
            }
        }
        if let Some(code) = cur.take() {
            out.push((format!("{}::{}", f.to_str().unwrap_or(""), test), code));
        }
    }
    out
}

// ------------------------------------------------------------------ corpus
fn walk(dir: &Path, suffix: &str, out: &mut Vec<PathBuf>, recurse: bool) {
    let Ok(rd) = std::fs::read_dir(dir) else { return };
    for e in rd.flatten() {
        let p = e.path();
        if p.is_dir() {
            if recurse {
                walk(&p, suffix, out, recurse);
            }
        } else if p.to_str().map(|s| s.ends_with(suffix)).unwrap_or(false) {
            out.push(p);
        }
    }
}
struct Corp {
    name: String,
    /// as parsed from text (hashed ids, debug names)
    p0: Option<Program>,
    /// numeric sequential ids (debug names kept)
    prog: Program,
    is_class: bool,
    raw_len: usize,
}

/// The ids in `GenericTypeId::new_inline("..")` of the extension sources that `CoreType::by_id`
/// accepts (there is no `supported_ids` for types).
fn core_type_ids(extra: &[String]) -> Vec<String> {
    let mut files = vec![];
    walk(Path::new(&repo("crates/cairo-lang-sierra/src/extensions")), ".rs", &mut files, true);
    files.sort();
    let mut cands: Vec<String> = extra.to_vec();
    for f in files {
        let Ok(text) = std::fs::read_to_string(&f) else { continue };
        let pat = "new_inline(\"";
        let mut rest = text.as_str();
        while let Some(k) = rest.find(pat) {
            rest = &rest[k + pat.len()..];
            if let Some(e) = rest.find('"') {
                cands.push(rest[..e].to_string());
            }
        }
    }
    cands.sort();
    cands.dedup();
    cands.into_iter().filter(|s| CoreType::by_id(&GenericTypeId::from_string(s.clone())).is_some()).collect()
}

fn one_libfunc_program(name: &str) -> Program {
    Program {
        type_declarations: vec![],
        libfunc_declarations: vec![LibfuncDeclaration {
            id: ConcreteLibfuncId::new(0),
            long_id: ConcreteLibfuncLongId { generic_id: GenericLibfuncId::from_string(name), generic_args: vec![] },
        }],
        statements: vec![],
        funcs: vec![],
    }
}

// ------------------------------------------------------------------ de-leg mutations
fn special_felt(rng: &mut Rng, old: &BigUint) -> BigUint {
    match rng.below(15) {
        0 => BigUint::zero(),
        1 | 2 => old + big(1),
        3 | 4 => {
            if old.is_zero() {
                big(1)
            } else {
                old - big(1)
            }
        }
        5 => (BigUint::one() << 64) - big(1),
        6 => BigUint::one() << 64,
        7 => BigUint::one() << 128,
        8 => BigUint::one() << 251,
        9 | 10 => big(rng.below(9)),
        11 => big(rng.next()),
        12 => big(rng.below(40)),
        13 => BigUint::one() << (33 + rng.below(12)),
        _ => rand_bits(rng, 252),
    }
}
fn mutate_raw(rng: &mut Rng, r: &mut Vec<BigUint>) -> &'static str {
    if r.is_empty() {
        r.push(big(rng.below(4)));
        return "push";
    }
    let n = r.len() as u64;
    match rng.below(20) {
        0..=11 => {
            let k = rng.below(n) as usize;
            r[k] = special_felt(rng, &r[k].clone());
            "set"
        }
        12 | 13 => {
            r.remove(rng.below(n) as usize);
            "delete"
        }
        14 | 15 => {
            let k = rng.below(n + 1) as usize;
            let v = if rng.bool() { big(rng.below(9)) } else { r[rng.below(n) as usize].clone() };
            r.insert(k, v);
            "insert"
        }
        16 => {
            r.truncate(rng.below(n) as usize);
            "truncate"
        }
        17 => {
            let (a, b) = (rng.below(n) as usize, rng.below(n) as usize);
            r.swap(a, b);
            "swap"
        }
        18 => {
            for _ in 0..1 + rng.below(3) {
                r.push(if rng.bool() { big(rng.below(9)) } else { rand_bits(rng, 252) });
            }
            "append"
        }
        _ => {
            // swap the sign tag of a value (2 <-> 5) or turn a small felt into another small one
            let idx: Vec<usize> = (0..r.len()).filter(|&k| r[k] == big(2) || r[k] == big(5)).collect();
            if idx.is_empty() {
                let k = rng.below(n) as usize;
                r[k] = big(rng.below(6));
            } else {
                let k = *rng.pick(&idx);
                r[k] = if r[k] == big(2) { big(5) } else { big(2) };
            }
            "tag"
        }
    }
}

const UTF8_BOUNDARY: [u8; 27] = [
    0x00, 0x01, 0x41, 0x7F, 0x80, 0x8F, 0x90, 0x9F, 0xA0, 0xBF, 0xC0, 0xC1, 0xC2, 0xDF, 0xE0, 0xE1, 0xEC, 0xED, 0xEE, 0xEF, 0xF0, 0xF1, 0xF3,
    0xF4, 0xF5, 0xFE, 0xFF,
];
fn utf8_probes(rng: &mut Rng, n_random: usize) -> Vec<Vec<u8>> {
    let mut v: Vec<Vec<u8>> = vec![
        vec![0xC3, 0xA9],
        vec![0xC3],
        vec![0xC0, 0x80],
        vec![0xC1, 0xBF],
        vec![0xE0, 0x80, 0x80],
        vec![0xE0, 0x9F, 0xBF],
        vec![0xE0, 0xA0, 0x80],
        vec![0xED, 0xA0, 0x80],
        vec![0xED, 0x9F, 0xBF],
        vec![0xEF, 0xBF, 0xBF],
        vec![0xF0, 0x8F, 0xBF, 0xBF],
        vec![0xF0, 0x90, 0x80, 0x80],
        vec![0xF4, 0x8F, 0xBF, 0xBF],
        vec![0xF4, 0x90, 0x80, 0x80],
        vec![0xF5, 0x80, 0x80, 0x80],
        vec![0xFF],
        vec![0x80],
        vec![0xBF],
        vec![0x61, 0xC3],
        vec![0x61, 0x80],
        vec![0xE1, 0x80],
        vec![0xF1, 0x80, 0x80],
        vec![0xC2, 0x41],
        vec![0xE1, 0x41, 0x80],
        vec![0xE1, 0x80, 0x41],
        vec![0xF1, 0x80, 0x80, 0x41],
        vec![0x7F],
        vec![0x00],
        vec![0x01, 0x00],
        vec![0x61; 32],
        vec![0x61; 40],
        {
            let mut x = vec![0x03];
            x.extend(vec![0x7A; 31]);
            x
        },
        {
            let mut x = vec![0x61; 30];
            x.extend([0xC3, 0xA9]);
            x
        },
    ];
    for _ in 0..n_random {
        let len = 1 + rng.below(6) as usize;
        v.push((0..len).map(|_| *rng.pick(&UTF8_BOUNDARY)).collect());
    }
    v
}

// ------------------------------------------------------------------ sharding
struct Sharder<'a> {
    dir: &'a str,
    leg: &'a str,
    long_tab: &'a str,
    case_ty: &'a str,
    check: &'a str,
    extra: Option<&'a str>,
    max_cases: usize,
    max_weight: usize,
    cur: Vec<String>,
    cur_weight: usize,
    n_shards: usize,
    sizes: Vec<usize>,
}
impl Sharder<'_> {
    fn push(&mut self, case: String, weight: usize) {
        if !self.cur.is_empty() && (self.cur.len() >= self.max_cases || self.cur_weight + weight > self.max_weight) {
            self.flush();
        }
        self.cur.push(case);
        self.cur_weight += weight;
    }
    fn flush(&mut self) {
        if self.cur.is_empty() {
            return;
        }
        pr::write_shard(self.dir, self.leg, self.n_shards, self.long_tab, Some(self.case_ty), self.check, &self.cur, self.extra);
        self.sizes.push(self.cur.len());
        self.n_shards += 1;
        self.cur.clear();
        self.cur_weight = 0;
    }
}

/// Moves 12 evenly spaced candidates into `samples`.
fn take_samples(samples: &mut Vec<String>, cand: &mut Vec<String>) {
    let n = cand.len();
    for k in 0..12.min(n) {
        samples.push(cand[k * n / 12.min(n)].clone());
    }
    cand.clear();
}

fn trunc(s: &str, n: usize) -> String {
    if s.chars().count() <= n { s.to_string() } else { format!("{} ...", s.chars().take(n).collect::<String>()) }
}

fn main() {
    quiet_panics();
    let args: Vec<String> = std::env::args().collect();
    if args.len() < 2 {
        eprintln!("usage: h18 <out_dir> <quick|thorough>");
        std::process::exit(2);
    }
    let out_dir = args[1].as_str();
    let tier = args.get(2).map(|s| s.as_str()).unwrap_or("quick").to_string();
    let thorough = tier == "thorough";
    let mult: usize = if thorough { 5 } else { 1 };
    let mut rng = Rng::from_env();
    let seed = rng.0;
    std::fs::create_dir_all(out_dir).unwrap();
    let mut or = Oracle::default();
    let v100 = VersionId { major: 1, minor: 0, patch: 0 };
    let v200 = VersionId { major: 2, minor: 0, patch: 0 };

    // ================================================================ long ids (observed)
    let mut libfunc_ids: Vec<String> = CoreLibfunc::supported_ids().iter().map(|g| g.0.to_string()).collect();
    libfunc_ids.sort();
    libfunc_ids.dedup();

    // ================================================================ corpus
    let mut corpus: Vec<Corp> = vec![];
    let mut corpus_parse_failures: Vec<String> = vec![];
    let mut sierra_files = vec![];
    for d in ["crates/cairo-lang-sierra/examples", "tests/test_data", "crates/cairo-lang-starknet/test_data", "examples"] {
        walk(Path::new(&repo(d)), ".sierra", &mut sierra_files, true);
    }
    sierra_files.sort();
    sierra_files.dedup();
    let mut corpus_text_programs = 0;
    for f in &sierra_files {
        let name = f.to_str().unwrap().to_string();
        let Ok(text) = std::fs::read_to_string(f) else {
            corpus_parse_failures.push(format!("{}: unreadable", name));
            continue;
        };
        match catch(AssertUnwindSafe(|| ProgramParser::new().parse(&text).map_err(|e| trunc(&format!("{:?}", e), 200)))) {
            Ok(Ok(p0)) => {
                or.check("text-corpus-parse");
                corpus_text_programs += 1;
                let prog = progs::canon(&p0);
                corpus.push(Corp { name, p0: Some(p0), prog, is_class: false, raw_len: 0 });
            }
            // a compiler-produced Sierra text of the repo that the parser refuses is a failure of the
            // text leg of the property (leg "text-corpus-parse", fingerprinted by file name so that
            // a registered finding is reported as KNOWN-FINDING).  On the pinned tree
            // tests/test_data/fib_array.sierra holds the specialized function name
            // `fib_inner{NotSpecialized, array![1, 1], }`, and `!` is not a token of the grammar.
            Ok(Err(e)) => {
                or.check("text-corpus-parse");
                or.fail("text-corpus-parse", format!("ProgramParser refuses a Sierra text file of the repo: {}", e), json!({"corpus": name}));
                corpus_parse_failures.push(format!("{}: {}", name, e));
            }
            Err(pm) => {
                or.check("text-corpus-parse");
                or.fail("text-corpus-parse", format!("ProgramParser panics on a Sierra text file of the repo: {}", panic_msg(pm)), json!({"corpus": name}));
                corpus_parse_failures.push(format!("{}: panic", name));
            }
        }
    }
    let mut class_files = vec![];
    walk(Path::new(&repo("crates/cairo-lang-starknet/test_data")), ".contract_class.json", &mut class_files, false);
    class_files.sort();
    let mut corpus_classes = 0;
    for f in &class_files {
        let name = f.to_str().unwrap().to_string();
        let r = catch(AssertUnwindSafe(|| -> Result<(ContractClass, Program, VersionId, VersionId), String> {
            let text = std::fs::read_to_string(f).map_err(|e| e.to_string())?;
            let cc: ContractClass = serde_json::from_str(&text).map_err(|e| e.to_string())?;
            let ex = cc.extract_sierra_program(false).map_err(|e| format!("extract_sierra_program: {:?}", e))?;
            Ok((cc, ex.program, ex.sierra_version, ex.compiler_version))
        }));
        match r {
            Ok(Ok((cc, p, sv, cv))) => {
                corpus_classes += 1;
                // leg "class-reserialize": the class's felts are what the serializer produces now
                or.check("class-reserialize");
                match i_ser(sv, cv, &p) {
                    Ok(Ok(f)) => {
                        if f != cc.sierra_program {
                            let k = f.iter().zip(cc.sierra_program.iter()).position(|(a, b)| a != b).unwrap_or(f.len().min(cc.sierra_program.len()));
                            or.fail(
                                "class-reserialize",
                                format!("re-serialized felts differ from the class's sierra_program at index {} (lengths {} vs {})", k, f.len(), cc.sierra_program.len()),
                                json!({"corpus": name}),
                            );
                        }
                    }
                    Ok(Err(e)) => or.fail("class-reserialize", format!("sierra_to_felt252s: {}", e), json!({"corpus": name})),
                    Err(pm) => or.fail("class-reserialize", pm, json!({"corpus": name})),
                }
                corpus.push(Corp { name, p0: None, prog: p, is_class: true, raw_len: 0 });
            }
            Ok(Err(e)) => {
                or.check("class-reserialize");
                or.fail("class-reserialize", format!("cannot load / extract the class: {}", e), json!({"corpus": name}));
            }
            Err(pm) => {
                or.check("class-reserialize");
                or.fail("class-reserialize", panic_msg(pm), json!({"corpus": name}));
            }
        }
    }

    // generic type ids: from the extension sources and the corpus, filtered by CoreType::by_id
    let mut seen_type_ids: Vec<String> = vec![];
    for c in &corpus {
        for d in &c.prog.type_declarations {
            seen_type_ids.push(d.long_id.generic_id.0.to_string());
        }
    }
    let type_ids = core_type_ids(&seen_type_ids);
    assert!(type_ids.iter().any(|s| progs::is_path_label(s)), "no core generic type id found");
    assert!(libfunc_ids.iter().any(|s| progs::is_path_label(s)), "no core generic libfunc id found");

    let mut long_cands: Vec<String> = libfunc_ids.iter().chain(type_ids.iter()).filter(|s| s.len() > 31).cloned().collect();
    long_cands.sort();
    long_cands.dedup();
    let mut long_ids: Vec<String> = vec![];
    let mut long_ids_rejected: Vec<String> = vec![];
    for name in &long_cands {
        match i_ser(v100, v200, &one_libfunc_program(name)) {
            Ok(Ok(_)) => long_ids.push(name.clone()),
            Ok(Err(_)) => long_ids_rejected.push(name.clone()),
            Err(pm) => {
                or.fail("felt-roundtrip", format!("sierra_to_felt252s on a one-declaration program: {}", pm), json!({"generic_id": name}));
                long_ids_rejected.push(name.clone());
            }
        }
    }
    let long_tab = pr::list(
        &long_ids.iter().map(|s| format!("({}, {})", pr::bytes(s), pr::n_lit(&starknet_keccak(s.as_bytes())))).collect::<Vec<_>>(),
    );
    pr::write_shard(out_dir, "hyp", 0, &long_tab, None, "check_hyp long_tab", &[], None);
    let pools = Pools { type_ids: type_ids.clone(), libfunc_ids: libfunc_ids.clone(), long_ids: long_ids.clone() };

    let populate_cases;
    // ================================================================ oracle over the corpus
    let mut casm_compiled = 0;
    for c in corpus.iter_mut() {
        let input = json!({"corpus": c.name});
        if let Some(p0) = &c.p0 {
            // CASM equality on the stand-alone programs (quick: the small ones)
            if (thorough || p0.statements.len() <= 400) && oracle_casm(&mut or, p0, &c.prog, &c.name) {
                casm_compiled += 1;
            }
            // text -> program -> text -> program
            oracle_text(&mut or, p0, &input);
            oracle_json(&mut or, p0, &input);
            // numeric ids, no debug names
            oracle_text(&mut or, &progs::strip(&c.prog), &json!({"corpus": c.name, "form": "canonical ids, debug names stripped"}));
        }
        oracle_json(&mut or, &c.prog, &input);
        if let Some(f) = oracle_felt(&mut or, &mut rng, &c.prog, &input, true) {
            c.raw_len = i_decompress(&f[6..]).ok().flatten().map(|r| r.len()).unwrap_or(0);
        }
    }

    // ================================================================ debug-info paths
    // (own generator stream: the other legs keep their inputs)
    let mut rng_d = Rng(seed ^ 0xD1B5_4A32_D192_ED03);
    // (1) e2e test data: compiler output with names (coupons, function_call, closures, ...)
    let e2e = e2e_sections();
    let mut e2e_parsed = 0;
    let mut e2e_parse_failures: Vec<String> = vec![];
    let mut e2e_used = 0;
    let mut e2e_compiled = 0;
    for (name, text) in &e2e {
        let p0 = match catch(AssertUnwindSafe(|| ProgramParser::new().parse(text).map_err(|e| trunc(&format!("{:?}", e), 160)))) {
            Ok(Ok(p)) => p,
            Ok(Err(e)) => {
                e2e_parse_failures.push(format!("{}: {}", name, e));
                continue;
            }
            Err(pm) => {
                e2e_parse_failures.push(format!("{}: {}", name, panic_msg(pm)));
                continue;
            }
        };
        e2e_parsed += 1;
        // ids other than types inside type declarations are what the goldens of the class path lack
        let special = p0.type_declarations.iter().any(|d| d.long_id.generic_args.iter().any(|a| matches!(a, GenericArg::UserFunc(_) | GenericArg::Libfunc(_))))
            || p0.libfunc_declarations.iter().any(|d| d.long_id.generic_args.iter().any(|a| matches!(a, GenericArg::Libfunc(_))));
        if !(thorough || special || rng_d.below(8) == 0) {
            continue;
        }
        e2e_used += 1;
        let input = json!({"corpus": name});
        let c = progs::canon(&p0);
        oracle_text(&mut or, &p0, &input);
        oracle_debug_info(&mut or, &c, &input);
        let base = if p0.statements.len() <= 600 { casm_text(&p0).ok() } else { None };
        if base.is_some() {
            e2e_compiled += 1;
            or.check("casm-equality");
        }
        oracle_class_debug(&mut or, &c, &input, true, base.as_deref());
    }
    // (1b) programs compiled just now by the current compiler (driver: props/sierra_runtime
    //      compile_fresh_corpus -> $H18_FRESH_DIR/cc_*.sierra: examples, bug samples, instantiation
    //      zoo): the names the compiler really prints for specialized / generated functions
    let mut fresh_files = vec![];
    if let Ok(d) = std::env::var("H18_FRESH_DIR") {
        walk(Path::new(&d), ".sierra", &mut fresh_files, false);
    }
    fresh_files.sort();
    let mut fresh_parsed = 0;
    let mut fresh_compiled = 0;
    let mut fresh_bracketed_names: HashSet<String> = HashSet::new();
    for f in &fresh_files {
        let name = f.file_name().and_then(|x| x.to_str()).unwrap_or("").to_string();
        let input = json!({"fresh": name});
        let Ok(text) = std::fs::read_to_string(f) else { continue };
        or.check("text-fresh-parse");
        let p0 = match catch(AssertUnwindSafe(|| ProgramParser::new().parse(&text).map_err(|e| trunc(&format!("{:?}", e), 200)))) {
            Ok(Ok(p)) => p,
            Ok(Err(e)) => {
                or.fail("text-fresh-parse", format!("ProgramParser refuses the text the compiler just printed: {}", e), input);
                continue;
            }
            Err(pm) => {
                or.fail("text-fresh-parse", format!("ProgramParser panics on the text the compiler just printed: {}", panic_msg(pm)), input);
                continue;
            }
        };
        fresh_parsed += 1;
        for fu in &p0.funcs {
            if let Some(n) = &fu.id.debug_name {
                if n.contains('{') || n.contains('[') {
                    fresh_bracketed_names.insert(n.to_string());
                }
            }
        }
        let c = progs::canon(&p0);
        oracle_text(&mut or, &p0, &input);
        oracle_debug_info(&mut or, &c, &input);
        let base = if p0.statements.len() <= if thorough { 3000 } else { 300 } { casm_text(&p0).ok() } else { None };
        if base.is_some() {
            fresh_compiled += 1;
            or.check("casm-equality");
        }
        oracle_class_debug(&mut or, &c, &input, true, base.as_deref());
    }
    // (2) generated closed programs with consistent names, every GenericArg kind in type and
    //     libfunc declarations
    let n_named = 120 * mult;
    let mut named_progs: Vec<Program> = vec![];
    for k in 0..n_named {
        let text_names = k % 2 == 0;
        let p = progs::gen_named_program(&mut rng_d, &pools, text_names);
        let input = json!({"generated": dbg_str(&p), "text": trunc(&p.to_string(), 3000)});
        oracle_debug_info(&mut or, &p, &input);
        oracle_class_debug(&mut or, &p, &input, text_names, None);
        if text_names {
            oracle_text_named(&mut or, &p, &input);
        }
        oracle_json(&mut or, &p, &input);
        named_progs.push(p);
    }
    // populate leg for Coq: populate(extract(p), q) on consistent and inconsistent programs
    {
        use cairo_lang_sierra::debug_info::DebugInfo;
        let mut lines: Vec<(String, usize)> = vec![];
        let mut push = |p: &Program, q: &Program| {
            let r = catch(AssertUnwindSafe(|| {
                let mut q2 = q.clone();
                DebugInfo::extract(p).populate(&mut q2);
                q2
            }));
            if let Ok(r) = r {
                lines.push((format!("({}, {}, {})", pr::program(p), pr::program(q), pr::program(&r)), pr::weight(p) + 2 * pr::weight(q)));
            }
        };
        for (k, p) in named_progs.iter().enumerate() {
            push(p, &progs::strip(p));
            if k % 4 == 0 {
                push(p, p);
            }
        }
        for k in 0..60 * mult {
            // inconsistent names, duplicates of ids among uses, undeclared ids
            let p = progs::gen_program(&mut rng_d, &pools, Opts { text_ok: false, medium: false });
            match k % 3 {
                0 => push(&p, &progs::strip(&p)),
                1 => push(&p, &p),
                _ => {
                    let q = progs::gen_program(&mut rng_d, &pools, Opts { text_ok: false, medium: false });
                    push(&p, &q)
                }
            }
        }
        populate_cases = lines.len();
        let mut sh = Sharder {
            dir: out_dir,
            leg: "populate",
            long_tab: &long_tab,
            case_ty: "populate_case",
            check: "check_populate cases",
            extra: None,
            max_cases: 120,
            max_weight: 50_000,
            cur: vec![],
            cur_weight: 0,
            n_shards: 0,
            sizes: vec![],
        };
        for (l, w) in lines {
            sh.push(l, w);
        }
        sh.flush();
    }

    // ================================================================ generated programs
    let n_gen_general = 300 * mult;
    let n_gen_text = 110 * mult;
    let n_gen_medium = 4 * mult;
    let mut gen_progs: Vec<(Program, bool)> = vec![]; // (program, text_ok)
    for _ in 0..n_gen_general {
        gen_progs.push((progs::gen_program(&mut rng, &pools, Opts { text_ok: false, medium: false }), false));
    }
    for _ in 0..n_gen_text {
        gen_progs.push((progs::gen_program(&mut rng, &pools, Opts { text_ok: true, medium: false }), true));
    }
    for k in 0..n_gen_medium {
        let t = k % 2 == 1;
        gen_progs.push((progs::gen_program(&mut rng, &pools, Opts { text_ok: t, medium: true }), t));
    }
    for (p, text_ok) in &gen_progs {
        let input = json!({"generated": format!("{:?}", p)});
        oracle_felt(&mut or, &mut rng, p, &input, false);
        oracle_json(&mut or, p, &input);
        if *text_ok {
            oracle_text(&mut or, p, &input);
        }
    }
    let boundary = progs::boundary_programs(&mut rng, &pools, mult);
    // H18_SELFTEST=1: show that the oracle is alive, by running it on the boundary programs
    // (which the format cannot represent faithfully) and on non-text-domain programs; prints the
    // failures it records and exits without writing anything.
    if std::env::var("H18_SELFTEST").is_ok() {
        let mut t = Oracle::default();
        for (l, p) in &boundary {
            let before = t.failures.len();
            oracle_felt(&mut t, &mut rng, p, &json!({"boundary": l}), false);
            println!("selftest felt-roundtrip {:<45} -> {}", l, if t.failures.len() > before { "FAILURE recorded" } else { "survives" });
        }
        let before = t.failures.len();
        for (p, text_ok) in gen_progs.iter().take(60) {
            if !*text_ok {
                oracle_text(&mut t, p, &Value::Null);
            }
        }
        println!("selftest text-roundtrip on 60 programs outside the text domain -> {} failures recorded", t.failures.len() - before);
        let mut hist: BTreeMap<String, u64> = BTreeMap::new();
        for f in &t.failures[before..] {
            *hist.entry(trunc(f["why"].as_str().unwrap_or(""), 110).replace('\n', " ")).or_insert(0) += 1;
        }
        for (k, v) in hist {
            println!("selftest   {:>3} x {}", v, k);
        }
        return;
    }

    // ================================================================ compress leg
    let comp_inputs = vecs::compress_inputs(&mut rng, thorough);
    let mut comp_small: Vec<String> = vec![];
    let mut comp_big: Vec<String> = vec![];
    let mut distinct_compress: HashSet<String> = HashSet::new();
    let mut samples: Vec<String> = vec![];
    let mut cand: Vec<String> = vec![];
    let mut compressed_bases: Vec<Vec<BigUint>> = vec![];
    let roundtrip = |or: &mut Oracle, v: &[BigUint]| -> Option<Vec<BigUint>> {
        or.check("compress-roundtrip");
        let w = wrap(v);
        match i_compress(&w) {
            Err(pm) => {
                or.fail("compress-roundtrip", format!("compress: {}", pm), hexes(v));
                None
            }
            Ok(c) => {
                match i_decompress(&c) {
                    Err(pm) => or.fail("compress-roundtrip", format!("decompress: {}", pm), hexes(v)),
                    Ok(None) => or.fail("compress-roundtrip", "decompress(compress(v)) is None".into(), hexes(v)),
                    Ok(Some(d)) => {
                        if d != v {
                            or.fail("compress-roundtrip", "decompress(compress(v)) != v".into(), hexes(v));
                        }
                    }
                }
                Some(unwrap_f(&c))
            }
        }
    };
    for v in &comp_inputs {
        let Some(c) = roundtrip(&mut or, v) else { continue };
        let line = format!("({}, {})", pr::n_list(v), pr::n_list(&c));
        distinct_compress.insert(pr::n_list(v));
        if v.len() < 12 {
            cand.push(format!("compress: {} ==> {}", trunc(&pr::n_list(v), 200), trunc(&pr::n_list(&c), 200)));
        }
        let distinct = c[0].iter_u64_digits().next().unwrap_or(0) as usize;
        if v.len() > 150 || v.len() * distinct.max(1) > 20_000 {
            comp_big.push(line);
        } else {
            comp_small.push(line);
        }
        compressed_bases.push(c);
    }
    take_samples(&mut samples, &mut cand);
    let compress_cases = comp_small.len() + comp_big.len();
    {
        let mut k = 0;
        for ch in comp_small.chunks(300) {
            pr::write_shard(out_dir, "compress", k, &long_tab, Some("compress_case"), "check_compress cases", ch, None);
            k += 1;
        }
        for ch in comp_big.chunks(10) {
            pr::write_shard(out_dir, "compress", k, &long_tab, Some("compress_case"), "check_compress cases", ch, None);
            k += 1;
        }
    }
    // more round trips, implementation only
    for _ in 0..3000 * mult {
        let len = rng.below(200) as usize;
        let distinct = if len == 0 { 0 } else { 1 + rng.below(len as u64) as usize };
        let k = vecs::pick_kind(&mut rng);
        let sh = rng.bool();
        let v = vecs::vector(&mut rng, len, distinct, k, sh);
        roundtrip(&mut or, &v);
    }

    // ================================================================ decompress leg
    let mut dec_inputs: Vec<Vec<BigUint>> = vec![];
    {
        // bases: small compressed vectors (all mutations), a few larger ones (sampled mutations)
        let small: Vec<&Vec<BigUint>> = compressed_bases.iter().filter(|c| c.len() <= 24).collect();
        let mid: Vec<&Vec<BigUint>> = compressed_bases.iter().filter(|c| c.len() > 24 && c.len() <= 90).collect();
        let large: Vec<&Vec<BigUint>> = compressed_bases.iter().filter(|c| c.len() > 250 && c.len() <= 700).collect();
        let target = 1500 * mult;
        let n_random = 250 * mult;
        // every mutant (all truncation positions) of a few tiny bases
        let tiny: Vec<&Vec<BigUint>> = compressed_bases.iter().filter(|c| c.len() >= 5 && c.len() <= 12).collect();
        for _ in 0..(4 * mult).min(tiny.len()) {
            let base = *rng.pick(&tiny);
            dec_inputs.push(base.clone());
            dec_inputs.extend(vecs::decompress_mutants(&mut rng, base, true));
        }
        let mut guard = 0;
        while dec_inputs.len() + n_random < target && guard < 10_000 {
            guard += 1;
            let (base, exhaustive) = match rng.below(10) {
                0..=5 if !small.is_empty() => (*rng.pick(&small), true),
                6..=8 if !mid.is_empty() => (*rng.pick(&mid), false),
                _ if !large.is_empty() && rng.below(4) == 0 => (*rng.pick(&large), false),
                _ if !small.is_empty() => (*rng.pick(&small), true),
                _ => continue,
            };
            let ms = vecs::decompress_mutants(&mut rng, base, exhaustive);
            // keep the unchanged vector too, and a sample of its mutants
            dec_inputs.push(base.clone());
            let keep = if base.len() > 250 { 6 } else { 40 };
            let stride = (ms.len() / keep).max(1);
            let off = rng.below(stride as u64) as usize;
            for (i, m) in ms.into_iter().enumerate() {
                if i % stride == off {
                    dec_inputs.push(m);
                }
            }
        }
        for _ in 0..n_random {
            dec_inputs.push(vecs::decompress_random(&mut rng));
        }
    }
    let mut dec_lines: Vec<(String, usize)> = vec![];
    let mut decompress_accepted = 0;
    let mut distinct_decompress: HashSet<String> = HashSet::new();
    for v in &dec_inputs {
        let ins = pr::n_list(v);
        inflight(out_dir, "decompress", v);
        let res = match i_decompress(&wrap(v)) {
            Ok(r) => r,
            Err(pm) => {
                or.fail("decompress-panic", pm, hexes(v));
                None
            }
        };
        if res.is_some() {
            decompress_accepted += 1;
        }
        let line = format!("({}, {})", ins, pr::opt(res.as_ref().map(|r| pr::n_list(r))));
        if v.len() < 10 {
            cand.push(format!("decompress: {} ==> {}", trunc(&ins, 220), trunc(&pr::opt(res.as_ref().map(|r| pr::n_list(r))), 180)));
        }
        distinct_decompress.insert(ins);
        dec_lines.push((line, v.len() + res.map(|r| r.len()).unwrap_or(0)));
    }
    take_samples(&mut samples, &mut cand);
    let decompress_cases = dec_lines.len();
    {
        let mut sh = Sharder {
            dir: out_dir,
            leg: "decompress",
            long_tab: &long_tab,
            case_ty: "decompress_case",
            check: "check_decompress cases",
            extra: None,
            max_cases: 300,
            max_weight: 40_000,
            cur: vec![],
            cur_weight: 0,
            n_shards: 0,
            sizes: vec![],
        };
        for (l, w) in dec_lines {
            sh.push(l, w);
        }
        sh.flush();
    }

    // ================================================================ ser leg
    struct SerIn {
        p: Program,
        is_corpus: bool,
        /// name of the boundary construction, if any
        label: Option<String>,
    }
    let mut ser_inputs: Vec<SerIn> = vec![];
    for (p, _) in &gen_progs {
        ser_inputs.push(SerIn { p: p.clone(), is_corpus: false, label: None });
    }
    for (l, p) in &boundary {
        ser_inputs.push(SerIn { p: p.clone(), is_corpus: false, label: Some(l.clone()) });
    }
    // corpus programs that fit: the smallest ones, and some of the rest chosen by the seed
    let (max_raw, n_smallest, n_more) = if thorough { (6000, 25, 15) } else { (2500, 8, 4) };
    let mut eligible: Vec<usize> = (0..corpus.len()).filter(|&i| corpus[i].raw_len > 0 && corpus[i].raw_len <= max_raw).collect();
    eligible.sort_by(|&a, &b| (corpus[a].raw_len, &corpus[a].name).cmp(&(corpus[b].raw_len, &corpus[b].name)));
    let mut chosen: Vec<usize> = eligible.iter().take(n_smallest).cloned().collect();
    let mut rest: Vec<usize> = eligible.iter().skip(n_smallest).cloned().collect();
    for _ in 0..n_more {
        if rest.is_empty() {
            break;
        }
        let k = rng.below(rest.len() as u64) as usize;
        chosen.push(rest.remove(k));
    }
    let corpus_in_coq_legs = chosen.len();
    let corpus_classes_in_coq_legs = chosen.iter().filter(|&&i| corpus[i].is_class).count();
    let max_raw_len_in_coq = chosen.iter().map(|&i| corpus[i].raw_len).max().unwrap_or(0);
    let corpus_in_coq_names: Vec<String> = chosen.iter().map(|&i| corpus[i].name.clone()).collect();
    for &i in &chosen {
        ser_inputs.push(SerIn { p: corpus[i].prog.clone(), is_corpus: true, label: None });
    }

    let ser_extra = "Definition n_ser_ok := Eval vm_compute in count_ser_ok long_tab cases.\nPrint n_ser_ok.";
    let mut ser_sh = Sharder {
        dir: out_dir,
        leg: "ser",
        long_tab: &long_tab,
        case_ty: "ser_case",
        check: "check_ser long_tab cases",
        extra: Some(ser_extra),
        max_cases: 150,
        max_weight: 60_000,
        cur: vec![],
        cur_weight: 0,
        n_shards: 0,
        sizes: vec![],
    };
    let mut stats = progs::Stats::default();
    // boundary construction -> (accepted, refused) by sierra_to_felt252s
    let mut boundary_outcomes: BTreeMap<String, (u64, u64)> = BTreeMap::new();
    // boundary programs the serializer accepts but that do not come back unchanged
    let mut boundary_lossy: Vec<Value> = vec![];
    let mut distinct_ser: HashSet<String> = HashSet::new();
    let mut ser_cases = 0;
    let mut ser_accepted = 0;
    // de-leg inputs: (felts, is_mutant)
    let mut de_inputs: Vec<(Vec<BigUint>, bool)> = vec![];
    // bases for the raw-level mutants: (version felts, raw serialization)
    let mut de_bases: Vec<(Vec<BigUint>, Vec<BigUint>)> = vec![];
    for si in &ser_inputs {
        let sv = rand_version(&mut rng);
        let cv = rand_version(&mut rng);
        let res = match i_ser(sv, cv, &si.p) {
            Ok(r) => r.ok(),
            Err(pm) => {
                or.fail("ser-panic", pm, json!({"program": format!("{:?}", si.p)}));
                None
            }
        };
        ser_cases += 1;
        stats.add(&si.p, &long_ids);
        distinct_ser.insert(format!("{:?}", si.p));
        let mut w = pr::weight(&si.p);
        if let Some(f) = &res {
            ser_accepted += 1;
            w += f.len();
            if let Some(l) = &si.label {
                boundary_outcomes.entry(l.clone()).or_insert((0, 0)).0 += 1;
                // does the accepted boundary program come back?  (not an oracle failure by itself:
                // the driver compares the lossy constructions with the documented ones)
                let back = i_de(f).ok().flatten();
                let same = matches!(&back, Some((sv2, cv2, p2)) if *sv2 == sv && *cv2 == cv && p2 == &si.p);
                if !same {
                    boundary_lossy.push(json!({"label": l, "program": format!("{:?}", si.p),
                        "came_back": back.map(|(_, _, p2)| format!("{:?}", p2))}));
                }
            }
            let fv = unwrap_f(f);
            if let Ok(Some(raw)) = i_decompress(&f[6..]) {
                if (raw.len() <= 400 && !si.is_corpus) || raw.len() <= 250 {
                    de_bases.push((fv[..6].to_vec(), raw));
                }
            }
            de_inputs.push((fv, false));
        }
        if let (Some(l), None) = (&si.label, &res) {
            boundary_outcomes.entry(l.clone()).or_insert((0, 0)).1 += 1;
        }
        let line = format!("({}, {}, {}, {})", pr::version(&sv), pr::version(&cv), pr::program(&si.p), pr::opt(res.as_ref().map(|f| pr::felts(f))));
        if w < 60 {
            cand.push(format!("ser: {} {} {} ==> {}", pr::version(&sv), pr::version(&cv), trunc(&pr::program(&si.p), 260), trunc(&pr::opt(res.as_ref().map(|f| pr::felts(f))), 140)));
        }
        ser_sh.push(line, w);
    }
    ser_sh.flush();
    take_samples(&mut samples, &mut cand);

    // ================================================================ de leg
    let n_ser_outputs = de_inputs.len();
    let rewrap = |or: &mut Oracle, vers: &[BigUint], raw: &[BigUint]| -> Option<Vec<BigUint>> {
        match i_compress(&wrap(raw)) {
            Ok(c) => {
                let mut f = vers.to_vec();
                f.extend(unwrap_f(&c));
                Some(f)
            }
            Err(pm) => {
                or.fail("compress-roundtrip", format!("compress: {}", pm), hexes(raw));
                None
            }
        }
    };
    let vers0: Vec<BigUint> = [1u64, 9, 3, 2, 13, 0].iter().map(|&x| big(x)).collect();
    // (a) every position of the raw form of a small template x special values
    {
        let template = Program {
            type_declarations: vec![
                TypeDeclaration {
                    id: ConcreteTypeId::new(0),
                    long_id: ConcreteTypeLongId { generic_id: "felt252".into(), generic_args: vec![] },
                    declared_type_info: None,
                },
                TypeDeclaration {
                    id: ConcreteTypeId::new(1),
                    long_id: ConcreteTypeLongId {
                        generic_id: "Array".into(),
                        generic_args: vec![GenericArg::Type(ConcreteTypeId::new(0)), GenericArg::UserType(UserTypeId { id: big(77), debug_name: None })],
                    },
                    declared_type_info: Some(DeclaredTypeInfo { storable: true, droppable: false, duplicatable: true, zero_sized: false }),
                },
            ],
            libfunc_declarations: vec![
                LibfuncDeclaration {
                    id: ConcreteLibfuncId::new(0),
                    long_id: ConcreteLibfuncLongId { generic_id: "drop".into(), generic_args: vec![GenericArg::Type(ConcreteTypeId::new(1))] },
                },
                LibfuncDeclaration {
                    id: ConcreteLibfuncId::new(1),
                    long_id: ConcreteLibfuncLongId {
                        generic_id: long_ids.first().map(|s| s.as_str()).unwrap_or("store_temp").into(),
                        generic_args: vec![
                            GenericArg::Value(7.into()),
                            GenericArg::Value((-9).into()),
                            GenericArg::UserFunc(FunctionId::new(0)),
                            GenericArg::Libfunc(ConcreteLibfuncId::new(0)),
                        ],
                    },
                },
            ],
            statements: vec![
                Statement::Invocation(Invocation {
                    libfunc_id: ConcreteLibfuncId::new(0),
                    args: vec![VarId::new(0)],
                    branches: vec![
                        BranchInfo { target: BranchTarget::Fallthrough, results: vec![VarId::new(1)] },
                        BranchInfo { target: BranchTarget::Statement(StatementIdx(1)), results: vec![] },
                    ],
                }),
                Statement::Return(vec![VarId::new(1)]),
            ],
            funcs: vec![Function {
                id: FunctionId::new(0),
                signature: FunctionSignature { param_types: vec![ConcreteTypeId::new(0)], ret_types: vec![ConcreteTypeId::new(1)] },
                params: vec![Param { id: VarId::new(0), ty: ConcreteTypeId::new(0) }],
                entry_point: StatementIdx(0),
            }],
        };
        let raw = i_ser(v100, v200, &template).ok().and_then(|r| r.ok()).and_then(|f| i_decompress(&f[6..]).ok().flatten());
        if let Some(raw) = raw {
            let marker_word = ((BigUint::from(0x8000_0000_0000_000Fu64)) << 128) + big(1);
            let specials: Vec<BigUint> = vec![
                big(0),
                big(1),
                big(2),
                big(3),
                big(4),
                big(5),
                big(6),
                BigUint::one() << 36,
                BigUint::one() << 63,
                (BigUint::one() << 64) - big(2),
                (BigUint::one() << 64) - big(1),
                BigUint::one() << 64,
                BigUint::one() << 128,
                (BigUint::one() << 128) + big(2),
                (big(0x10) << 128) + big(2),
                marker_word,
                ((BigUint::one() << 64) << 128) + big(2),
                stark_prime() - big(1),
                (BigUint::one() << 256) + big(5),
            ];
            let step = if thorough { 1 } else { 2 };
            for k in 0..raw.len() {
                for (j, s) in specials.iter().enumerate() {
                    // quick tier: half of the (position, value) grid, chosen by the seed
                    if (k + j + seed as usize) % step != 0 {
                        continue;
                    }
                    let mut r = raw.clone();
                    r[k] = s.clone();
                    if let Some(f) = rewrap(&mut or, &vers0, &r) {
                        de_inputs.push((f, true));
                    }
                }
            }
            // generic-id felts: UTF-8 probes, keccaks of core ids (LONG_NAME_FIX as observed)
            let gid_pos: Vec<usize> = vec![1, raw.iter().position(|x| *x == BigUint::from_bytes_be(b"drop")).unwrap_or(1)];
            let mut probes: Vec<BigUint> = utf8_probes(&mut rng, 70 * mult).iter().map(|b| BigUint::from_bytes_be(b)).collect();
            for name in libfunc_ids.iter().chain(type_ids.iter()) {
                if name.len() >= 24 {
                    probes.push(starknet_keccak(name.as_bytes()));
                }
            }
            for name in &long_ids {
                probes.push(starknet_keccak(name.as_bytes()) + big(1));
                probes.push(BigUint::from_bytes_be(name.as_bytes()));
            }
            for (n, pb) in probes.iter().enumerate() {
                let mut r = raw.clone();
                r[gid_pos[n % 2]] = pb.clone();
                if let Some(f) = rewrap(&mut or, &vers0, &r) {
                    de_inputs.push((f, true));
                }
            }
        } else {
            or.fail("felt-roundtrip", "the de-leg template program is not serializable".into(), json!({"program": format!("{:?}", template)}));
        }
    }
    // (b) random mutations of the raw form of small programs
    let n_raw_mut = 1150 * mult;
    let mut sample_kinds: BTreeMap<String, u64> = BTreeMap::new();
    if !de_bases.is_empty() {
        for _ in 0..n_raw_mut {
            let (vers, raw) = rng.pick(&de_bases).clone();
            let mut r = raw;
            let mut kind = mutate_raw(&mut rng, &mut r).to_string();
            if rng.below(10) == 0 {
                kind = format!("{}+{}", kind, mutate_raw(&mut rng, &mut r));
            }
            *sample_kinds.entry(kind).or_insert(0) += 1;
            if let Some(f) = rewrap(&mut or, &vers, &r) {
                de_inputs.push((f, true));
            }
        }
    }
    // (c) the felt stream itself: truncation below 6 felts, version felts, compressed part
    let n_stream = 190 * mult;
    for _ in 0..n_stream {
        let k = rng.below(n_ser_outputs.max(1) as u64) as usize;
        let Some((base, _)) = de_inputs.get(k) else { break };
        if base.len() > 600 {
            continue;
        }
        let mut f = base.clone();
        match rng.below(12) {
            0 => f.truncate(rng.below(6) as usize),
            1 => f.truncate(6 + rng.below(3) as usize),
            2 => {
                let k = rng.below(6) as usize;
                f[k] = BigUint::one() << 64;
            }
            3 => {
                let k = rng.below(6) as usize;
                f[k] = (BigUint::one() << 64) - big(1);
            }
            4 => {
                let k = rng.below(6) as usize;
                f[k] = rand_bits(&mut rng, 252);
            }
            5 => {
                f.remove(rng.below(6) as usize);
            }
            6 => {
                f.insert(rng.below(7) as usize, big(rng.below(5)));
            }
            7 => {
                let n = f.len() as u64;
                f.truncate(rng.below(n) as usize);
            }
            8 => {
                for _ in 0..1 + rng.below(3) {
                    f.push(big(rng.below(300)));
                }
            }
            _ => {
                let k = 6 + rng.below(f.len().saturating_sub(6).max(1) as u64) as usize;
                if k < f.len() {
                    f[k] = special_felt(&mut rng, &f[k].clone());
                }
            }
        }
        de_inputs.push((f, true));
    }

    let mut de_sh = Sharder {
        dir: out_dir,
        leg: "de",
        long_tab: &long_tab,
        case_ty: "de_case",
        check: "check_de long_tab cases",
        extra: None,
        max_cases: 150,
        max_weight: 60_000,
        cur: vec![],
        cur_weight: 0,
        n_shards: 0,
        sizes: vec![],
    };
    let mut de_cases = 0;
    let mut de_accepted = 0;
    let mut de_mutants = 0;
    let mut de_mutants_accepted = 0;
    let mut distinct_de: HashSet<String> = HashSet::new();
    for (f, is_mutant) in &de_inputs {
        if *is_mutant {
            inflight(out_dir, "sierra_from_felt252s", f);
        }
        let res = match i_de(&wrap(f)) {
            Ok(r) => r,
            Err(pm) => {
                or.fail("de-panic", pm, hexes(f));
                None
            }
        };
        de_cases += 1;
        if *is_mutant {
            de_mutants += 1;
        }
        let ins = pr::n_list(f);
        let mut w = f.len();
        let r = match &res {
            Some((sv, cv, p)) => {
                de_accepted += 1;
                if *is_mutant {
                    de_mutants_accepted += 1;
                }
                w += pr::weight(p);
                format!("(Some ({}, {}, {}))", pr::version(sv), pr::version(cv), pr::program(p))
            }
            None => "None".to_string(),
        };
        let line = format!("({}, {})", ins, r);
        if *is_mutant && w < 90 {
            cand.push(format!("de: {} ==> {}", trunc(&ins, 200), trunc(&r, 240)));
        }
        distinct_de.insert(ins);
        de_sh.push(line, w);
    }
    de_sh.flush();
    take_samples(&mut samples, &mut cand);

    let _ = std::fs::remove_file(format!("{}/inflight.json", out_dir));
    // ================================================================ reports
    let oracle_failures = or.failures.len();
    std::fs::write(format!("{}/oracle_failures.json", out_dir), serde_json::to_string_pretty(&Value::Array(or.failures.clone())).unwrap()).unwrap();
    std::fs::write(format!("{}/samples.txt", out_dir), samples.join("\n") + "\n").unwrap();
    let summary = json!({
        "seed": seed,
        "tier": tier,
        "corpus_text_programs": corpus_text_programs,
        "corpus_classes": corpus_classes,
        "e2e_sierra_sections": e2e.len(),
        "e2e_parsed": e2e_parsed,
        "e2e_parse_failures": e2e_parse_failures,
        "e2e_used_in_debug_info_legs": e2e_used,
        "e2e_compiled_to_casm": e2e_compiled,
        "fresh_programs": fresh_files.len(),
        "fresh_parsed": fresh_parsed,
        "fresh_compiled_to_casm": fresh_compiled,
        "fresh_distinct_bracketed_function_names": fresh_bracketed_names.len(),
        "named_programs": named_progs.len(),
        "populate_cases": populate_cases,
        "corpus_programs_compiled_to_casm": casm_compiled,
        "corpus_parse_failures": corpus_parse_failures,
        "corpus_in_coq_legs": corpus_in_coq_legs,
        "corpus_in_coq_names": corpus_in_coq_names,
        "corpus_classes_in_coq_legs": corpus_classes_in_coq_legs,
        "max_raw_len_in_coq": max_raw_len_in_coq,
        "gen_programs": gen_progs.len(),
        "gen_programs_text_domain": gen_progs.iter().filter(|(_, t)| *t).count(),
        "boundary_programs": boundary.len(),
        "boundary_outcomes_accepted_refused": boundary_outcomes,
        "boundary_lossy": boundary_lossy,
        "compress_cases": compress_cases,
        "compress_big_cases": comp_big.len(),
        "decompress_cases": decompress_cases,
        "decompress_accepted": decompress_accepted,
        "ser_cases": ser_cases,
        "ser_accepted": ser_accepted,
        "ser_shard_sizes": ser_sh.sizes,
        "de_cases": de_cases,
        "de_accepted": de_accepted,
        "de_mutants": de_mutants,
        "de_mutants_accepted": de_mutants_accepted,
        "de_raw_mutation_kinds": sample_kinds,
        "de_shard_sizes": de_sh.sizes,
        "distinct_ser_programs": distinct_ser.len(),
        "distinct_de_inputs": distinct_de.len(),
        "distinct_compress_inputs": distinct_compress.len(),
        "distinct_decompress_inputs": distinct_decompress.len(),
        "generic_arg_kinds_seen": stats.kinds,
        "long_id_uses": stats.long_id_uses,
        "multi_branch_invocations": stats.multi_branch,
        "oracle_checks": or.checks,
        "oracle_failures": oracle_failures,
        "long_ids_supported": long_ids,
        "long_ids_rejected": long_ids_rejected.len(),
        "long_ids_rejected_names": long_ids_rejected,
        "core_libfunc_ids": libfunc_ids.len(),
        "core_type_ids": type_ids.len(),
        "text_leg_domain": "corpus programs as parsed (hashed ids with debug names) and with canonical numeric ids without debug names; generated programs without debug names whose generic ids are core ids that are PathLabels of the grammar (and none of its keywords), whose branch targets and entry points are < number of statements (the printer names statements by label and panics / prints an undefined label otherwise), and that have no function when they have no statement",
    });
    std::fs::write(format!("{}/summary.json", out_dir), serde_json::to_string_pretty(&summary).unwrap()).unwrap();
    println!(
        "h18 seed={} tier={} compress={} decompress={} (accepted {}) ser={} (accepted {}) de={} (accepted {}, mutants {} accepted {}) corpus={}+{} gen={} boundary={} oracle_checks={} oracle_failures={}",
        seed,
        tier,
        compress_cases,
        decompress_cases,
        decompress_accepted,
        ser_cases,
        ser_accepted,
        de_cases,
        de_accepted,
        de_mutants,
        de_mutants_accepted,
        corpus_text_programs,
        corpus_classes,
        gen_progs.len(),
        boundary.len(),
        or.checks.values().sum::<u64>(),
        oracle_failures
    );
}
