//! Inputs of the compress / decompress legs.
use num_bigint::BigUint;
use num_traits::{One, Zero};
use vcommon::Rng;

use crate::progs::{rand_bits, stark_prime};

fn big(n: u64) -> BigUint {
    BigUint::from(n)
}
fn pow2(k: u32) -> BigUint {
    BigUint::one() << k
}
/// Input shaping only: number of code words per felt for a padded code size (mirrors the
/// definition so that vector lengths can be put around its multiples).
pub fn words_per_felt(padded: u64) -> usize {
    let p = stark_prime();
    let mut m = big(padded);
    let mut c = 0;
    while m < p {
        m *= big(padded);
        c += 1;
    }
    c
}

/// Kind of values of a vector: half of the vectors hold small values (big literals are what
/// costs in Coq), the others one of the big kinds.
pub fn pick_kind(rng: &mut Rng) -> u64 {
    match rng.below(10) {
        0..=2 => 0,
        3 | 4 => 5,
        5 => 1,
        6 => 2,
        7 => 3,
        8 => 4,
        _ => 6,
    }
}
/// `n` distinct values of a given kind.
fn pool(rng: &mut Rng, n: usize, kind: u64) -> Vec<BigUint> {
    (0..n)
        .map(|i| {
            let i = i as u64;
            match kind {
                0 => big(i),
                1 => pow2(251) - big(i),
                2 => stark_prime() + big(i),
                3 => ((pow2(256) + rand_bits(rng, 200)) << 24) + big(i),
                4 => (rand_bits(rng, 228) << 24) + big(i),
                5 => big(i * 1000 + 7),
                // mixed
                _ => match i % 5 {
                    0 => big(i),
                    1 => stark_prime() - big(i),
                    2 => (rand_bits(rng, 64) << 24) + big(i),
                    3 => (pow2(256) << 24) + big(i),
                    _ => (rand_bits(rng, 227) << 24) + big(i),
                },
            }
        })
        .collect()
}
/// A vector of `len` elements with (when `len >= distinct`) exactly `distinct` distinct values.
pub fn vector(rng: &mut Rng, len: usize, distinct: usize, kind: u64, shuffle: bool) -> Vec<BigUint> {
    if len == 0 || distinct == 0 {
        return vec![];
    }
    let pl = pool(rng, distinct, kind);
    let mut v: Vec<BigUint> = vec![];
    for i in 0..len {
        if i < distinct && len >= distinct {
            v.push(pl[i].clone());
        } else {
            v.push(rng.pick(&pl).clone());
        }
    }
    if shuffle {
        for i in (1..v.len()).rev() {
            let j = rng.below(i as u64 + 1) as usize;
            v.swap(i, j);
        }
    }
    v
}

/// The vectors of the compress leg: (vector, is_big).
pub fn compress_inputs(rng: &mut Rng, thorough: bool) -> Vec<Vec<BigUint>> {
    let mut out: Vec<Vec<BigUint>> = vec![];
    out.push(vec![]);
    // single values
    for v in [
        BigUint::zero(),
        big(1),
        big(255),
        big(256),
        pow2(64) - big(1),
        pow2(64),
        pow2(128),
        pow2(251),
        stark_prime() - big(1),
        stark_prime(),
        stark_prime() + big(1),
        pow2(252),
        pow2(256),
        pow2(256) + rand_bits(rng, 255),
        pow2(300),
    ] {
        out.push(vec![v]);
    }
    // all equal
    let w256 = words_per_felt(256);
    for len in [2usize, 3, w256 - 1, w256, w256 + 1, 2 * w256 - 1, 2 * w256, 2 * w256 + 1, 100] {
        let k = pick_kind(rng);
        out.push(vector(rng, len, 1, k, false));
    }
    // lengths around the multiples of words-per-felt, <= 256 distinct values
    for len in [w256 - 1, w256, w256 + 1, 2 * w256 - 1, 2 * w256, 2 * w256 + 1, 3 * w256, 3 * w256 + 1] {
        for distinct in [2usize, 5, len / 2, len] {
            let k = pick_kind(rng);
            let sh = rng.bool();
            out.push(vector(rng, len, distinct.max(1), k, sh));
        }
    }
    // number of distinct values around powers of two
    let mut ds: Vec<usize> = vec![255, 256, 257, 511, 512, 513, 1023, 1024, 1025];
    if thorough {
        ds.extend([2047, 2048, 2049, 4095, 4096, 4097]);
    }
    for d in ds {
        let padded = (d.max(256)).next_power_of_two() as u64;
        let w = words_per_felt(padded);
        // small values keep the quadratic model fast
        out.push(vector(rng, d, d, 0, false));
        if d <= 1025 {
            out.push(vector(rng, d + w - (d % w) + 1, d, 5, true));
            let k = pick_kind(rng);
            let extra = rng.below(40) as usize;
            out.push(vector(rng, d + 1 + extra, d, k, true));
        }
    }
    // long vectors, few / many distinct values
    let longs: &[(usize, usize)] =
        if thorough { &[(1000, 3), (2000, 50), (3000, 300), (6000, 100), (10000, 40), (3000, 1000)] } else { &[(1000, 3), (2000, 50), (3000, 300), (1500, 700)] };
    for (len, d) in longs {
        let k = pick_kind(rng);
        out.push(vector(rng, *len, *d, k, true));
    }
    // random small vectors
    let n_small = if thorough { 1700 } else { 320 };
    for _ in 0..n_small {
        let len = match rng.below(10) {
            0 => rng.below(4) as usize,
            1..=6 => rng.below(40) as usize,
            _ => rng.below(130) as usize,
        };
        let distinct = if len == 0 { 0 } else { 1 + rng.below(len as u64) as usize };
        let k = pick_kind(rng);
        let sh = rng.bool();
        out.push(vector(rng, len, distinct, k, sh));
    }
    out
}

/// Mutants of one valid compressed vector `c` = [code_size, padding, code.., remaining, packed..].
pub fn decompress_mutants(rng: &mut Rng, c: &[BigUint], exhaustive_trunc: bool) -> Vec<Vec<BigUint>> {
    use num_traits::ToPrimitive;
    let mut out: Vec<Vec<BigUint>> = vec![];
    let cs = c[0].to_usize().unwrap();
    let hdr = [0usize, 1, 2 + cs];
    let specials = |v: &BigUint| -> Vec<BigUint> {
        let mut s = vec![v + big(1), BigUint::zero(), pow2(64) - big(1), pow2(64), pow2(63), pow2(40), pow2(200), v + big(2), v * big(2)];
        if !v.is_zero() {
            s.push(v - big(1));
        }
        s
    };
    for &h in &hdr {
        for s in specials(&c[h]) {
            let mut m = c.to_vec();
            m[h] = s;
            out.push(m);
        }
    }
    // padded sizes: not a power of two, < 256, other powers of two, overflow of usize
    for padded in [255u128, 128, 192, 257, 512, 1024, 1 << 32, 1 << 62, 1 << 63, (1 << 63) + 1, 1 << 64, (1 << 64) + 256] {
        if padded >= cs as u128 {
            let mut m = c.to_vec();
            m[1] = BigUint::from(padded - cs as u128);
            out.push(m);
        }
    }
    // truncations
    if exhaustive_trunc {
        for k in 0..c.len() {
            out.push(c[..k].to_vec());
        }
    } else {
        for _ in 0..8 {
            out.push(c[..rng.below(c.len() as u64) as usize].to_vec());
        }
    }
    // packed felts replaced
    let first_packed = 3 + cs;
    if c.len() > first_packed {
        for _ in 0..6 {
            let k = first_packed + rng.below((c.len() - first_packed) as u64) as usize;
            let mut m = c.to_vec();
            m[k] = match rng.below(7) {
                0 => rand_bits(rng, 252),
                1 => pow2(256) + rand_bits(rng, 256),
                2 => BigUint::zero(),
                3 => &c[k] + big(1),
                4 => {
                    if c[k].is_zero() {
                        big(1)
                    } else {
                        &c[k] - big(1)
                    }
                }
                5 => rand_bits(rng, 64),
                _ => &c[k] + pow2(8 * rng.below(30) as u32),
            };
            out.push(m);
        }
        // a packed felt removed
        let k = first_packed + rng.below((c.len() - first_packed) as u64) as usize;
        let mut m = c.to_vec();
        m.remove(k);
        out.push(m);
    }
    // extra trailing felts
    for n in 1..=3 {
        let mut m = c.to_vec();
        for _ in 0..n {
            m.push(if rng.bool() { big(rng.below(300)) } else { rand_bits(rng, 252) });
        }
        out.push(m);
    }
    // code entries removed / swapped / duplicated / changed
    if cs >= 1 {
        let k = 2 + rng.below(cs as u64) as usize;
        let mut m = c.to_vec();
        m.remove(k);
        out.push(m.clone());
        m[0] = big(cs as u64 - 1);
        out.push(m.clone());
        m[1] = &c[1] + big(1);
        out.push(m);
        let mut m = c.to_vec();
        m[k] = rand_bits(rng, 300);
        out.push(m);
        if cs >= 2 {
            let mut m = c.to_vec();
            m.swap(2, 2 + cs - 1);
            out.push(m);
            let mut m = c.to_vec();
            m[2] = c[3].clone();
            out.push(m);
        }
        // a code entry added
        let mut m = c.to_vec();
        m.insert(2 + cs, big(77));
        out.push(m.clone());
        m[0] = big(cs as u64 + 1);
        out.push(m.clone());
        if !c[1].is_zero() {
            m[1] = &c[1] - big(1);
            out.push(m);
        }
    }
    out
}

/// Short vectors built around the header layout, many of which are accepted.
pub fn decompress_random(rng: &mut Rng) -> Vec<BigUint> {
    let small = |rng: &mut Rng| -> BigUint {
        match rng.below(12) {
            0 => BigUint::zero(),
            1 => big(1),
            2 => big(2),
            3 => big(255),
            4 => big(256),
            5 => big(254),
            6 => big(rng.below(600)),
            7 => pow2(64) - big(1),
            8 => pow2(64),
            9 => rand_bits(rng, 252),
            10 => big(rng.below(5)),
            _ => big(31),
        }
    };
    if rng.below(3) == 0 {
        return (0..rng.below(9)).map(|_| small(rng)).collect();
    }
    let cs = rng.below(4);
    let padded: u64 = *rng.pick(&[256, 256, 256, 512, 255, 1024, 65536]);
    let mut v = vec![big(cs), big(padded - cs)];
    for _ in 0..cs {
        v.push(small(rng));
    }
    let w = words_per_felt(padded.max(2)) as u64;
    let npacked = rng.below(4);
    let rem = match rng.below(4) {
        0 => npacked * w,
        1 => npacked * w + 1,
        _ => rng.below(npacked * w + 2),
    };
    v.push(big(rem));
    for _ in 0..npacked {
        // code words that mostly stay below cs
        let mut pv = BigUint::zero();
        for _ in 0..w {
            pv = pv * big(padded) + big(if rng.below(12) == 0 { rng.below(padded) } else { rng.below(cs.max(1)) });
        }
        v.push(pv);
    }
    if rng.below(6) == 0 && !v.is_empty() {
        let k = rng.below(v.len() as u64) as usize;
        v[k] = small(rng);
    }
    v
}
