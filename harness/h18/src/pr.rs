//! Coq term printers for the types of `coq/C18/Serde.v` / `Corr.v`.
//! Numbers below 2^32 are printed in decimal, bigger ones as `(B [c0;c1;..]%uint63)`: little-endian
//! 60-bit chunks as primitive integers (Corr.v `B`, `ZB`, `ZBn`) - decimal literals parse
//! quadratically in Coq 8.16 and even a hex literal of 250 bits costs 5 ms; strings are printed
//! as their UTF-8 bytes.
use cairo_lang_sierra::ids::UserTypeId;
use cairo_lang_sierra::program::*;
use cairo_lang_starknet_classes::compiler_version::VersionId;
use cairo_lang_utils::bigint::BigUintAsHex;
use num_bigint::{BigInt, BigUint, Sign};

/// little-endian 60-bit chunks, as a Coq list of primitive integers
fn chunks60(v: &BigUint) -> String {
    let mask = (BigUint::from(1u8) << 60) - BigUint::from(1u8);
    let mut v = v.clone();
    let mut cs = vec![];
    while v.bits() > 0 {
        cs.push((&v & &mask).iter_u64_digits().next().unwrap_or(0).to_string());
        v >>= 60;
    }
    format!("[{}]%uint63", cs.join(";"))
}
pub fn n_lit(v: &BigUint) -> String {
    if v.bits() <= 32 { v.to_string() } else { format!("(B {})", chunks60(v)) }
}
pub fn n_u64(v: u64) -> String {
    n_lit(&BigUint::from(v))
}
pub fn z_lit(v: &BigInt) -> String {
    let m = v.magnitude();
    match (v.sign() == Sign::Minus, m.bits() <= 32) {
        (false, true) => m.to_string(),
        (true, true) => format!("(-{})", m),
        (false, false) => format!("(ZB {})", chunks60(m)),
        (true, false) => format!("(ZBn {})", chunks60(m)),
    }
}
pub fn list(xs: &[String]) -> String {
    format!("[{}]", xs.join("; "))
}
pub fn bytes(s: &str) -> String {
    list(&s.as_bytes().iter().map(|b| b.to_string()).collect::<Vec<_>>())
}
pub fn n_list(xs: &[BigUint]) -> String {
    list(&xs.iter().map(n_lit).collect::<Vec<_>>())
}
pub fn felts(xs: &[BigUintAsHex]) -> String {
    list(&xs.iter().map(|x| n_lit(&x.value)).collect::<Vec<_>>())
}
/// ConcreteTypeId / ConcreteLibfuncId / VarId / FunctionId
pub fn id(i: u64, dbg: Option<&str>) -> String {
    match dbg {
        None => format!("(i_ {})", n_u64(i)),
        Some(s) => format!("(id_ {} {})", n_u64(i), bytes(s)),
    }
}
macro_rules! idp {
    ($e:expr) => {
        id($e.id, $e.debug_name.as_deref())
    };
}
pub fn ut(u: &UserTypeId) -> String {
    match u.debug_name.as_deref() {
        None => format!("(ut_ {})", n_lit(&u.id)),
        Some(s) => format!("(utd_ {} {})", n_lit(&u.id), bytes(s)),
    }
}
pub fn garg(g: &GenericArg) -> String {
    match g {
        GenericArg::UserType(u) => format!("(GUserType {})", ut(u)),
        GenericArg::Type(t) => format!("(GType {})", idp!(t)),
        GenericArg::Value(v) => format!("(GValue {})", z_lit(v)),
        GenericArg::UserFunc(f) => format!("(GUserFunc {})", idp!(f)),
        GenericArg::Libfunc(l) => format!("(GLibfunc {})", idp!(l)),
    }
}
fn gargs(a: &[GenericArg]) -> String {
    list(&a.iter().map(garg).collect::<Vec<_>>())
}
fn b(x: bool) -> &'static str {
    if x { "true" } else { "false" }
}
pub fn type_decl(d: &TypeDeclaration) -> String {
    let info = match &d.declared_type_info {
        None => "None".to_string(),
        Some(i) => format!("(ti_ {} {} {} {})", b(i.storable), b(i.droppable), b(i.duplicatable), b(i.zero_sized)),
    };
    format!(
        "(Build_type_decl {} {} {} {})",
        idp!(d.id),
        bytes(d.long_id.generic_id.0.as_str()),
        gargs(&d.long_id.generic_args),
        info
    )
}
pub fn libfunc_decl(d: &LibfuncDeclaration) -> String {
    format!(
        "(Build_libfunc_decl {} {} {})",
        idp!(d.id),
        bytes(d.long_id.generic_id.0.as_str()),
        gargs(&d.long_id.generic_args)
    )
}
pub fn branch(br: &BranchInfo) -> String {
    let t = match &br.target {
        BranchTarget::Fallthrough => "Fallthrough".to_string(),
        BranchTarget::Statement(i) => format!("(Target {})", n_u64(i.0 as u64)),
    };
    format!("(Build_branch {} {})", t, list(&br.results.iter().map(|v| idp!(v)).collect::<Vec<_>>()))
}
pub fn statement(s: &Statement) -> String {
    match s {
        Statement::Invocation(i) => format!(
            "(Invocation {} {} {})",
            idp!(i.libfunc_id),
            list(&i.args.iter().map(|v| idp!(v)).collect::<Vec<_>>()),
            list(&i.branches.iter().map(branch).collect::<Vec<_>>())
        ),
        Statement::Return(vs) => format!("(Return {})", list(&vs.iter().map(|v| idp!(v)).collect::<Vec<_>>())),
    }
}
pub fn func(f: &Function) -> String {
    format!(
        "(Build_func {} {} {} {} {})",
        idp!(f.id),
        list(&f.signature.param_types.iter().map(|t| idp!(t)).collect::<Vec<_>>()),
        list(&f.signature.ret_types.iter().map(|t| idp!(t)).collect::<Vec<_>>()),
        list(&f.params.iter().map(|p| format!("(Build_param {} {})", idp!(p.id), idp!(p.ty))).collect::<Vec<_>>()),
        n_u64(f.entry_point.0 as u64)
    )
}
pub fn program(p: &Program) -> String {
    format!(
        "(Build_program {} {} {} {})",
        list(&p.type_declarations.iter().map(type_decl).collect::<Vec<_>>()),
        list(&p.libfunc_declarations.iter().map(libfunc_decl).collect::<Vec<_>>()),
        list(&p.statements.iter().map(statement).collect::<Vec<_>>()),
        list(&p.funcs.iter().map(func).collect::<Vec<_>>())
    )
}
pub fn version(v: &VersionId) -> String {
    format!("({}, {}, {})", n_u64(v.major as u64), n_u64(v.minor as u64), n_u64(v.patch as u64))
}
pub fn opt(o: Option<String>) -> String {
    match o {
        Some(s) => format!("(Some {})", s),
        None => "None".into(),
    }
}

/// Rough number of printed nodes of a program (used to cap the size of a shard).
pub fn weight(p: &Program) -> usize {
    let mut n = 4;
    for d in &p.type_declarations {
        n += 3 + d.long_id.generic_args.len();
    }
    for d in &p.libfunc_declarations {
        n += 2 + d.long_id.generic_args.len();
    }
    for s in &p.statements {
        n += match s {
            Statement::Invocation(i) => 3 + i.args.len() + i.branches.iter().map(|b| 2 + b.results.len()).sum::<usize>(),
            Statement::Return(v) => 2 + v.len(),
        };
    }
    for f in &p.funcs {
        n += 4 + f.signature.param_types.len() + f.signature.ret_types.len() + 2 * f.params.len();
    }
    n
}

/// Writes one case shard.
#[allow(clippy::too_many_arguments)]
pub fn write_shard(
    dir: &str,
    leg: &str,
    idx: usize,
    long_tab: &str,
    case_ty: Option<&str>,
    check: &str,
    cases: &[String],
    extra: Option<&str>,
) {
    let mut s = String::new();
    s.push_str("From C18 Require Import Corr.\nLocal Open Scope N_scope.\n");
    s.push_str(&format!("Definition long_tab : long_tab_t := {}.\n", long_tab));
    if let Some(ty) = case_ty {
        s.push_str(&format!("Definition cases : list {} := [\n", ty));
        s.push_str(&cases.join(";\n"));
        s.push_str("\n].\n");
    }
    s.push_str(&format!("Definition bad := Eval vm_compute in {}.\nPrint bad.\n", check));
    if let Some(e) = extra {
        s.push_str(e);
        s.push('\n');
    }
    std::fs::write(format!("{}/{}_{:03}.v", dir, leg, idx), s).unwrap();
}
