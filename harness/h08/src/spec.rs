//! Impl-level oracle for the second sentence of the property, written from the property text and
//! independent of the demand analysis: forward execution of a lowered function along its paths
//! with a store of values.  A path is bad if a value is moved twice (a non-copyable variable used
//! after its value was moved) or if, at the end of the path (Return, Panic, or a panicable call that
//! panics), a value that was never used is neither Drop nor Destruct nor - on a panicking end -
//! PanicDestruct.  A crate without error diagnostics that has a function with a bad path is a
//! failing input of the property.  (Same semantics as coq/C08/Spec.v; paths are enumerated
//! depth-first up to a budget, so the oracle can miss but not invent a bad path.)
use std::collections::HashMap;

#[derive(Clone, Debug)]
pub struct SStmt { pub ins: Vec<usize>, pub outs: Vec<usize>, pub panicable_call: bool }
#[derive(Clone, Debug)]
pub enum SEnd {
    NotSet,
    Return(Vec<usize>),
    Panic(usize),
    Goto(usize, Vec<(usize, usize)>),
    Match(Vec<usize>, Vec<(usize, Vec<usize>)>),
}
#[derive(Clone, Debug)]
pub struct SBlock { pub stmts: Vec<SStmt>, pub end: SEnd }
#[derive(Clone, Debug, Default)]
pub struct SFn {
    pub params: Vec<usize>,
    pub is_panic_destruct_fn: bool,
    /// copyable, droppable, destruct, panic_destruct
    pub flags: Vec<(bool, bool, bool, bool)>,
    pub blocks: Vec<SBlock>,
}

#[derive(Clone, Copy, PartialEq, Eq)]
enum St { Unused, Used, Moved }
#[derive(Clone)]
struct State { env: HashMap<usize, usize>, vals: Vec<(usize, St)> }

#[derive(Clone, Debug)]
pub struct BadPath { pub what: String, pub var: usize, pub blocks: Vec<usize>, pub ends: String }

struct Explorer<'a> { f: &'a SFn, budget: usize, found: Option<BadPath> }

impl<'a> Explorer<'a> {
    fn flags(&self, v: usize) -> (bool, bool, bool, bool) { self.f.flags.get(v).copied().unwrap_or((false, false, false, false)) }
    /// Err(x): x is used after its value was moved
    fn use_var(&self, s: &mut State, x: usize) -> Result<(), usize> {
        let Some(&i) = s.env.get(&x) else { return Ok(()) };
        let (o, st) = s.vals[i];
        if self.flags(x).0 {
            if st == St::Unused { s.vals[i] = (o, St::Used); }
            Ok(())
        } else if st == St::Moved {
            Err(x)
        } else {
            s.vals[i] = (o, St::Moved);
            Ok(())
        }
    }
    fn bind(&self, s: &mut State, x: usize) {
        s.env.insert(x, s.vals.len());
        s.vals.push((x, St::Unused));
    }
    fn end_check(&self, s: &State, panicky: bool) -> Option<usize> {
        s.vals.iter().find(|(o, st)| {
            let (_, d, ds, pd) = self.flags(*o);
            *st == St::Unused && !(d || ds || (panicky && pd))
        }).map(|(o, _)| *o)
    }
    fn report(&mut self, what: &str, var: usize, path: &[usize], ends: String) {
        if self.found.is_none() {
            self.found = Some(BadPath { what: what.to_string(), var, blocks: path.to_vec(), ends });
        }
    }
    fn uses_then_end(&mut self, s: &State, us: &[usize], panicky: bool, path: &[usize], ends: String) {
        let mut s = s.clone();
        for u in us {
            if let Err(x) = self.use_var(&mut s, *u) { self.report("use after move", x, path, ends); return; }
        }
        if let Some(o) = self.end_check(&s, panicky) { self.report("value goes out of scope, neither droppable nor destructible", o, path, ends); }
    }
    fn run(&mut self, b: usize, mut s: State, path: &mut Vec<usize>) {
        if self.found.is_some() || self.budget == 0 { return; }
        self.budget -= 1;
        let Some(blk) = self.f.blocks.get(b) else { return };
        path.push(b);
        for (k, st) in blk.stmts.iter().enumerate() {
            if st.panicable_call {
                self.uses_then_end(&s, &st.ins, true, path, format!("statement {k} of blk{b} (a panicable call) panics"));
                if self.found.is_some() { path.pop(); return; }
            }
            for u in &st.ins {
                if let Err(x) = self.use_var(&mut s, *u) {
                    self.report("use after move", x, path, format!("statement {k} of blk{b}"));
                    path.pop();
                    return;
                }
            }
            for o in st.outs.iter().rev() { self.bind(&mut s, *o); }
        }
        match &blk.end {
            SEnd::NotSet => {}
            SEnd::Return(vs) => self.uses_then_end(&s, vs, self.f.is_panic_destruct_fn, path, format!("return of blk{b}")),
            SEnd::Panic(v) => self.uses_then_end(&s, &[*v], true, path, format!("panic of blk{b}")),
            SEnd::Goto(t, r) => {
                for (dst, src) in r {
                    if let Some(&i) = s.env.get(src) { s.env.insert(*dst, i); }
                }
                self.run(*t, s, path);
            }
            SEnd::Match(ins, arms) => {
                let mut bad = None;
                for u in ins { if let Err(x) = self.use_var(&mut s, *u) { bad = Some(x); break; } }
                if let Some(x) = bad {
                    self.report("use after move", x, path, format!("match of blk{b}"));
                } else {
                    for (t, vars) in arms {
                        let mut s2 = s.clone();
                        for v in vars.iter().rev() { self.bind(&mut s2, *v); }
                        self.run(*t, s2, path);
                        if self.found.is_some() { break; }
                    }
                }
            }
        }
        path.pop();
    }
}

/// The first bad path found within the budget (number of block visits), if any.
pub fn find_bad_path(f: &SFn, budget: usize) -> Option<BadPath> {
    if f.blocks.is_empty() { return None; }
    let mut ex = Explorer { f, budget, found: None };
    let mut s = State { env: HashMap::new(), vals: vec![] };
    for p in f.params.iter().rev() { ex.bind(&mut s, *p); }
    let mut path = vec![];
    ex.run(0, s, &mut path);
    ex.found
}
