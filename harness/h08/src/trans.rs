//! Translator: prints the very `Lowered` the borrow checker receives
//! (`db.function_with_body_lowering(f)`, main and generated bodies of every function of a crate)
//! as a Coq term of `C08.Lowered.lowered`, together with what the real `borrow_check` answered
//! (`db.borrow_check(f).diagnostics.get_all()`: kind + stable location).
use std::collections::HashMap;
use std::fmt::Write as _;

use cairo_lang_defs as defs;
use cairo_lang_defs::db::DefsGroup;
use cairo_lang_defs::diagnostic_utils::StableLocation;
use cairo_lang_defs::ids::ModuleItemId;
use cairo_lang_filesystem::ids::CrateId;
use cairo_lang_lowering::db::LoweringGroup;
use cairo_lang_lowering::diagnostic::LoweringDiagnosticKind;
use cairo_lang_lowering::ids::{FunctionWithBodyId, FunctionWithBodyLongId};
use cairo_lang_filesystem::flag::FlagsGroup;
use cairo_lang_lowering::{BlockEnd, DependencyType, Lowered, LoweringStage, Statement, VarUsage};
use cairo_lang_semantic::items::imp::ImplSemantic;
use cairo_lang_semantic::items::trt::TraitSemantic;
use cairo_lang_utils::Intern;
use salsa::Database;

#[derive(Default, Clone, Debug)]
pub struct FnStats {
    pub blocks: usize,
    pub stmts: usize,
    pub vars: usize,
    pub matches: usize,
    pub gotos_with_remap: usize,
    pub panicable_calls: usize,
    pub noncopy_vars: usize,
    pub nondrop_vars: usize,
    pub remap_dst_is_src: usize,
    pub shared_arm_blocks: usize,
}

pub struct FnCase {
    pub name: String,
    pub coq: String,
    /// (kind, location key): 0 VariableMoved, 1 VariableNotDropped, 2 DesnappingANonCopyableType,
    /// 3 anything else
    pub expected: Vec<(u8, usize)>,
    pub lowering_has_errors: bool,
    /// flag_add_withdraw_gas && in_cycle(f, Cost): the condition of db.rs for the extra
    /// borrow_check_possible_withdraw_gas, evaluated for the function itself
    pub withdraw_gas_check: bool,
    /// location keys of the VariableNotDropped entries of function_with_body_lowering_diagnostics(f)
    pub fn_not_dropped: Vec<usize>,
    pub stats: FnStats,
    /// the same function for the path oracle (spec.rs)
    pub sfn: crate::spec::SFn,
    /// structural fingerprint (for counting distinct cases)
    pub fingerprint: u64,
}

/// All functions with a body of the crate, as the lowering diagnostics query enumerates them
/// (free functions, trait functions with a default body, impl functions), and their generated
/// functions (loops, closures).
pub fn crate_functions<'db>(db: &'db dyn Database, crate_id: CrateId<'db>) -> Vec<FunctionWithBodyId<'db>> {
    let mut res = vec![];
    for module_id in db.crate_modules(crate_id).iter() {
        let Ok(data) = module_id.module_data(db) else { continue };
        let mut sem: Vec<defs::ids::FunctionWithBodyId<'db>> = vec![];
        for item in data.items(db).iter() {
            match item {
                ModuleItemId::FreeFunction(f) => sem.push(defs::ids::FunctionWithBodyId::Free(*f)),
                ModuleItemId::Trait(t) => {
                    if let Ok(fs) = db.trait_functions(*t) {
                        for tf in fs.values() {
                            if matches!(db.trait_function_body(*tf), Ok(Some(_))) {
                                sem.push(defs::ids::FunctionWithBodyId::Trait(*tf));
                            }
                        }
                    }
                }
                ModuleItemId::Impl(i) => {
                    if let Ok(fs) = db.impl_functions(*i) {
                        for f in fs.values() {
                            sem.push(defs::ids::FunctionWithBodyId::Impl(*f));
                        }
                    }
                }
                _ => {}
            }
        }
        for s in sem {
            let Ok(multi) = db.priv_function_with_body_multi_lowering(s) else { continue };
            res.push(FunctionWithBodyLongId::Semantic(s).intern(db));
            for (key, _) in multi.generated_lowerings.iter() {
                res.push(FunctionWithBodyLongId::Generated { parent: s, key: *key }.intern(db));
            }
        }
    }
    res
}

struct Locs<'db> {
    map: HashMap<StableLocation<'db>, usize>,
}
impl<'db> Locs<'db> {
    fn key(&mut self, l: StableLocation<'db>) -> usize {
        let n = self.map.len();
        *self.map.entry(l).or_insert(n)
    }
}

fn hash_str(s: &str) -> u64 {
    let mut h: u64 = 0xcbf29ce484222325;
    for b in s.bytes() { h ^= b as u64; h = h.wrapping_mul(0x100000001b3); }
    h
}

fn us<'db>(db: &'db dyn Database, locs: &mut Locs<'db>, u: &VarUsage<'db>) -> String {
    format!("({},{})", u.var_id.index(), locs.key(u.location.long(db).stable_location))
}
fn uss<'db>(db: &'db dyn Database, locs: &mut Locs<'db>, v: &[VarUsage<'db>]) -> String {
    format!("[{}]", v.iter().map(|u| us(db, locs, u)).collect::<Vec<_>>().join(";"))
}

/// Ok(None): the function has no lowering (semantic errors) - the borrow checker does not run on it.
pub fn translate<'db>(db: &'db dyn Database, f: FunctionWithBodyId<'db>, name: String) -> Result<Option<FnCase>, String> {
    let Ok(lowered) = db.function_with_body_lowering(f) else { return Ok(None) };
    let lowered: &Lowered<'db> = lowered;
    // the two other inputs of borrow_check_tracked (db.rs); they fail only together with the lowering
    let Ok(is_pd) = f.to_concrete(db).and_then(|c| c.is_panic_destruct_fn(db)) else { return Ok(None) };
    let Ok(bc) = db.borrow_check(f) else { return Ok(None) };
    let mut locs = Locs { map: HashMap::new() };
    let mut st = FnStats::default();
    let vs = |v: &[cairo_lang_lowering::VariableId]| -> String {
        format!("[{}]", v.iter().map(|x| x.index().to_string()).collect::<Vec<_>>().join(";"))
    };
    let mut blocks = vec![];
    let mut sfn = crate::spec::SFn { params: lowered.parameters.iter().map(|v| v.index()).collect(), is_panic_destruct_fn: is_pd, flags: vec![], blocks: vec![] };
    let mut arm_targets: HashMap<usize, usize> = HashMap::new();
    for (_, b) in lowered.blocks.iter() {
        st.blocks += 1;
        let mut ss = vec![];
        let mut sstmts = vec![];
        for s in &b.statements {
            st.stmts += 1;
            let t = match s {
                Statement::Const(c) => format!("SConst {}", c.output.index()),
                Statement::Call(c) => {
                    // exactly the test `visit_stmt` makes
                    let panicable = matches!(c.function.signature(db, LoweringStage::Monomorphized), Ok(sig) if sig.panicable);
                    if panicable { st.panicable_calls += 1; }
                    format!("SCall {} {} {} {}", panicable, locs.key(c.location.long(db).stable_location),
                        uss(db, &mut locs, &c.inputs), vs(&c.outputs))
                }
                Statement::StructConstruct(c) => format!("SStructConstruct {} {}", uss(db, &mut locs, &c.inputs), c.output.index()),
                Statement::StructDestructure(c) => format!("SStructDestructure {} {}", us(db, &mut locs, &c.input), vs(&c.outputs)),
                Statement::EnumConstruct(c) => format!("SEnumConstruct {} {}", us(db, &mut locs, &c.input), c.output.index()),
                Statement::Snapshot(c) => format!("SSnapshot {} {} {}", us(db, &mut locs, &c.input), c.original().index(), c.snapshot().index()),
                Statement::Desnap(c) => format!("SDesnap {} {}", us(db, &mut locs, &c.input), c.output.index()),
                Statement::IntoBox(c) => format!("SIntoBox {} {}", us(db, &mut locs, &c.input), c.output.index()),
                Statement::Unbox(c) => format!("SUnbox {} {}", us(db, &mut locs, &c.input), c.output.index()),
            };
            // the checker reads Statement::inputs()/outputs(); the model derives them from the printed
            // fields (Lowered.v stmt_inputs / stmt_outputs): make sure both views agree
            let (mi, mo): (Vec<usize>, Vec<usize>) = match s {
                Statement::Const(c) => (vec![], vec![c.output.index()]),
                Statement::Call(c) => (c.inputs.iter().map(|u| u.var_id.index()).collect(), c.outputs.iter().map(|v| v.index()).collect()),
                Statement::StructConstruct(c) => (c.inputs.iter().map(|u| u.var_id.index()).collect(), vec![c.output.index()]),
                Statement::StructDestructure(c) => (vec![c.input.var_id.index()], c.outputs.iter().map(|v| v.index()).collect()),
                Statement::EnumConstruct(c) => (vec![c.input.var_id.index()], vec![c.output.index()]),
                Statement::Snapshot(c) => (vec![c.input.var_id.index()], vec![c.original().index(), c.snapshot().index()]),
                Statement::Desnap(c) => (vec![c.input.var_id.index()], vec![c.output.index()]),
                Statement::IntoBox(c) => (vec![c.input.var_id.index()], vec![c.output.index()]),
                Statement::Unbox(c) => (vec![c.input.var_id.index()], vec![c.output.index()]),
            };
            let ri: Vec<usize> = s.inputs().iter().map(|u| u.var_id.index()).collect();
            let ro: Vec<usize> = s.outputs().iter().map(|v| v.index()).collect();
            if mi != ri || mo != ro {
                return Err(format!("translator out of date: Statement::inputs()/outputs() of {name} differ from the fields the model reads"));
            }
            ss.push(t);
            sstmts.push(crate::spec::SStmt { ins: ri, outs: ro, panicable_call: matches!(s, Statement::Call(c) if matches!(c.function.signature(db, LoweringStage::Monomorphized), Ok(sig) if sig.panicable)) });
        }
        let e = match &b.end {
            BlockEnd::NotSet => "ENotSet".to_string(),
            BlockEnd::Return(v, _) => format!("EReturn {}", uss(db, &mut locs, v)),
            BlockEnd::Panic(u) => format!("EPanic {}", us(db, &mut locs, u)),
            BlockEnd::Goto(t, r) => {
                if !r.is_empty() { st.gotos_with_remap += 1; }
                let srcs: Vec<usize> = r.iter().map(|(_, u)| u.var_id.index()).collect();
                st.remap_dst_is_src += r.iter().filter(|(d, _)| srcs.contains(&d.index())).count();
                format!("EGoto {} [{}]", t.0,
                    r.iter().map(|(d, u)| format!("({},{})", d.index(), us(db, &mut locs, u))).collect::<Vec<_>>().join(";"))
            }
            BlockEnd::Match { info } => {
                st.matches += 1;
                for a in info.arms() { *arm_targets.entry(a.block_id.0).or_insert(0) += 1; }
                format!("EMatch {} {} [{}]", locs.key(info.location().long(db).stable_location),
                    uss(db, &mut locs, info.inputs()),
                    info.arms().iter().map(|a| format!("({},{})", a.block_id.0, vs(&a.var_ids))).collect::<Vec<_>>().join(";"))
            }
        };
        blocks.push(format!("Blk [{}] ({})", ss.join("; "), e));
        let ix = |v: &[VarUsage<'db>]| -> Vec<usize> { v.iter().map(|u| u.var_id.index()).collect() };
        let send = match &b.end {
            BlockEnd::NotSet => crate::spec::SEnd::NotSet,
            BlockEnd::Return(v, _) => crate::spec::SEnd::Return(ix(v)),
            BlockEnd::Panic(u) => crate::spec::SEnd::Panic(u.var_id.index()),
            BlockEnd::Goto(t, r) => crate::spec::SEnd::Goto(t.0, r.iter().map(|(d, u)| (d.index(), u.var_id.index())).collect()),
            BlockEnd::Match { info } => crate::spec::SEnd::Match(ix(info.inputs()),
                info.arms().iter().map(|a| (a.block_id.0, a.var_ids.iter().map(|v| v.index()).collect())).collect()),
        };
        sfn.blocks.push(crate::spec::SBlock { stmts: sstmts, end: send });
    }
    st.shared_arm_blocks = arm_targets.values().filter(|n| **n > 1).count();
    let mut vars = vec![];
    for (_, v) in lowered.variables.iter() {
        st.vars += 1;
        let (c, d, ds, pd) = (v.info.copyable.is_ok(), v.info.droppable.is_ok(), v.info.destruct_impl.is_ok(), v.info.panic_destruct_impl.is_ok());
        if !c { st.noncopy_vars += 1; }
        if !d { st.nondrop_vars += 1; }
        sfn.flags.push((c, d, ds, pd));
        vars.push(format!("mkv {} {} {} {} {}", c, d, ds, pd, locs.key(v.location.long(db).stable_location)));
    }
    let mut coq = String::new();
    write!(coq, "Low {} {} [{}] [{}]", vs(&lowered.parameters), is_pd, vars.join("; "), blocks.join(";\n    ")).unwrap();
    let mut expected = vec![];
    for d in bc.diagnostics.get_all() {
        let k = match d.kind {
            LoweringDiagnosticKind::VariableMoved { .. } => 0,
            LoweringDiagnosticKind::VariableNotDropped { .. } => 1,
            LoweringDiagnosticKind::DesnappingANonCopyableType { .. } => 2,
            _ => 3,
        };
        expected.push((k, locs.key(d.location.stable_location)));
    }
    let withdraw_gas_check = db.flag_add_withdraw_gas() && matches!(db.in_cycle(f, DependencyType::Cost), Ok(true));
    let mut fn_not_dropped = vec![];
    for d in db.function_with_body_lowering_diagnostics(f).get_all() {
        if matches!(d.kind, LoweringDiagnosticKind::VariableNotDropped { .. }) {
            fn_not_dropped.push(locs.key(d.location.stable_location));
        }
    }
    let fingerprint = hash_str(&format!("{coq}{withdraw_gas_check}"));
    Ok(Some(FnCase { name, coq, expected, lowering_has_errors: lowered.diagnostics.has_errors(), withdraw_gas_check, fn_not_dropped, stats: st, sfn, fingerprint }))
}
