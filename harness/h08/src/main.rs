//! h08 <out_dir> <quick|thorough>
//!
//! Inputs: every `cairo_code` section of /repo/crates/cairo-lang-lowering/src/{borrow_check/,}test_data/*,
//! /repo/examples/*.cairo, generated crates (gen.rs) and, per generated crate, mutants with an
//! injected use-after-move / missing drop.  One crate per input, all in one database per
//! configuration.
//!
//! Outputs:
//!  * translator + correspondence: `bc_<nnn>.v` (the Lowered of every function + what the real
//!    borrow checker reported), evaluated in Coq against the model `C08.Borrow.borrow_check`;
//!  * impl-level oracle (decides the property on the code), `oracle_failures.json`:
//!      (i)  every crate without error diagnostics compiles: Sierra generation, ProgramRegistry
//!           (Sierra validation), metadata, CASM - under every configuration, without panic;
//!      (ii) every crate with an injected ownership violation has an error diagnostic;
//!      and no panic while computing diagnostics.
mod pgen;
mod place;
mod simpl;
mod spec;
mod trans;

use std::collections::{BTreeMap, BTreeSet};
use std::fmt::Write as _;
use std::panic::AssertUnwindSafe;
use std::path::{Path, PathBuf};
use std::sync::{Arc, Mutex};

use cairo_lang_compiler::db::RootDatabase;
use cairo_lang_compiler::diagnostics::DiagnosticsReporter;
use cairo_lang_compiler::project::setup_single_file_project;
use cairo_lang_compiler::{CompilerConfig, compile_prepared_db_program_artifact};
use cairo_lang_diagnostics::Severity;
use cairo_lang_filesystem::cfg::{Cfg, CfgSet};
use cairo_lang_filesystem::db::init_dev_corelib;
use cairo_lang_filesystem::ids::CrateInput;
use cairo_lang_lowering::optimizations::config::Optimizations;
use cairo_lang_lowering::utils::InliningStrategy;
use cairo_lang_sierra_to_casm::compiler::SierraToCasmConfig;
use cairo_lang_sierra_to_casm::metadata::{MetadataComputationConfig, calc_metadata, calc_metadata_ap_change_only};
use cairo_lang_sierra_type_size::ProgramRegistryInfo;
use cairo_lang_utils::Intern;
use serde_json::json;
use vcommon::{Rng, catch};

/// the tree under test (a scratch worktree when a seeded change is evaluated)
fn repo() -> String { std::env::var("VERIF_REPO").unwrap_or_else(|_| "/repo".to_string()) }

#[derive(Clone)]
struct Unit {
    name: String,
    origin: String,
    text: String,
    inject: Option<pgen::Inject>,
    /// generated base program (expected to be accepted; measured)
    gen_base: bool,
}

impl Unit {
    fn declares_externs(&self) -> bool {
        self.text.lines().any(|l| { let l = l.trim_start(); l.starts_with("extern fn") || l.starts_with("extern type") || l.contains(" extern fn ") || l.contains(" extern type ") })
    }
}

#[derive(Clone, Copy, Debug)]
struct Config {
    name: &'static str,
    opt: u8,
    gas: bool,
}
const CONFIGS: [Config; 4] = [
    Config { name: "default-inlining+gas", opt: 0, gas: true },
    Config { name: "avoid-inlining+no-gas", opt: 1, gas: false },
    Config { name: "optimizations-disabled+gas", opt: 2, gas: true },
    Config { name: "inline-all+skip-const-folding+no-gas", opt: 3, gas: false },
];

fn build_db(c: Config) -> RootDatabase {
    let mut b = RootDatabase::builder();
    if !c.gas {
        b.skip_auto_withdraw_gas().with_cfg(CfgSet::from_iter([Cfg::kv("gas", "disabled")]));
    }
    let opt = match c.opt {
        0 => Optimizations::enabled_with_default_movable_functions(InliningStrategy::Default),
        1 => Optimizations::enabled_with_default_movable_functions(InliningStrategy::Avoid),
        2 => Optimizations::Disabled,
        _ => match Optimizations::enabled_with_default_movable_functions(InliningStrategy::InlineSmallFunctions(200)) {
            Optimizations::Enabled(cfg) => Optimizations::Enabled(cfg.with_skip_const_folding(true)),
            o => o,
        },
    };
    b.with_optimizations(opt);
    let mut db = b.build().expect("RootDatabase");
    init_dev_corelib(&mut db, PathBuf::from(format!("{}/corelib/src", repo())));
    db
}

// ---------- inputs ----------
fn test_data_units() -> Vec<Unit> {
    let mut res = vec![];
    let mut files: Vec<PathBuf> = vec![];
    let lowering = format!("{}/crates/cairo-lang-lowering/src", repo());
    for d in [format!("{lowering}/borrow_check/test_data"), format!("{lowering}/test_data")] {
        let mut fs: Vec<PathBuf> = std::fs::read_dir(&d).map(|r| r.filter_map(|e| e.ok().map(|e| e.path())).collect()).unwrap_or_default();
        fs.retain(|p| p.is_file());
        fs.sort();
        files.extend(fs);
    }
    for f in files {
        let Ok(s) = std::fs::read_to_string(&f) else { continue };
        let stem = f.file_name().unwrap().to_string_lossy().to_string();
        let tag = if f.to_string_lossy().contains("borrow_check/") { "bc" } else { "lw" };
        let mut cur: Option<String> = None;
        let mut buf = String::new();
        let mut k = 0;
        let flush = |cur: &Option<String>, buf: &mut String, k: &mut usize, res: &mut Vec<Unit>| {
            if cur.as_deref() == Some("cairo_code") && !buf.trim().is_empty() {
                let text = buf.replace("#[target_function]\n", "");
                res.push(Unit { name: format!("td_{tag}_{}_{:03}", stem.replace(|c: char| !c.is_ascii_alphanumeric(), "_"), *k),
                    origin: format!("{}#{}", f.display(), *k), text, inject: None, gen_base: false });
                *k += 1;
            }
            buf.clear();
        };
        for line in s.lines() {
            if let Some(rest) = line.strip_prefix("//! > ") {
                flush(&cur, &mut buf, &mut k, &mut res);
                cur = if rest.starts_with("====") { None } else { Some(rest.trim().to_string()) };
            } else if cur.is_some() {
                buf.push_str(line);
                buf.push('\n');
            }
        }
        flush(&cur, &mut buf, &mut k, &mut res);
    }
    res
}

fn example_units() -> Vec<Unit> {
    let mut fs: Vec<PathBuf> = std::fs::read_dir(format!("{}/examples", repo())).map(|r| r.filter_map(|e| e.ok().map(|e| e.path())).collect()).unwrap_or_default();
    fs.retain(|p| p.extension().map(|x| x == "cairo").unwrap_or(false) && p.file_stem().map(|x| x != "lib").unwrap_or(false));
    fs.sort();
    fs.iter().filter_map(|f| {
        let text = std::fs::read_to_string(f).ok()?;
        Some(Unit { name: format!("ex_{}", f.file_stem().unwrap().to_string_lossy()), origin: f.display().to_string(), text, inject: None, gen_base: false })
    }).collect()
}

/// permanent regression inputs (findings of earlier runs), /verif/corpus/C08/*.cairo
fn corpus_units() -> Vec<Unit> {
    let dir = std::env::var("C08_CORPUS").unwrap_or_else(|_| "/verif/corpus/C08".to_string());
    let mut fs: Vec<PathBuf> = std::fs::read_dir(&dir).map(|r| r.filter_map(|e| e.ok().map(|e| e.path())).collect()).unwrap_or_default();
    fs.retain(|p| p.extension().map(|x| x == "cairo").unwrap_or(false));
    fs.sort();
    fs.iter().filter_map(|f| {
        let text = std::fs::read_to_string(f).ok()?;
        Some(Unit { name: format!("rg_{}", f.file_stem().unwrap().to_string_lossy()), origin: f.display().to_string(), text, inject: None, gen_base: false })
    }).collect()
}

/// every violation shape in every kind of function body (place.rs)
fn placement_units(rng: &mut Rng, rounds: usize, stats: &mut BTreeMap<String, usize>) -> Vec<Unit> {
    let mut res = vec![];
    for _ in 0..rounds {
        for u in place::round(rng.next()) {
            let base = u.inject.is_none();
            *stats.entry(format!("placement_{}", if base { "control" } else { "violation" })).or_insert(0) += 1;
            res.push(Unit { name: format!("p{:04}{}", res.len(), if base { "c" } else { "v" }), origin: format!("placement: {}", u.desc), text: u.text, inject: u.inject, gen_base: base });
        }
    }
    res
}

/// the family over hand-written Copy / Drop / Destruct / PanicDestruct impls (simpl.rs)
fn special_impl_units(rng: &mut Rng, n: usize, stats: &mut BTreeMap<String, usize>) -> Vec<Unit> {
    let mut res = vec![];
    let mut seen = BTreeSet::new();
    let mut tries = 0;
    while res.len() < n && tries < 20 * n {
        tries += 1;
        let u = simpl::generate(rng);
        if !seen.insert(u.desc.clone()) { continue; }
        let (tag, inject, base) = match u.expect {
            simpl::Expect::Accept => ("accept", None, true),
            simpl::Expect::Violation(i) => ("violation", Some(i), false),
            simpl::Expect::Explore => ("explore", None, false),
        };
        *stats.entry(format!("special_impls_{tag}")).or_insert(0) += 1;
        res.push(Unit { name: format!("s{:04}{}", res.len(), &tag[..1]), origin: format!("special impls: {}", u.desc), text: u.text, inject, gen_base: base });
    }
    res
}

fn generated_units(rng: &mut Rng, n: usize, shapes: &mut BTreeMap<String, usize>) -> Vec<Unit> {
    let mut res = vec![];
    for i in 0..n {
        let seed = rng.next();
        let budget = 2 + (i % 3);
        let base = pgen::generate(seed, None, budget);
        for (k, v) in &base.shapes { *shapes.entry(k.to_string()).or_insert(0) += v; }
        res.push(Unit { name: format!("g{i:04}"), origin: format!("generated seed={seed}"), text: base.text.clone(), inject: None, gen_base: true });
        if base.safe_points == 0 { continue; }
        for j in 0..3 {
            let at = 1 + rng.below(base.safe_points as u64) as usize;
            let plan = match j { 0 => pgen::Plan::Uam(at), 1 => pgen::Plan::Md(at), _ => pgen::Plan::Gas };
            let m = pgen::generate(seed, Some(plan), budget);
            if let Some(inj) = m.injected.clone() {
                res.push(Unit { name: format!("g{i:04}m{j}"), origin: format!("generated seed={seed} inject@{at}"), text: m.text, inject: Some(inj), gen_base: false });
            }
        }
    }
    res
}

// ---------- per configuration ----------
#[derive(Default, Clone)]
struct UnitDiag {
    has_errors: bool,
    n_errors: usize,
    n_warnings: usize,
    msgs: Vec<String>,
    panic: Option<String>,
}

fn diagnose(db: &RootDatabase, ci: &CrateInput) -> UnitDiag {
    let entries: Arc<Mutex<Vec<(Severity, String)>>> = Arc::new(Mutex::new(vec![]));
    let e2 = entries.clone();
    let r = catch(AssertUnwindSafe(|| {
        let mut rep = DiagnosticsReporter::callback(move |e| {
            e2.lock().unwrap().push((e.severity(), e.message().lines().next().unwrap_or("").to_string()));
        })
        .with_crates(std::slice::from_ref(ci))
        .allow_warnings();
        rep.check(db)
    }));
    let es = entries.lock().unwrap().clone();
    let mut d = UnitDiag::default();
    for (s, m) in es {
        if s == Severity::Error { d.n_errors += 1; d.msgs.push(m); } else { d.n_warnings += 1; }
    }
    match r {
        Ok(found) => d.has_errors = found,
        Err(p) => d.panic = Some(format!("{p} @ {}", vcommon::last_panic_location())),
    }
    d
}

/// Ok(()) or Err((stage, message))
fn compile_crates(db: &RootDatabase, cis: &[CrateInput], gas: bool) -> Result<(usize, usize), (String, String)> {
    let r = catch(AssertUnwindSafe(|| -> Result<(usize, usize), (String, String)> {
        let ids = CrateInput::into_crate_ids(db, cis.to_vec());
        // the artifact entry point with every kind of debug info requested (what Scarb's tooling asks for): the
        // debug-info extraction runs over the same functions and must not panic either
        let cfg = CompilerConfig {
            diagnostics_reporter: DiagnosticsReporter::ignoring().with_crates(cis).allow_warnings(),
            replace_ids: false,
            add_statements_functions: true,
            add_statements_code_locations: true,
            add_functions_debug_info: true,
            add_type_names: true,
        };
        let program = compile_prepared_db_program_artifact(db, ids, cfg).map_err(|e| ("sierra".to_string(), format!("{e:#}")))?.program;
        let info = ProgramRegistryInfo::new(&program).map_err(|e| ("program_registry".to_string(), format!("{e}")))?;
        let metadata = if gas {
            calc_metadata(&program, &info, MetadataComputationConfig::default())
        } else {
            calc_metadata_ap_change_only(&program, &info)
        }
        .map_err(|e| ("metadata".to_string(), format!("{e:?}")))?;
        let casm = cairo_lang_sierra_to_casm::compiler::compile(
            &program, &info, &metadata, SierraToCasmConfig { gas_usage_check: gas, max_bytecode_size: usize::MAX })
            .map_err(|e| ("casm".to_string(), format!("{e}")))?;
        Ok((program.funcs.len(), casm.instructions.len()))
    }));
    match r {
        Ok(x) => x,
        Err(p) => Err(("panic".to_string(), format!("{p} @ {}", vcommon::last_panic_location()))),
    }
}

/// Narrows a failing set of crates down to failing singletons where possible.
fn bisect(db: &RootDatabase, idx: &[usize], cis: &[CrateInput], gas: bool, out: &mut Vec<(Vec<usize>, String, String)>) {
    let sub: Vec<CrateInput> = idx.iter().map(|i| cis[*i].clone()).collect();
    match compile_crates(db, &sub, gas) {
        Ok(_) => {}
        Err((stage, msg)) => {
            if idx.len() == 1 { out.push((idx.to_vec(), stage, msg)); return; }
            let before = out.len();
            let (a, b) = idx.split_at(idx.len() / 2);
            bisect(db, a, cis, gas, out);
            bisect(db, b, cis, gas, out);
            if out.len() == before { out.push((idx.to_vec(), stage, msg)); }
        }
    }
}

struct ConfigResult {
    diags: Vec<UnitDiag>,
    compile_failures: Vec<(Vec<usize>, String, String)>,
    compiled_units: usize,
    sierra_funcs: usize,
    casm_instructions: usize,
    cases: Vec<(usize, Result<trans::FnCase, String>)>,
    secs: f64,
}

/// One database per batch of crates (memory), results concatenated.
fn run_config(c: Config, units: &[Unit], dir: &Path, translate: bool) -> ConfigResult {
    let t0 = std::time::Instant::now();
    let mut res = ConfigResult { diags: vec![], compile_failures: vec![], compiled_units: 0, sierra_funcs: 0, casm_instructions: 0, cases: vec![], secs: 0.0 };
    let mut off = 0;
    for batch in units.chunks(1000) {
        let r = run_batch(c, batch, dir, translate);
        res.diags.extend(r.diags);
        res.compile_failures.extend(r.compile_failures.into_iter().map(|(ix, a, b)| (ix.into_iter().map(|i| i + off).collect(), a, b)));
        res.compiled_units += r.compiled_units;
        res.sierra_funcs += r.sierra_funcs;
        res.casm_instructions += r.casm_instructions;
        res.cases.extend(r.cases.into_iter().map(|(i, c)| (i + off, c)));
        off += batch.len();
    }
    res.secs = t0.elapsed().as_secs_f64();
    res
}

fn run_batch(c: Config, units: &[Unit], dir: &Path, translate: bool) -> ConfigResult {
    let t0 = std::time::Instant::now();
    vcommon::quiet_panics();
    let mut db = build_db(c);
    let mut cis = vec![];
    for u in units {
        let p = dir.join(&u.name).join("lib.cairo");
        cis.push(setup_single_file_project(&mut db, &p).expect("setup"));
    }
    let db = db;
    let mut diags = vec![];
    for ci in &cis { diags.push(diagnose(&db, ci)); }
    let mut cases = vec![];
    if translate {
        for (i, ci) in cis.iter().enumerate() {
            let crate_id = ci.clone().into_crate_long_id(&db).intern(&db);
            let fns = match catch(AssertUnwindSafe(|| trans::crate_functions(&db, crate_id))) {
                Ok(f) => f,
                Err(p) => { cases.push((i, Err(format!("panic enumerating functions: {p}")))); continue; }
            };
            for (k, f) in fns.into_iter().enumerate() {
                let name = format!("{}/{k}", units[i].name);
                match catch(AssertUnwindSafe(|| trans::translate(&db, f, name.clone()))) {
                    Ok(Ok(Some(c))) => cases.push((i, Ok(c))),
                    Ok(Ok(None)) => {}
                    Ok(Err(e)) => cases.push((i, Err(e))),
                    Err(p) => cases.push((i, Err(format!("panic in borrow_check/translate of {name}: {p} @ {}", vcommon::last_panic_location())))),
                }
            }
        }
    }
    // test data that declares its own `extern fn` / `extern type` (allowed there by
    // #[allow(extern_outside_corelib)]) names libfuncs that do not exist: not compilable by design
    let ok: Vec<usize> = (0..units.len())
        .filter(|i| !diags[*i].has_errors && diags[*i].panic.is_none() && !units[*i].declares_externs())
        .collect();
    let mut compile_failures = vec![];
    let (mut nf, mut ni) = (0, 0);
    // chunks keep the Sierra programs moderate and bound the cost of a bisection
    for chunk in ok.chunks(150) {
        let sub: Vec<CrateInput> = chunk.iter().map(|i| cis[*i].clone()).collect();
        match compile_crates(&db, &sub, c.gas) {
            Ok((f, n)) => { nf += f; ni += n; }
            Err(_) => bisect(&db, chunk, &cis, c.gas, &mut compile_failures),
        }
    }
    ConfigResult { diags, compile_failures, compiled_units: ok.len(), sierra_funcs: nf, casm_instructions: ni, cases, secs: t0.elapsed().as_secs_f64() }
}

fn main() {
    let args: Vec<String> = std::env::args().collect();
    let out = PathBuf::from(args.get(1).expect("out dir"));
    let thorough = args.get(2).map(|s| s == "thorough").unwrap_or(false);
    std::fs::create_dir_all(&out).unwrap();
    let mut rng = Rng::from_env();
    let mut shapes = BTreeMap::new();

    let mut units = test_data_units();
    let n_td = units.len();
    units.extend(example_units());
    let n_ex = units.len() - n_td;
    let corpus = corpus_units();
    let n_corpus = corpus.len();
    units.extend(corpus);
    units.extend(generated_units(&mut rng, if thorough { 2000 } else { 150 }, &mut shapes));
    units.extend(special_impl_units(&mut rng, if thorough { 1500 } else { 160 }, &mut shapes));
    units.extend(placement_units(&mut rng, if thorough { 8 } else { 1 }, &mut shapes));
    let progs = out.join("progs");
    let _ = std::fs::remove_dir_all(&progs);
    for u in &units {
        let d = progs.join(&u.name);
        std::fs::create_dir_all(&d).unwrap();
        std::fs::write(d.join("lib.cairo"), &u.text).unwrap();
    }

    // one database per configuration, in parallel
    let units_arc = Arc::new(units);
    let handles: Vec<_> = CONFIGS.iter().enumerate().map(|(k, c)| {
        let (u, p, c) = (units_arc.clone(), progs.clone(), *c);
        std::thread::Builder::new().stack_size(256 << 20).spawn(move || run_config(c, &u, &p, k == 0)).unwrap()
    }).collect();
    let results: Vec<ConfigResult> = handles.into_iter().map(|h| h.join().expect("config thread")).collect();
    let units = units_arc;

    // ---------- oracle ----------
    let mut failures = vec![];
    let mut n_inj = 0;
    let mut n_inj_kind_ok = 0;
    let mut n_base = 0;
    let mut n_base_accepted = 0;
    let mut accepted_all = 0;
    let mut n_corpus_accepted = 0;
    let mut rejected_samples = vec![];
    let mut inj_other = vec![];
    for (i, u) in units.iter().enumerate() {
        let mut acc = true;
        for (k, r) in results.iter().enumerate() {
            let d = &r.diags[i];
            acc &= !d.has_errors && d.panic.is_none();
            if let Some(p) = &d.panic {
                failures.push(json!({"kind": "panic_while_computing_diagnostics", "why": p, "config": CONFIGS[k].name,
                    "unit": u.name, "origin": u.origin, "program": u.text}));
            }
            if let Some(inj) = &u.inject {
                // an out-of-gas violation exists only where withdraw_gas is added
                let expected = !matches!(inj, pgen::Inject::MissingDropOutOfGas(_)) || CONFIGS[k].gas;
                if expected && !d.has_errors && d.panic.is_none() {
                    failures.push(json!({"kind": "ownership_violation_accepted", "why": format!("{inj:?} but no error diagnostic"),
                        "config": CONFIGS[k].name, "unit": u.name, "origin": u.origin, "program": u.text}));
                }
            }
        }
        if let Some(inj) = &u.inject {
            n_inj += 1;
            let want = match inj { pgen::Inject::UseAfterMove(_) => "previously moved", _ => "not dropped" };
            if results[0].diags[i].msgs.iter().any(|m| m.contains(want) || m.contains("Invalid copy trait") || m.contains("Invalid drop trait") || m.contains("Cannot desnap")) { n_inj_kind_ok += 1; }
            else if inj_other.len() < 12 { inj_other.push(json!({"unit": u.name, "injected": format!("{inj:?}"), "errors": results[0].diags[i].msgs.iter().take(3).collect::<Vec<_>>()})); }
        }
        if u.gen_base { n_base += 1; if acc { n_base_accepted += 1; } else if rejected_samples.len() < 8 {
            rejected_samples.push(json!({"unit": u.name, "errors": results.iter().flat_map(|r| r.diags[i].msgs.iter().take(2).cloned()).take(4).collect::<Vec<_>>()}));
        } }
        if u.name.starts_with("rg_") && acc { n_corpus_accepted += 1; }
        if acc { accepted_all += 1; }
    }
    for (k, r) in results.iter().enumerate() {
        for (idx, stage, msg) in &r.compile_failures {
            let us: Vec<&Unit> = idx.iter().map(|i| &units[*i]).collect();
            // known finding F1 (see known_findings.txt): the wrapper of a function specialised by const
            // folding on a snapshot of a constant of a type without Drop/Destruct is not
            // borrow-checked.  Recognised by: that panic, and the same unit compiles in the
            // configurations without const folding.
            let compiles_without_const_folding = [2usize, 3].iter().all(|c| {
                !results[*c].compile_failures.iter().any(|(ix, _, _)| ix.iter().any(|i| idx.contains(i)))
            });
            let fp = if msg.contains("Borrow checker should have caught this") && compiles_without_const_folding
                && CONFIGS[k].opt != 2 && CONFIGS[k].opt != 3 && us.iter().all(|u| u.text.contains('@'))
            { "F1-specialized-snapshot-of-undroppable-const" }
            // finding F3: a value dropped inside a branch of a hand-written panic_destruct function gets its
            // panic_destruct call inserted after the merge.  Recognised by that message and a panic_destruct
            // body that branches on self (seeded defects with straight-line bodies stay unmasked).
            else if msg.contains("is used before it is introduced")
                && us.iter().all(|u| u.text.lines().any(|l| l.contains("fn panic_destruct(self") && l.contains("match self")
                    || u.text.contains("nopanic {\n        match self")))
            { "F3-drop-in-branch-of-panic-destruct-fn" } else { "" };
            failures.push(json!({"kind": "error_free_program_does_not_compile", "why": format!("stage {stage}: {msg}"), "fingerprint": fp,
                "config": CONFIGS[k].name, "unit": us.iter().map(|u| u.name.clone()).collect::<Vec<_>>(),
                "origin": us.iter().map(|u| u.origin.clone()).collect::<Vec<_>>(),
                "program": us.iter().take(3).map(|u| u.text.clone()).collect::<Vec<_>>()}));
        }
    }
    for (i, c) in &results[0].cases {
        if let Err(p) = c {
            let kind = if p.starts_with("translator out of date") { "translator_out_of_date" } else { "panic_in_borrow_check" };
            failures.push(json!({"kind": kind, "why": p, "config": CONFIGS[0].name,
                "unit": units[*i].name, "origin": units[*i].origin, "program": units[*i].text}));
        }
    }

    // ---------- every borrow-check error of a function reaches the crate's diagnostics ----------
    // (the functions are enumerated by the translator independently of the diagnostics reporter)
    let mut lost_units = BTreeSet::new();
    for (i, c) in &results[0].cases {
        let Ok(c) = c else { continue };
        let d = &results[0].diags[*i];
        if (c.expected.is_empty() && c.fn_not_dropped.is_empty()) || d.has_errors || d.panic.is_some() || !lost_units.insert(*i) { continue; }
        failures.push(json!({"kind": "ownership_violation_accepted",
            "why": format!("function {} has borrow-check diagnostics {:?} (db.borrow_check / function_with_body_lowering_diagnostics) but the crate's diagnostics report no error", c.name, c.expected),
            "config": CONFIGS[0].name, "unit": units[*i].name, "origin": units[*i].origin, "program": units[*i].text}));
    }

    // ---------- path oracle (spec.rs) on every crate without error diagnostics ----------
    let mut spec_cache: BTreeMap<u64, Option<spec::BadPath>> = BTreeMap::new();
    let mut n_spec_fns = 0;
    let mut spec_flagged_units = BTreeSet::new();
    for (i, c) in &results[0].cases {
        let Ok(c) = c else { continue };
        let d = &results[0].diags[*i];
        if d.has_errors || d.panic.is_some() || spec_flagged_units.contains(i) { continue; }
        n_spec_fns += 1;
        let bad = spec_cache.entry(c.fingerprint).or_insert_with(|| spec::find_bad_path(&c.sfn, 20000)).clone();
        if let Some(b) = bad {
            spec_flagged_units.insert(*i);
            failures.push(json!({"kind": "ownership_violation_accepted",
                "why": format!("no error diagnostic, but function {} has a path with: {} (variable v{}), blocks {:?}, ending at {}", c.name, b.what, b.var, b.blocks, b.ends),
                "config": CONFIGS[0].name, "unit": units[*i].name, "origin": units[*i].origin, "program": units[*i].text, "lowered": c.coq}));
        }
    }

    // self-test of the path oracle: on how many functions that the real checker rejects does it find a bad path
    let (mut n_rej, mut n_rej_found) = (0, 0);
    let mut seen_rej = BTreeSet::new();
    for (_, c) in &results[0].cases {
        let Ok(c) = c else { continue };
        if c.expected.iter().any(|(k, _)| *k <= 1) && seen_rej.insert(c.fingerprint) {
            n_rej += 1;
            if spec_cache.entry(c.fingerprint).or_insert_with(|| spec::find_bad_path(&c.sfn, 20000)).is_some() { n_rej_found += 1; }
        }
    }

    // ---------- case shards ----------
    let all_cases: Vec<(usize, &trans::FnCase)> = results[0].cases.iter().filter_map(|(i, c)| c.as_ref().ok().map(|c| (*i, c))).collect();
    // the helper functions of the generated crates repeat: one case per distinct (Lowered, answer)
    let mut seen_fp = BTreeSet::new();
    let cases: Vec<(usize, &trans::FnCase)> = all_cases.iter().copied().filter(|(_, c)| seen_fp.insert((c.fingerprint, c.expected.clone(), c.fn_not_dropped.clone()))).collect();
    let mut distinct = BTreeSet::new();
    let mut nontrivial = BTreeSet::new();
    let mut tot = trans::FnStats::default();
    let mut with_diag = 0;
    let mut kinds = [0usize; 4];
    for (_, c) in &cases {
        distinct.insert(c.fingerprint);
        // rule: at least one non-copyable variable and (a branch or a panicable call)
        if c.stats.noncopy_vars > 0 && (c.stats.matches > 0 || c.stats.panicable_calls > 0) { nontrivial.insert(c.fingerprint); }
        tot.blocks += c.stats.blocks; tot.stmts += c.stats.stmts; tot.vars += c.stats.vars; tot.matches += c.stats.matches;
        tot.gotos_with_remap += c.stats.gotos_with_remap; tot.panicable_calls += c.stats.panicable_calls;
        tot.noncopy_vars += c.stats.noncopy_vars; tot.nondrop_vars += c.stats.nondrop_vars;
        tot.remap_dst_is_src += c.stats.remap_dst_is_src; tot.shared_arm_blocks += c.stats.shared_arm_blocks;
        if !c.expected.is_empty() { with_diag += 1; }
        for (k, _) in &c.expected { kinds[*k as usize] += 1; }
    }
    let per_shard = 120;
    let mut samples = String::new();
    for (s, chunk) in cases.chunks(per_shard).enumerate() {
        let mut v = String::new();
        writeln!(v, "From Coq Require Import List.\nFrom C08 Require Import Lowered Borrow Corr.\nImport ListNotations.\nDefinition cases : list bcase := [").unwrap();
        for (j, (_, c)) in chunk.iter().enumerate() {
            let exp: Vec<String> = c.expected.iter().map(|(k, l)| format!("({k},{l})")).collect();
            let nd: Vec<String> = c.fn_not_dropped.iter().map(|l| l.to_string()).collect();
            writeln!(v, "  (* {} *)\n  mkcase {} (\n    {})\n    [{}] {} {} [{}]{}", c.name, s * per_shard + j, c.coq, exp.join(";"), c.lowering_has_errors,
                c.withdraw_gas_check, nd.join(";"), if j + 1 == chunk.len() { "" } else { ";" }).unwrap();
        }
        writeln!(v, "].\nDefinition bad := Eval vm_compute in check_cases cases.\nPrint bad.").unwrap();
        std::fs::write(out.join(format!("bc_{s:03}.v")), v).unwrap();
    }
    for (_, c) in cases.iter().filter(|(_, c)| !c.expected.is_empty()).take(3).chain(cases.iter().take(3)) {
        writeln!(samples, "{}: {} => real diagnostics {:?}", c.name, c.coq.replace('\n', " "), c.expected).unwrap();
    }
    std::fs::write(out.join("samples.txt"), samples).unwrap();

    let cfg_summ: Vec<_> = results.iter().enumerate().map(|(k, r)| json!({
        "config": CONFIGS[k].name, "units_without_errors_compiled": r.compiled_units, "sierra_functions": r.sierra_funcs,
        "casm_instructions": r.casm_instructions, "compile_failures": r.compile_failures.len(), "seconds": r.secs,
        "units_with_errors": r.diags.iter().filter(|d| d.has_errors).count(),
    })).collect();
    let summary = json!({
        "units": units.len(), "test_data_units": n_td, "example_units": n_ex, "regression_corpus_units": n_corpus, "regression_corpus_units_accepted_and_compiled_in_all_configs": n_corpus_accepted,
        "generated_base": n_base, "generated_base_accepted_in_all_configs": n_base_accepted,
        "generated_base_rejected_samples": rejected_samples, "injected_units": n_inj, "injected_with_expected_diagnostic_kind": n_inj_kind_ok, "injected_with_other_error_samples": inj_other,
        "units_accepted_in_all_configs": accepted_all,
        "configs": cfg_summ,
        "functions_translated": all_cases.len(), "functions_of_error_free_crates_path_checked": n_spec_fns, "path_oracle_selftest": {"functions_rejected_by_real_checker": n_rej, "of_which_path_oracle_finds_a_bad_path": n_rej_found}, "function_cases_after_dedup": cases.len(), "functions_distinct": distinct.len(), "functions_nontrivial_distinct": nontrivial.len(),
        "functions_with_real_borrow_diagnostics": with_diag,
        "real_diagnostics_by_kind": {"VariableMoved": kinds[0], "VariableNotDropped": kinds[1], "DesnappingANonCopyableType": kinds[2], "other": kinds[3]},
        "totals": {"blocks": tot.blocks, "statements": tot.stmts, "variables": tot.vars, "matches": tot.matches,
            "gotos_with_remapping": tot.gotos_with_remap, "panicable_calls": tot.panicable_calls,
            "noncopyable_variables": tot.noncopy_vars, "nondroppable_variables": tot.nondrop_vars,
            "remapping_dst_that_is_also_src": tot.remap_dst_is_src, "blocks_that_are_arm_of_two_matches": tot.shared_arm_blocks},
        "generator_shapes": shapes,
        "oracle_failures": failures.len(),
    });
    std::fs::write(out.join("summary.json"), serde_json::to_string_pretty(&summary).unwrap()).unwrap();
    std::fs::write(out.join("oracle_failures.json"), serde_json::to_string_pretty(&failures).unwrap()).unwrap();
    println!("h08: {} units ({} test-data, {} examples, {} generated of which {} accepted, {} injected of which {} with the expected kind), {} functions translated, {} oracle failures",
        units.len(), n_td, n_ex, n_base, n_base_accepted, n_inj, n_inj_kind_ok, cases.len(), failures.len());
}
