//! Family of crates over HAND-WRITTEN special impls: `Copy` / `Drop` / `Destruct` / `PanicDestruct`
//! written by hand (not derived) for a wrapper type - generic with correct bounds, with a missing
//! bound, with a wrong bound, or specialised at one argument - over wrappers of a plain member, a
//! tuple, an enum payload, Array, Box, Span, a snapshot, Nullable and a nested generic; each
//! instantiated at a copyable, a droppable-only, a destructible-only and an incapable argument and
//! then used twice / moved in a loop / desnapped / captured by a closure / dropped implicitly /
//! dropped in one branch / kept across a panicable call, on values that are function parameters
//! (nothing is constant-folded).
//!
//! The generator computes the *true* capability of the instantiated wrapper from its member and the
//! argument.  A unit whose use needs a capability the instantiated type truly lacks is an injected
//! violation: it must be diagnosed - at the impl (invalid Copy/Drop implementation) or at the use.
//! A unit whose impls are all legitimate and whose use is covered is expected to be accepted
//! (measured) and must then compile under every configuration.  Everything else (an illegitimate
//! impl whose missing capability the use does not exercise) is exploration only.
use vcommon::Rng;

use crate::pgen::Inject;

#[derive(Clone, Copy, PartialEq, Eq, Debug)]
enum Wrap { Plain, WithK, Enum, Tup, Arr, BoxM, SpanM, Snap, Nested, Null }
const WRAPS: [Wrap; 10] = [Wrap::Plain, Wrap::WithK, Wrap::Enum, Wrap::Tup, Wrap::Arr, Wrap::BoxM, Wrap::SpanM, Wrap::Snap, Wrap::Nested, Wrap::Null];

#[derive(Clone, Copy, PartialEq, Eq, Debug)]
enum Arg { Felt, U32, Tuple, PC, Array, DD, Dict, NN }
const ARGS: [Arg; 8] = [Arg::Felt, Arg::U32, Arg::Tuple, Arg::PC, Arg::Array, Arg::DD, Arg::Dict, Arg::NN];

#[derive(Clone, Copy, PartialEq, Eq, Debug)]
enum CopyImpl { None, Correct, Missing, Wrong, Spec }
#[derive(Clone, Copy, PartialEq, Eq, Debug)]
enum DropImpl { None, Correct, Missing, Wrong, Spec, DestructCorrect, DestructMissing, PanicDestructCorrect }

#[derive(Clone, Copy, PartialEq, Eq, Debug)]
enum Use { Once, Twice, LoopMove, Desnap, Closure, DropImplicit, DropInBranch, AcrossPanic }

pub enum Expect { Accept, Violation(Inject), Explore }
pub struct SUnit { pub text: String, pub desc: String, pub expect: Expect }

fn arg_ty(a: Arg) -> &'static str {
    match a {
        Arg::Felt => "felt252", Arg::U32 => "u32", Arg::Tuple => "(felt252, u8)", Arg::PC => "PC",
        Arg::Array => "Array<felt252>", Arg::DD => "DD", Arg::Dict => "Felt252Dict<felt252>", Arg::NN => "NN",
    }
}
/// (copy, drop, destruct-or-drop) of the argument type
fn arg_caps(a: Arg) -> (bool, bool, bool) {
    match a {
        Arg::Felt | Arg::U32 | Arg::Tuple | Arg::PC => (true, true, true),
        Arg::Array | Arg::DD => (false, true, true),
        Arg::Dict => (false, false, true),
        Arg::NN => (false, false, false),
    }
}
/// an expression of the argument type that depends on the felt252 `n`
fn arg_expr(a: Arg) -> &'static str {
    match a {
        Arg::Felt => "n", Arg::U32 => "5_u32", Arg::Tuple => "(n, 2_u8)", Arg::PC => "PC { a: n }",
        Arg::Array => "array![n, 2]", Arg::DD => "DD { a: n }", Arg::Dict => "mkdict(n)", Arg::NN => "NN { a: n }",
    }
}
fn eat_arg_body(a: Arg) -> &'static str {
    match a {
        Arg::Felt => "x", Arg::U32 => "x.into()", Arg::Tuple => "{ let (a, _b) = x; a }", Arg::PC => "x.a",
        Arg::Array => "x.len().into()", Arg::DD => "{ let DD { a } = x; a }",
        Arg::Dict => "{ let _s = x.squash(); 0 }", Arg::NN => "{ let NN { a } = x; a }",
    }
}

fn wrap_def(w: Wrap) -> &'static str {
    match w {
        Wrap::Plain => "struct W<T> { v: T }",
        Wrap::WithK => "struct W<T> { v: T, k: felt252 }",
        Wrap::Enum => "enum W<T> { A: T, B: felt252 }",
        Wrap::Tup => "struct W<T> { v: (T, felt252) }",
        Wrap::Arr => "struct W<T> { v: Array<T> }",
        Wrap::BoxM => "struct W<T> { v: Box<T> }",
        Wrap::SpanM => "struct W<T> { v: Span<T> }",
        Wrap::Snap => "struct W<T> { v: @T }",
        Wrap::Nested => "#[derive(Copy, Drop)]\nstruct In<T> { x: T }\nstruct W<T> { v: In<T> }",
        Wrap::Null => "struct W<T> { v: Nullable<T> }",
    }
}
fn wrap_ctor(w: Wrap, e: &str) -> String {
    match w {
        Wrap::Plain => format!("W {{ v: {e} }}"),
        Wrap::WithK => format!("W {{ v: {e}, k: 3 }}"),
        Wrap::Enum => format!("W::A({e})"),
        Wrap::Tup => format!("W {{ v: ({e}, 1) }}"),
        Wrap::Arr => format!("W {{ v: array![{e}] }}"),
        Wrap::BoxM => format!("W {{ v: BoxTrait::new({e}) }}"),
        Wrap::SpanM => format!("W {{ v: array![{e}].span() }}"),
        Wrap::Snap => format!("W {{ v: @{e} }}"),
        Wrap::Nested => format!("W {{ v: In {{ x: {e} }} }}"),
        Wrap::Null => format!("W {{ v: NullableTrait::new({e}) }}"),
    }
}
/// body of `eatw(w: W<Arg>) -> felt252`
fn wrap_eat(w: Wrap) -> &'static str {
    match w {
        Wrap::Plain => "let W { v } = w; eat_arg(v)",
        Wrap::WithK => "let W { v, k: _ } = w; eat_arg(v)",
        Wrap::Enum => "match w { W::A(v) => eat_arg(v), W::B(f) => f }",
        Wrap::Tup => "let W { v } = w; let (t, _f) = v; eat_arg(t)",
        Wrap::Arr => "let W { v } = w; v.len().into()",
        Wrap::BoxM => "let W { v } = w; eat_arg(v.unbox())",
        Wrap::SpanM => "let W { v } = w; v.len().into()",
        Wrap::Snap => "let W { v: _ } = w; 0",
        Wrap::Nested => "let W { v } = w; let In { x } = v; eat_arg(x)",
        Wrap::Null => "let W { v } = w; eat_arg(v.deref())",
    }
}
/// body of a hand-written destructor: the member goes out of scope implicitly
fn wrap_drop_body(w: Wrap) -> &'static str {
    match w {
        Wrap::Enum => "match self { W::A(_) => {}, W::B(_) => {} }",
        Wrap::WithK => "let W { v: _, k: _ } = self;",
        _ => "let W { v: _ } = self;",
    }
}
/// (copyable, droppable, destructible) of the member type given those of the argument; None: the
/// capability does not depend on the argument
fn member_caps(w: Wrap, a: Arg) -> (bool, bool, bool) {
    let (c, d, x) = arg_caps(a);
    match w {
        Wrap::Plain | Wrap::WithK | Wrap::Enum | Wrap::Tup | Wrap::BoxM | Wrap::Null => (c, d, x),
        // In<T> is derived Copy, Drop only
        Wrap::Nested => (c, d, d),
        Wrap::Arr => (false, d, d),
        Wrap::SpanM | Wrap::Snap => (true, true, true),
    }
}
/// does the member's capability depend on T (so that a bound is needed)?
fn needs_bound(w: Wrap) -> bool { !matches!(w, Wrap::SpanM | Wrap::Snap) }
/// can make()/eatw() be written for this combination?
fn buildable(w: Wrap, a: Arg) -> bool {
    let (_, d, x) = arg_caps(a);
    match w {
        // the array / the temporary behind the span or snapshot must be droppable
        Wrap::Arr | Wrap::SpanM => d,
        Wrap::Snap => x,
        // Nullable / Box of a dictionary are fine; In<T> derives Drop only
        Wrap::Nested => true,
        _ => true,
    }
}

pub fn generate(rng: &mut Rng) -> SUnit {
    // stratified: a good share of the interesting cell (generic impl without / with a wrong bound,
    // at an incapable argument, capability exercised)
    let focus = rng.below(10) < 4;
    let (w, a) = loop {
        let w = *rng.pick(&WRAPS);
        let a = if focus { *rng.pick(&[Arg::Array, Arg::DD, Arg::Dict, Arg::NN]) } else { *rng.pick(&ARGS) };
        if buildable(w, a) { break (w, a); }
    };
    let copy_impl = if focus && rng.bool() { *rng.pick(&[CopyImpl::Missing, CopyImpl::Wrong]) }
        else { *rng.pick(&[CopyImpl::None, CopyImpl::Correct, CopyImpl::Correct, CopyImpl::Missing, CopyImpl::Wrong, CopyImpl::Spec]) };
    let drop_impl = if focus && copy_impl == CopyImpl::None || focus && rng.below(3) == 0 { *rng.pick(&[DropImpl::Missing, DropImpl::Wrong, DropImpl::DestructMissing]) }
        else { *rng.pick(&[DropImpl::None, DropImpl::Correct, DropImpl::Correct, DropImpl::Missing, DropImpl::Wrong, DropImpl::Spec,
                            DropImpl::DestructCorrect, DropImpl::DestructMissing, DropImpl::PanicDestructCorrect]) };
    let (mc, md, mx) = member_caps(w, a);
    let (ac, ad, ax) = arg_caps(a);
    let nb = needs_bound(w);
    // destructors written by hand only where the member is the parameter itself (what other
    // members offer under a Destruct bound is corelib detail)
    let drop_impl = if matches!(drop_impl, DropImpl::DestructCorrect | DropImpl::DestructMissing | DropImpl::PanicDestructCorrect)
        && !matches!(w, Wrap::Plain | Wrap::WithK | Wrap::Enum) { DropImpl::Correct } else { drop_impl };

    // is the impl legitimate as written (every member has the capability under the impl's bounds)?
    let copy_legit = match copy_impl {
        CopyImpl::None => true,
        CopyImpl::Correct => w != Wrap::Arr,
        CopyImpl::Missing | CopyImpl::Wrong => !nb,
        CopyImpl::Spec => mc,
    };
    let drop_legit = match drop_impl {
        DropImpl::None | DropImpl::Correct | DropImpl::DestructCorrect | DropImpl::PanicDestructCorrect => true,
        DropImpl::Missing | DropImpl::Wrong | DropImpl::DestructMissing => !nb,
        DropImpl::Spec => md,
    };
    // does it apply to W<Arg> (bounds satisfied)?
    let copy_applies = match copy_impl {
        CopyImpl::None => false,
        CopyImpl::Correct => ac,
        CopyImpl::Missing | CopyImpl::Spec => true,
        CopyImpl::Wrong => ad,
    };
    let copy_ok = copy_applies && copy_legit;
    let drop_ok = drop_legit && match drop_impl {
        DropImpl::Correct => ad,
        DropImpl::Missing | DropImpl::Spec => true,
        DropImpl::Wrong => ac,
        _ => false,
    };
    let destruct_ok = drop_legit && match drop_impl { DropImpl::DestructCorrect => ax, DropImpl::DestructMissing => true, _ => false };
    let pdestruct_ok = drop_impl == DropImpl::PanicDestructCorrect && ax;
    let _ = (mx,);

    let copy_uses = [Use::Twice, Use::LoopMove, Use::Desnap, Use::Closure];
    let drop_uses = [Use::DropImplicit, Use::DropInBranch, Use::AcrossPanic];
    let u = if focus {
        if matches!(copy_impl, CopyImpl::Missing | CopyImpl::Wrong) && rng.below(4) != 0 { *rng.pick(&copy_uses) } else { *rng.pick(&drop_uses) }
    } else {
        *rng.pick(&[Use::Once, Use::Twice, Use::LoopMove, Use::Desnap, Use::Closure, Use::DropImplicit, Use::DropInBranch, Use::AcrossPanic])
    };
    let can_drop = drop_ok || destruct_ok;
    let need_ok = match u {
        Use::Once => true,
        // eatw may panic: the copy that is used later must be droppable on that path
        Use::Twice | Use::Desnap | Use::Closure => copy_ok && (can_drop || pdestruct_ok),
        // the copy that stays behind in the loop function is dropped at the break
        Use::LoopMove => copy_ok && can_drop,
        Use::DropImplicit | Use::DropInBranch => can_drop,
        Use::AcrossPanic => can_drop || pdestruct_ok,
    };
    let all_legit = copy_legit && drop_legit;

    // ---- text ----
    let ty = arg_ty(a);
    let mut t = String::new();
    t.push_str("use core::panics::Panic;\nuse core::dict::Felt252Dict;\n");
    t.push_str("#[derive(Copy, Drop)]\nstruct PC { a: felt252 }\n#[derive(Drop)]\nstruct DD { a: felt252 }\nstruct NN { a: felt252 }\n");
    t.push_str("fn mkdict(n: felt252) -> Felt252Dict<felt252> { let mut d: Felt252Dict<felt252> = Default::default(); d.insert(1, n); d }\n");
    t.push_str("fn may_panic(a: felt252) -> felt252 { assert(a != 99, 'boom'); a }\n");
    t.push_str(wrap_def(w));
    t.push('\n');
    match copy_impl {
        CopyImpl::None => {}
        CopyImpl::Correct => {
            t.push_str("impl WCopy<T, +Copy<T>> of Copy<W<T>>;\n");
            if rng.bool() { t.push_str("impl WCopyFelt = WCopy<felt252>;\n"); }
        }
        CopyImpl::Missing => t.push_str("impl WCopy<T> of Copy<W<T>>;\n"),
        CopyImpl::Wrong => t.push_str("impl WCopy<T, +Drop<T>> of Copy<W<T>>;\n"),
        CopyImpl::Spec => t.push_str(&format!("impl WCopy of Copy<W<{ty}>>;\n")),
    }
    let db = wrap_drop_body(w);
    match drop_impl {
        DropImpl::None => {}
        DropImpl::Correct => t.push_str("impl WDrop<T, +Drop<T>> of Drop<W<T>>;\n"),
        DropImpl::Missing => t.push_str("impl WDrop<T> of Drop<W<T>>;\n"),
        DropImpl::Wrong => t.push_str("impl WDrop<T, +Copy<T>> of Drop<W<T>>;\n"),
        DropImpl::Spec => t.push_str(&format!("impl WDrop of Drop<W<{ty}>>;\n")),
        DropImpl::DestructCorrect => t.push_str(&format!("impl WDestruct<T, +Destruct<T>> of Destruct<W<T>> {{ fn destruct(self: W<T>) nopanic {{ {db} }} }}\n")),
        DropImpl::DestructMissing => t.push_str(&format!("impl WDestruct<T> of Destruct<W<T>> {{ fn destruct(self: W<T>) nopanic {{ {db} }} }}\n")),
        DropImpl::PanicDestructCorrect => t.push_str(&format!(
            "impl WPanicDestruct<T, +PanicDestruct<T>> of PanicDestruct<W<T>> {{ fn panic_destruct(self: W<T>, ref panic: Panic) nopanic {{ {db} }} }}\n")),
    }
    t.push_str(&format!("#[inline(never)]\nfn eat_arg(x: {ty}) -> felt252 {{ {} }}\n", eat_arg_body(a)));
    t.push_str(&format!("#[inline(never)]\nfn eatw(w: W<{ty}>) -> felt252 {{ {} }}\n", wrap_eat(w)));
    t.push_str(&format!("#[inline(never)]\nfn make(n: felt252) -> W<{ty}> {{ {} }}\n", wrap_ctor(w, arg_expr(a))));
    let body = match u {
        Use::Once => "eatw(w)".to_string(),
        Use::Twice => "eatw(w) + eatw(w)".to_string(),
        Use::LoopMove => "let mut i: u32 = 0; let mut acc = a; loop { if i == 2 { break; } acc = acc + eatw(w); i += 1; }; acc".to_string(),
        Use::Desnap => "let s = @w; let w2 = *s; eatw(w2) + eatw(w)".to_string(),
        Use::Closure => "let c = |x: felt252| x + eatw(w); c(a) + eatw(w)".to_string(),
        Use::DropImplicit => "let _s = @w; a".to_string(),
        Use::DropInBranch => "if a == 3 { eatw(w) } else { a }".to_string(),
        Use::AcrossPanic => "let r = may_panic(a); r + eatw(w)".to_string(),
    };
    t.push_str(&format!("fn user(w: W<{ty}>, a: felt252) -> felt252 {{ {body} }}\n"));
    t.push_str("fn main() -> felt252 { user(make(1), 2) }\n");

    let desc = format!("{w:?}<{a:?}> copy impl {copy_impl:?}, drop impl {drop_impl:?}, use {u:?}");
    let expect = if !need_ok {
        let what = format!("hand-written special impls: {desc}");
        match u {
            Use::Twice | Use::Desnap | Use::Closure | Use::LoopMove if !copy_ok => Expect::Violation(Inject::UseAfterMove(what)),
            _ => Expect::Violation(Inject::MissingDrop(what)),
        }
    } else if all_legit {
        Expect::Accept
    } else {
        Expect::Explore
    };
    SUnit { text: t, desc, expect }
}
