//! Placement family: every injected violation shape (use after move, missing drop incl. the
//! capability lattice, out-of-gas capture) is put into every kind of function body the compiler
//! lowers - free fn, impl fn, trait fn with a default body (called through an impl that does not
//! override it / never called / trait without impl), generic fn (instantiated or not), generic
//! impl fn, generic trait default fn, fn in nested modules, closure body, loop / while / for body,
//! #[inline(always)] / #[inline(never)] fn, fn of a #[generate_trait] impl, fn of an impl / default
//! fn of a trait with associated items.  For every container there is a control unit with a benign
//! body that must be accepted and compile (so a container that is rejected for another reason does
//! not pass as "diagnosed").
use crate::pgen::{Inject, Snip, snippet};

pub const CONTAINERS: usize = 18;

fn arg_names(params: &str) -> String {
    params.split(',').map(|p| p.split(':').next().unwrap().trim().to_string()).collect::<Vec<_>>().join(", ")
}

/// None: the container cannot host this body (closures / loops host statement snippets only).
pub fn place(container: usize, s: &Snip, gas: bool) -> Option<(String, &'static str)> {
    let p = &s.params;
    let args = arg_names(p);
    let plain = s.body.replace("//SNIP\n", "");
    let parts: Vec<&str> = s.body.split("//SNIP\n").collect();
    let looped = |open: &str, close: &str| -> Option<String> {
        if gas || parts.len() != 3 || parts[1].contains("return") { return None; }
        Some(format!("{}    let mut i: u32 = 0;\n    {open}\n{}    {close}\n{}", parts[0], parts[1], parts[2]))
    };
    let (code, name): (String, &'static str) = match container {
        0 => (format!("fn host({p}) -> felt252 {{\n{plain}}}\n"), "free fn"),
        1 => (format!("trait T1 {{ fn f({p}) -> felt252; }}\nimpl I1 of T1 {{\n fn f({p}) -> felt252 {{\n{plain}}}\n}}\nfn call1({p}) -> felt252 {{ I1::f({args}) }}\n"), "impl fn"),
        2 => (format!("trait T2 {{\n fn f({p}) -> felt252 {{\n{plain}}}\n}}\nimpl I2 of T2 {{}}\nfn call2({p}) -> felt252 {{ I2::f({args}) }}\n"), "trait default fn, called through an impl that does not override it"),
        3 => (format!("trait T3 {{\n fn f({p}) -> felt252 {{\n{plain}}}\n}}\nimpl I3 of T3 {{}}\n"), "trait default fn, never called"),
        4 => (format!("trait T4 {{\n fn f({p}) -> felt252 {{\n{plain}}}\n}}\n"), "trait default fn of a trait without impl"),
        5 => (format!("fn g5<T, +Drop<T>>(t: T, {p}) -> felt252 {{\n{plain}}}\nfn call5({p}) -> felt252 {{ g5(5_u8, {args}) }}\n"), "generic fn, instantiated"),
        6 => (format!("fn g6<T, +Drop<T>>(t: T, {p}) -> felt252 {{\n{plain}}}\n"), "generic fn, not instantiated"),
        7 => (format!("trait T7<T> {{ fn f(t: T, {p}) -> felt252; }}\nimpl I7<T, +Drop<T>> of T7<T> {{\n fn f(t: T, {p}) -> felt252 {{\n{plain}}}\n}}\nfn call7({p}) -> felt252 {{ I7::<u8>::f(5_u8, {args}) }}\n"), "generic impl fn"),
        8 => (format!("trait T8<T, +Drop<T>> {{\n fn f(t: T, {p}) -> felt252 {{\n{plain}}}\n}}\nimpl I8 of T8<u8> {{}}\nfn call8({p}) -> felt252 {{ I8::f(5_u8, {args}) }}\n"), "generic trait default fn"),
        9 => return Some((format!("mod outer_m {{\n pub mod inner_m {{\n{}  pub fn host({p}) -> felt252 {{\n{plain}}}\n }}\n}}\n", s.prelude), "fn in a nested module (inline modules, file without functions)")),
        10 => {
            if gas || plain.contains("return") { return None; }
            (format!("fn host(a: felt252) -> felt252 {{\n    let c = |a: felt252| -> felt252 {{\n{plain}    }};\n    c(a)\n}}\n"), "closure body")
        }
        11 => (format!("fn host({p}) -> felt252 {{\n{}}}\n", looped("loop { if i == 1 { break; }", "i += 1; };")?), "loop body"),
        12 => (format!("fn host({p}) -> felt252 {{\n{}}}\n", looped("while i != 1 {", "i += 1; };")?), "while body"),
        13 => (format!("fn host({p}) -> felt252 {{\n{}}}\n", looped("for _e in array![i].span() {", "};")?), "for body"),
        14 => (format!("#[inline(always)]\nfn host({p}) -> felt252 {{\n{plain}}}\nfn call14({p}) -> felt252 {{ host({args}) }}\n"), "#[inline(always)] fn"),
        15 => (format!("#[inline(never)]\nfn host({p}) -> felt252 {{\n{plain}}}\nfn call15({p}) -> felt252 {{ host({args}) }}\n"), "#[inline(never)] fn"),
        16 => (format!("#[generate_trait]\nimpl GI of GT {{\n fn f({p}) -> felt252 {{\n{plain}}}\n}}\nfn call16({p}) -> felt252 {{ GI::f({args}) }}\n"), "fn of a #[generate_trait] impl"),
        _ => (format!("trait TA {{\n type X;\n const K: felt252;\n fn f({p}) -> felt252;\n fn h({p}) -> felt252 {{\n{plain}}}\n}}\nimpl IA of TA {{\n type X = felt252;\n const K: felt252 = 3;\n fn f({p}) -> felt252 {{\n{plain}}}\n}}\nfn call17({p}) -> felt252 {{ IA::h({args}) }}\n"), "impl fn and default fn of a trait with associated items"),
    };
    Some((format!("{}{}", s.prelude, code), name))
}

pub struct PUnit { pub text: String, pub desc: String, pub inject: Option<Inject> }

/// One round: every container x {benign control, use after move, missing drop, out-of-gas}.
pub fn round(seed: u64) -> Vec<PUnit> {
    let mut res = vec![];
    for c in 0..CONTAINERS {
        for kind in 0..4u8 {
            let s = snippet(seed.wrapping_add(c as u64 * 7 + kind as u64), kind);
            if kind != 0 && s.inject.is_none() { continue; }
            // the recursive out-of-gas variant names itself: free functions only
            if kind == 3 && s.body.contains("zgas(") { continue; }
            if let Some((text, name)) = place(c, &s, kind == 3) {
                let what = match &s.inject { None => "benign control".to_string(), Some(i) => format!("{i:?}") };
                res.push(PUnit { text, desc: format!("{name}: {what}"), inject: s.inject.clone() });
            }
        }
    }
    res
}
