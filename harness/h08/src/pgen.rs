//! Typed generator of small Cairo crates exercising ownership: structs with / without
//! Copy / Drop / Destruct / PanicDestruct, moves into calls, branches, matches, loops, snapshots,
//! early returns, panics, `let mut` re-assignment (gives remappings), generics.  The generator
//! tracks, for every variable, whether it is live, so the base program is meant to be accepted
//! (that is measured, not assumed: a rejected base program is simply not used for the "compiles"
//! oracle).  A *mutant* is the same program plus one snippet that certainly contains a use after
//! move or a value that can neither be dropped nor destructed, put at a point the control flow
//! reaches.
use vcommon::Rng;

pub const PRELUDE: &str = r#"use core::panics::Panic;
#[derive(Copy, Drop)]
struct P { a: felt252 }
#[derive(Drop)]
struct D { a: felt252, b: u32 }
struct N { a: felt252 }
struct X { a: felt252 }
impl XDestruct of Destruct<X> { fn destruct(self: X) nopanic { let X { a: _ } = self; } }
struct Y { a: felt252 }
impl YPanicDestruct of PanicDestruct<Y> { fn panic_destruct(self: Y, ref panic: Panic) nopanic { let Y { a: _ } = self; } }
#[derive(Drop)]
enum E { A: D, B: felt252 }
enum EN { A: N, B: felt252 }
struct W { n: N, d: D }
fn eat_p(x: P) -> felt252 nopanic { x.a }
fn eat_d(x: D) -> felt252 nopanic { let D { a, b: _ } = x; a }
fn eat_n(x: N) -> felt252 nopanic { let N { a } = x; a }
fn eat_x(x: X) -> felt252 nopanic { let X { a } = x; a }
fn eat_y(x: Y) -> felt252 nopanic { let Y { a } = x; a }
fn eat_e(x: E) -> felt252 nopanic { match x { E::A(d) => eat_d(d), E::B(f) => f } }
fn eat_en(x: EN) -> felt252 nopanic { match x { EN::A(n) => eat_n(n), EN::B(f) => f } }
fn eat_w(x: W) -> felt252 nopanic { let W { n, d } = x; mix(eat_n(n), eat_d(d)) }
fn eat_arr(x: Array<felt252>) -> felt252 nopanic { let _y = x; 0 }
fn eat_d_p(x: D) -> felt252 { assert(x.b != 7, 'boom'); x.a }
fn eat_n_p(x: N) -> felt252 { let N { a } = x; assert(a != 7, 'boom'); a }
fn may_panic(a: felt252) -> felt252 { assert(a != 99, 'boom'); a }
fn peek_d(x: @D) -> felt252 nopanic { *x.a }
fn peek_n(x: @N) -> felt252 nopanic { *x.a }
fn peek_x(x: @X) -> felt252 nopanic { *x.a }
fn mix(a: felt252, b: felt252) -> felt252 nopanic { let _c = b; a }
fn nz(a: felt252) -> bool nopanic { match a { 0 => false, _ => true } }
fn gid<T>(x: T) -> T nopanic { x }
fn gdrop<T, +Drop<T>>(x: T) nopanic {}
fn eat_dict(x: Felt252Dict<felt252>) -> felt252 nopanic { let _s = x.squash(); 0 }
fn eat_box(x: Box<D>) -> felt252 nopanic { eat_d(x.unbox()) }
"#;

#[derive(Clone, Copy, PartialEq, Eq, Debug)]
pub enum Ty { Felt, P, D, N, X, Y, Arr, E, EN, W, Dict, BoxD, AP, AX }
#[derive(Clone, Copy, PartialEq, Eq, Debug)]
pub enum Class { Copy, Drop, Must, Destr, PDestr }

pub fn class(t: Ty) -> Class {
    match t {
        Ty::Felt | Ty::P => Class::Copy,
        Ty::D | Ty::Arr | Ty::E | Ty::BoxD => Class::Drop,
        Ty::N | Ty::EN | Ty::W => Class::Must,
        Ty::X | Ty::Dict | Ty::AX => Class::Destr,
        Ty::Y | Ty::AP => Class::PDestr,
    }
}
fn ty_name(t: Ty) -> &'static str {
    match t {
        Ty::Felt => "felt252", Ty::P => "P", Ty::D => "D", Ty::N => "N", Ty::X => "X", Ty::Y => "Y",
        Ty::Arr => "Array<felt252>", Ty::E => "E", Ty::EN => "EN", Ty::W => "W",
        Ty::Dict => "Felt252Dict<felt252>", Ty::BoxD => "Box<D>", Ty::AP => "AP", Ty::AX => "AX",
    }
}
/// nopanic consumer of a value of type t, as a felt252 expression
fn eat(t: Ty, v: &str) -> String {
    match t {
        Ty::Felt => v.to_string(),
        Ty::P => format!("eat_p({v})"), Ty::D => format!("eat_d({v})"), Ty::N => format!("eat_n({v})"),
        Ty::X => format!("eat_x({v})"), Ty::Y => format!("eat_y({v})"), Ty::Arr => format!("eat_arr({v})"),
        Ty::E => format!("eat_e({v})"), Ty::EN => format!("eat_en({v})"), Ty::W => format!("eat_w({v})"),
        Ty::Dict => format!("eat_dict({v})"), Ty::BoxD => format!("eat_box({v})"),
        Ty::AP => format!("eat_ap({v})"), Ty::AX => format!("eat_ax({v})"),
    }
}
const ALL_TYS: [Ty; 14] = [Ty::Felt, Ty::P, Ty::D, Ty::N, Ty::X, Ty::Y, Ty::Arr, Ty::E, Ty::EN, Ty::W, Ty::Dict, Ty::BoxD, Ty::AP, Ty::AX];
/// types whose constructor expression is a (panicable) call
fn ctor_calls(t: Ty) -> bool { matches!(t, Ty::Arr | Ty::Dict | Ty::BoxD) }
const NONCOPY: [Ty; 10] = [Ty::D, Ty::N, Ty::X, Ty::Y, Ty::Arr, Ty::E, Ty::EN, Ty::W, Ty::AP, Ty::AX];

#[derive(Clone, Debug)]
struct Var { name: String, ty: Ty, live: bool, mutable: bool }

/// What a mutant injects (the generator knows it is there and that control reaches it).
#[derive(Clone, Debug, PartialEq, Eq)]
pub enum Inject {
    UseAfterMove(String),
    MissingDrop(String),
    /// a violation only where the compiler inserts withdraw_gas (which may panic) into recursive
    /// functions / loops: rejected iff gas is enabled
    MissingDropOutOfGas(String),
}

/// where / what to inject
#[derive(Clone, Copy, Debug, PartialEq, Eq)]
pub enum Plan { Uam(usize), Md(usize), Gas }

pub struct Gen {
    rng: Rng,
    irng: Rng,
    out: String,
    env: Vec<Var>,
    /// frames of enclosing branch/loop blocks: (env length at block start, outer variables the
    /// block may consume)
    frames: Vec<(usize, Vec<String>)>,
    counter: usize,
    safe_points: usize,
    plan: Option<Plan>,
    /// > 0 inside a branch that was chosen to end in a panic
    panic_region: usize,
    /// members of the per-crate aggregates AP (PanicDestruct only) and AX (Destruct only)
    ap: Vec<Ty>,
    ax: Vec<Ty>,
    pub injected: Option<Inject>,
    diverged: bool,
    in_loop: usize,
    pub shapes: std::collections::BTreeMap<&'static str, usize>,
}

impl Gen {
    fn ctor(&mut self, t: Ty) -> String {
        let k = self.rng.below(9) + 1;
        match t {
            Ty::Felt => format!("{k}"),
            Ty::P => format!("P {{ a: {k} }}"),
            Ty::D => format!("D {{ a: {k}, b: {} }}", self.rng.below(5)),
            Ty::N => format!("N {{ a: {k} }}"),
            Ty::X => format!("X {{ a: {k} }}"),
            Ty::Y => format!("Y {{ a: {k} }}"),
            Ty::Arr => "array![1, 2]".to_string(),
            Ty::E => if self.rng.bool() { format!("E::A(D {{ a: {k}, b: 1 }})") } else { format!("E::B({k})") },
            Ty::EN => if self.rng.bool() { format!("EN::A(N {{ a: {k} }})") } else { format!("EN::B({k})") },
            Ty::W => format!("W {{ n: N {{ a: {k} }}, d: D {{ a: 2, b: {k} }} }}"),
            Ty::Dict => "Default::<Felt252Dict<felt252>>::default()".to_string(),
            Ty::BoxD => format!("BoxTrait::new(D {{ a: {k}, b: 1 }})"),
            Ty::AP | Ty::AX => {
                let ms = if t == Ty::AP { self.ap.clone() } else { self.ax.clone() };
                let fs: Vec<String> = ms.iter().enumerate().map(|(i, m)| format!("m{i}: {}", self.ctor(*m))).collect();
                format!("{} {{ {} }}", ty_name(t), fs.join(", "))
            }
        }
    }
    /// constructor expression drawn from the injection stream
    fn ictor(&mut self, t: Ty) -> String {
        let mut g = Gen::scratch(self.irng.next());
        g.ap = self.ap.clone();
        g.ax = self.ax.clone();
        g.ctor(t)
    }
    fn fresh(&mut self, p: &str) -> String {
        self.counter += 1;
        format!("{p}{}", self.counter)
    }
    fn line(&mut self, depth: usize, s: &str) {
        for _ in 0..depth { self.out.push_str("    "); }
        self.out.push_str(s);
        self.out.push('\n');
    }
    fn shape(&mut self, s: &'static str) { *self.shapes.entry(s).or_insert(0) += 1; }
    fn panic_ok(&self) -> bool {
        // `array!` and arithmetic are panicable calls before inlining
        !self.env.iter().any(|v| v.live && class(v.ty) == Class::Must)
    }
    fn may_consume(&self, idx: usize) -> bool {
        let v = &self.env[idx];
        self.frames.iter().all(|(len, allowed)| idx >= *len || allowed.contains(&v.name))
    }
    fn consumable(&self) -> Vec<usize> {
        (0..self.env.len())
            .filter(|&i| self.env[i].live && class(self.env[i].ty) != Class::Copy && self.may_consume(i))
            .collect()
    }
    fn acc_add(&mut self, depth: usize, e: &str) {
        if self.panic_ok() && self.rng.bool() {
            self.line(depth, &format!("acc = acc + {e};"));
        } else {
            self.line(depth, &format!("acc = mix(acc, {e});"));
        }
    }
    fn consume(&mut self, depth: usize, idx: usize) {
        let (name, ty) = (self.env[idx].name.clone(), self.env[idx].ty);
        self.env[idx].live = false;
        // the argument is no longer live when the callee runs
        let e = if self.panic_ok() && self.rng.below(4) == 0 && ty == Ty::D {
            format!("eat_d_p({name})")
        } else if self.panic_ok() && self.rng.below(4) == 0 && ty == Ty::N {
            format!("eat_n_p({name})")
        } else {
            eat(ty, &name)
        };
        self.acc_add(depth, &e);
    }
    /// consumes every live variable that must not be dropped silently: locals of the block that
    /// starts at `from`, plus the listed outer ones; with `all`, every one in scope (before return)
    fn discharge(&mut self, depth: usize, from: usize, outer: &[String], all: bool, panicky: bool) {
        for i in 0..self.env.len() {
            let v = &self.env[i];
            let c = class(v.ty);
            let owed = c == Class::Must || (c == Class::PDestr && !panicky);
            if v.live && owed && (all || i >= from || outer.contains(&v.name)) {
                self.consume(depth, i);
            }
        }
    }

    // ---- injection ----
    fn safe_point(&mut self, depth: usize) {
        if self.diverged { return; }
        self.safe_points += 1;
        if self.injected.is_none() {
            match self.plan {
                Some(Plan::Uam(t)) if t == self.safe_points => self.inject_uam(depth),
                Some(Plan::Md(t)) if t == self.safe_points => self.inject_md(depth),
                _ => {}
            }
        }
    }
    fn inject_uam(&mut self, depth: usize) {
        let z = self.fresh("zq");
        let live: Vec<usize> = self.consumable();
        let kind = self.irng.below(15);
        let t = *self.irng.pick(&NONCOPY);
        let c = self.ictor(t);
        let needs_arr = t == Ty::Arr;
        let what;
        // a fresh non-copyable value (or an existing live one) is consumed twice on one path
        if kind == 0 && !live.is_empty() {
            let i = *self.irng.pick(&live);
            let (n, ty) = (self.env[i].name.clone(), self.env[i].ty);
            self.env[i].live = false;
            self.line(depth, &format!("acc = mix(acc, {});", eat(ty, &n)));
            self.line(depth, &format!("acc = mix(acc, {});", eat(ty, &n)));
            what = format!("existing {} consumed twice", ty_name(ty));
        } else if needs_arr && !self.panic_ok() {
            // array! is a panicable call; keep the snippet about the move only
            self.line(depth, &format!("let {z} = D {{ a: 1, b: 1 }};"));
            self.line(depth, &format!("acc = mix(acc, eat_d({z}));"));
            self.line(depth, &format!("acc = mix(acc, eat_d({z}));"));
            what = "fresh D consumed twice".to_string();
        } else {
            self.line(depth, &format!("let {z} = {c};"));
            match kind {
                1 | 0 => {
                    self.line(depth, &format!("acc = mix(acc, {});", eat(t, &z)));
                    self.line(depth, &format!("acc = mix(acc, {});", eat(t, &z)));
                    what = format!("fresh {} consumed twice", ty_name(t));
                }
                2 => {
                    self.line(depth, &format!("if nz(acc) {{ acc = mix(acc, {}); }}", eat(t, &z)));
                    self.line(depth, &format!("acc = mix(acc, {});", eat(t, &z)));
                    what = format!("fresh {} moved in one branch, used after the merge", ty_name(t));
                }
                3 => {
                    let r = self.fresh("zr");
                    self.line(depth, &format!("let {r} = {z};"));
                    self.line(depth, &format!("acc = mix(acc, {});", eat(t, &z)));
                    self.line(depth, &format!("acc = mix(acc, {});", eat(t, &r)));
                    what = format!("fresh {} moved by let, then used", ty_name(t));
                }
                4 => {
                    let r = self.fresh("zr");
                    self.line(depth, &format!("acc = mix(acc, {});", eat(t, &z)));
                    self.line(depth, &format!("let {r} = @{z};"));
                    self.line(depth, &format!("let _ = {r};"));
                    what = format!("snapshot of a moved {}", ty_name(t));
                }
                5 => {
                    let (o, q) = (self.fresh("zo"), self.fresh("zr"));
                    self.line(depth, &format!("let {o} = Option::Some({z});"));
                    self.line(depth, &format!(
                        "match {o} {{ Option::Some({q}) => {{ acc = mix(acc, {}); acc = mix(acc, {}); }}, Option::None => {{}} }}",
                        eat(t, &q), eat(t, &q)));
                    what = format!("{} bound in a match arm consumed twice", ty_name(t));
                }
                6 => {
                    let r = self.fresh("zr");
                    self.line(depth, &format!("let {r} = gid({z});"));
                    self.line(depth, &format!("acc = mix(acc, {});", eat(t, &r)));
                    self.line(depth, &format!("acc = mix(acc, {});", eat(t, &z)));
                    what = format!("{} moved into a generic call, then used", ty_name(t));
                }
                8 => {
                    // the same variable twice in one input list
                    let r = self.fresh("zr");
                    self.line(depth, &format!("let {r} = ({z}, {z});"));
                    self.line(depth, &format!("let (_za, _zb) = {r};"));
                    self.line(depth, &format!("acc = mix(acc, {});", eat(t, "_za")));
                    self.line(depth, &format!("acc = mix(acc, {});", eat(t, "_zb")));
                    what = format!("{} twice in one tuple", ty_name(t));
                }
                9 => {
                    // one source remapped to two destinations at a merge
                    let (a, b) = (self.fresh("za"), self.fresh("zb"));
                    let c2 = self.ictor(if needs_arr { Ty::D } else { t });
                    let t2 = if needs_arr { Ty::D } else { t };
                    if needs_arr {
                        self.line(depth, &format!("let {z}d = D {{ a: 1, b: 1 }};"));
                        self.line(depth, &format!("let mut {a} = {z}d;"));
                        self.line(depth, &format!("let mut {b} = {z}d;"));
                        self.line(depth, &format!("acc = mix(acc, eat_arr({z}));"));
                    } else {
                        self.line(depth, &format!("let mut {a} = {z};"));
                        self.line(depth, &format!("let mut {b} = {z};"));
                    }
                    self.line(depth, &format!("if nz(acc) {{ {a} = {c2}; {b} = {c2}; }}"));
                    self.line(depth, &format!("acc = mix(acc, {});", eat(t2, &b)));
                    self.line(depth, &format!("acc = mix(acc, {});", eat(t2, &a)));
                    what = format!("{} moved into two mutable variables that are merged", ty_name(t2));
                }
                10 | 11 | 12 => {
                    // the scrutinee of a match / if-let / let-else is named again inside the construct
                    let (o, q, q2, ot) = (self.fresh("zo"), self.fresh("zr"), self.fresh("zr"), self.fresh("zother"));
                    let again = format!("match @@ {{ Option::Some({q2}) => {{ acc = mix(acc, {}); }}, Option::None => {{ }} }}", eat(t, &q2));
                    self.line(depth, &format!("let {o} = Option::Some({z});"));
                    if kind == 10 {
                        self.line(depth, &format!("match {o} {{ Option::Some({q}) => {{ acc = mix(acc, {}); }}, {ot} => {{ {} }} }}",
                            eat(t, &q), again.replace("@@", &ot)));
                        what = format!("Option<{}> re-bound by a catch-all pattern of its own match", ty_name(t));
                    } else if kind == 11 {
                        self.line(depth, &format!("if let Option::Some({q}) = {o} {{ acc = mix(acc, {}); }} else {{ {} }}",
                            eat(t, &q), again.replace("@@", &o)));
                        what = format!("Option<{}> used in the else branch of its own if-let", ty_name(t));
                    } else {
                        self.line(depth, &format!("let Option::Some({q}) = {o} else {{ {} return acc; }};", again.replace("@@", &o)));
                        self.line(depth, &format!("acc = mix(acc, {});", eat(t, &q)));
                        what = format!("Option<{}> used in the else block of its own let-else", ty_name(t));
                    }
                }
                13 | 14 => {
                    // user enum: catch-all re-binding, nested once more
                    let (q, o1, o2, f) = (self.fresh("zr"), self.fresh("zother"), self.fresh("zother"), self.fresh("zf"));
                    let (en, ety, inner) = if self.irng.bool() { ("E", Ty::E, Ty::D) } else { ("EN", Ty::EN, Ty::N) };
                    let c2 = self.ictor(ety);
                    let e = self.fresh("ze");
                    self.line(depth, &format!("acc = mix(acc, {});", eat(t, &z)));
                    self.line(depth, &format!("let {e} = {c2};"));
                    if kind == 13 {
                        self.line(depth, &format!("match {e} {{ {en}::A({q}) => {{ acc = mix(acc, {}); }}, {o1} => {{ acc = mix(acc, {}); }} }}",
                            eat(inner, &q), eat(ety, &o1)));
                        what = format!("{en} re-bound by a catch-all pattern of its own match");
                    } else {
                        self.line(depth, &format!(
                            "match {e} {{ {en}::B({f}) => {{ acc = mix(acc, {f}); }}, {o1} => {{ match {o1} {{ {en}::A({q}) => {{ acc = mix(acc, {}); }}, {o2} => {{ acc = mix(acc, {}); }} }} }} }}",
                            eat(inner, &q), eat(ety, &o2)));
                        what = format!("{en} re-bound twice by nested catch-all patterns");
                    }
                }
                _ => {
                    let r = self.fresh("zr");
                    self.line(depth, &format!("let {r} = ({z}, 1);"));
                    self.line(depth, &format!("let (_za, _zb) = {r};"));
                    self.line(depth, &format!("acc = mix(acc, {});", eat(t, "_za")));
                    self.line(depth, &format!("acc = mix(acc, {});", eat(t, &z)));
                    what = format!("{} moved into a tuple, then used", ty_name(t));
                }
            }
        }
        self.injected = Some(Inject::UseAfterMove(what));
    }
    fn inject_md(&mut self, depth: usize) {
        let z = self.fresh("zq");
        let mut kind = self.irng.below(13);
        // a PanicDestruct-only value may be dropped where every continuation panics
        if kind >= 7 && kind != 10 && self.panic_region > 0 { kind = 0; }
        let what;
        match kind {
            7 => {
                self.line(depth, &format!("let {z} = Y {{ a: 5 }};"));
                self.line(depth, &format!("let _ = @{z};"));
                what = "PanicDestruct-only Y never consumed on a path that returns";
            }
            8 => {
                self.line(depth, &format!("let {z} = Y {{ a: 5 }};"));
                self.line(depth, &format!("if nz(acc) {{ acc = mix(acc, eat_y({z})); }}"));
                what = "PanicDestruct-only Y consumed in one branch only, the other returns";
            }
            9 => {
                let c = self.ictor(Ty::AP);
                self.line(depth, &format!("let {z} = {c};"));
                self.line(depth, &format!("let _ = @{z};"));
                what = "PanicDestruct-only aggregate never consumed on a path that returns";
            }
            10 => {
                self.line(depth, &format!("let {z} = N {{ a: 5 }};"));
                self.line(depth, "if nz(acc) { core::panic_with_felt252('q'); }");
                self.line(depth, &format!("acc = mix(acc, eat_n({z}));"));
                what = "N live at an explicit panic";
            }
            11 => {
                self.line(depth, &format!("let mut {z} = Y {{ a: 5 }};"));
                self.line(depth, &format!("{z} = Y {{ a: 6 }};"));
                self.line(depth, &format!("acc = mix(acc, eat_y({z}));"));
                what = "PanicDestruct-only Y overwritten by assignment on a path that returns";
            }
            12 => {
                let o = self.fresh("zo");
                self.line(depth, &format!("let {z} = Y {{ a: 5 }};"));
                self.line(depth, &format!("let {o} = Option::Some({z});"));
                self.line(depth, &format!(
                    "match {o} {{ Option::Some(_zy) => {{ acc = mix(acc, 1); }}, Option::None => {{}} }}"));
                what = "PanicDestruct-only Y bound in a match arm and dropped there";
            }
            0 => {
                self.line(depth, &format!("let {z} = N {{ a: 5 }};"));
                self.line(depth, &format!("acc = mix(acc, peek_n(@{z}));"));
                what = "N never consumed";
            }
            1 => {
                self.line(depth, &format!("let {z} = N {{ a: 5 }};"));
                self.line(depth, &format!("if nz(acc) {{ acc = mix(acc, eat_n({z})); }}"));
                what = "N consumed in one branch only";
            }
            2 => {
                self.line(depth, &format!("let {z} = N {{ a: 5 }};"));
                self.line(depth, "acc = mix(acc, may_panic(acc));");
                self.line(depth, &format!("acc = mix(acc, eat_n({z}));"));
                what = "N live across a panicable call";
            }
            3 => {
                self.line(depth, &format!("let {z} = EN::A(N {{ a: 5 }});"));
                self.line(depth, &format!("let _ = @{z};"));
                what = "enum holding N never consumed";
            }
            4 => {
                self.line(depth, &format!("let mut {z} = N {{ a: 5 }};"));
                self.line(depth, &format!("{z} = N {{ a: 6 }};"));
                self.line(depth, &format!("acc = mix(acc, eat_n({z}));"));
                what = "N overwritten by assignment";
            }
            5 => {
                self.line(depth, &format!("let {z} = W {{ n: N {{ a: 5 }}, d: D {{ a: 1, b: 1 }} }};"));
                self.line(depth, &format!("let W {{ n: _zn, d: _zd }} = {z};"));
                what = "N member bound by destructuring and never consumed";
            }
            _ => {
                let o = self.fresh("zo");
                self.line(depth, &format!("let {z} = N {{ a: 5 }};"));
                self.line(depth, &format!("let {o} = Option::Some({z});"));
                self.line(depth, &format!(
                    "match {o} {{ Option::Some(_zn) => {{ acc = mix(acc, 1); }}, Option::None => {{}} }}"));
                what = "N bound in a match arm and never consumed";
            }
        }
        self.injected = Some(Inject::MissingDrop(what.to_string()));
    }

    fn scratch(seed: u64) -> Gen {
        Gen { rng: Rng(seed), irng: Rng(seed ^ 0x5555), out: String::new(), env: vec![], frames: vec![],
              counter: 0, safe_points: 0, plan: None, panic_region: 0, ap: vec![Ty::Y, Ty::Y], ax: vec![Ty::X, Ty::D], injected: None, diverged: false, in_loop: 0,
              shapes: Default::default() }
    }

    // ---- statements ----
    fn stmts(&mut self, depth: usize, budget: usize) {
        let n = 1 + self.rng.below(budget as u64 + 1) as usize;
        for _ in 0..n {
            if self.diverged { return; }
            self.safe_point(depth);
            self.stmt(depth, budget);
        }
        if !self.diverged { self.safe_point(depth); }
    }
    fn stmt(&mut self, depth: usize, budget: usize) {
        let choice = self.rng.below(122);
        let cons = self.consumable();
        match choice {
            0..=17 => {
                // new variable
                let mut t = *self.rng.pick(&ALL_TYS);
                if ctor_calls(t) && !self.panic_ok() { t = Ty::D; }
                if self.in_loop > 0 && class(t) == Class::Must && self.rng.bool() { t = Ty::X; }
                let c = self.ctor(t);
                let name = self.fresh("v");
                let mutable = self.rng.below(3) == 0 || t == Ty::Dict;
                self.line(depth, &format!("let {}{name} = {c};", if mutable { "mut " } else { "" }));
                self.env.push(Var { name, ty: t, live: true, mutable });
                self.shape("let");
            }
            18..=34 => {
                if let Some(&i) = cons.first().map(|_| self.rng.pick(&cons)) { self.consume(depth, i); self.shape("consume"); }
            }
            35..=42 => {
                // peek through a snapshot (does not move)
                let c: Vec<usize> = (0..self.env.len()).filter(|&i| self.env[i].live && matches!(self.env[i].ty, Ty::D | Ty::N | Ty::X)).collect();
                if !c.is_empty() {
                    let i = *self.rng.pick(&c);
                    let f = match self.env[i].ty { Ty::D => "peek_d", Ty::N => "peek_n", _ => "peek_x" };
                    let e = format!("{f}(@{})", self.env[i].name);
                    self.acc_add(depth, &e);
                    self.shape("snapshot");
                }
            }
            43..=46 => {
                // copy use, member read, desnap of a copyable
                let c: Vec<usize> = (0..self.env.len()).filter(|&i| self.env[i].live && matches!(self.env[i].ty, Ty::P | Ty::D)).collect();
                if !c.is_empty() {
                    let i = *self.rng.pick(&c);
                    let n = self.env[i].name.clone();
                    if self.env[i].ty == Ty::P && self.rng.bool() {
                        let s = self.fresh("s");
                        let q = self.fresh("v");
                        self.line(depth, &format!("let {s} = @{n};"));
                        self.line(depth, &format!("let {q}: P = *{s};"));
                        self.env.push(Var { name: q, ty: Ty::P, live: true, mutable: false });
                        self.shape("desnap");
                    } else {
                        self.acc_add(depth, &format!("{n}.a"));
                        self.shape("member");
                    }
                }
            }
            47..=60 if budget > 0 => self.if_else(depth, budget - 1),
            61..=68 if budget > 0 => self.match_opt(depth, budget - 1),
            69..=73 if budget > 0 && self.panic_ok() => self.loop_(depth, budget - 1),
            74..=79 => {
                // re-assignment of a `let mut`
                let c: Vec<usize> = (0..self.env.len()).filter(|&i| self.env[i].mutable && self.may_consume(i)).collect();
                if !c.is_empty() {
                    let i = *self.rng.pick(&c);
                    let cl = class(self.env[i].ty);
                    if self.env[i].live && (cl == Class::Must || cl == Class::PDestr) { self.consume(depth, i); }
                    let t = self.env[i].ty;
                    if ctor_calls(t) && !self.panic_ok() { return; }
                    let cc = self.ctor(t);
                    let n = self.env[i].name.clone();
                    self.line(depth, &format!("{n} = {cc};"));
                    self.env[i].live = true;
                    self.shape("reassign");
                }
            }
            80..=84 => {
                // move through a generic function / plain let
                if !cons.is_empty() {
                    let i = *self.rng.pick(&cons);
                    let (n, t) = (self.env[i].name.clone(), self.env[i].ty);
                    self.env[i].live = false;
                    let w = self.fresh("v");
                    if self.rng.bool() { self.line(depth, &format!("let {w} = gid({n});")); } else { self.line(depth, &format!("let {w} = {n};")); }
                    self.env.push(Var { name: w, ty: t, live: true, mutable: false });
                    self.shape("move");
                }
            }
            85..=89 => {
                // destructure a W or a D
                let c: Vec<usize> = cons.iter().copied().filter(|&i| matches!(self.env[i].ty, Ty::W | Ty::D)).collect();
                if !c.is_empty() {
                    let i = *self.rng.pick(&c);
                    let n = self.env[i].name.clone();
                    self.env[i].live = false;
                    if self.env[i].ty == Ty::W {
                        let (a, b) = (self.fresh("v"), self.fresh("v"));
                        self.line(depth, &format!("let W {{ n: {a}, d: {b} }} = {n};"));
                        self.env.push(Var { name: a, ty: Ty::N, live: true, mutable: false });
                        self.env.push(Var { name: b, ty: Ty::D, live: true, mutable: false });
                    } else {
                        let a = self.fresh("v");
                        self.line(depth, &format!("let D {{ a: {a}, b: _ }} = {n};"));
                        self.env.push(Var { name: a, ty: Ty::Felt, live: true, mutable: false });
                    }
                    self.shape("destructure");
                }
            }
            90..=93 if self.panic_ok() => {
                self.line(depth, "acc = acc + may_panic(acc);");
                self.shape("panicable_call");
            }
            94..=96 => {
                // drop explicitly through a generic with a Drop bound
                let c: Vec<usize> = cons.iter().copied().filter(|&i| class(self.env[i].ty) == Class::Drop).collect();
                if !c.is_empty() {
                    let i = *self.rng.pick(&c);
                    self.env[i].live = false;
                    let n = self.env[i].name.clone();
                    self.line(depth, &format!("gdrop({n});"));
                    self.shape("gdrop");
                }
            }
            100..=103 if self.panic_ok() => {
                // dictionary traffic (a real Destruct-only type)
                let c: Vec<usize> = (0..self.env.len()).filter(|&i| self.env[i].live && self.env[i].ty == Ty::Dict && self.env[i].mutable).collect();
                if !c.is_empty() {
                    let i = *self.rng.pick(&c);
                    let n = self.env[i].name.clone();
                    let k = self.rng.below(4);
                    self.line(depth, &format!("{n}.insert({k}, acc);"));
                    self.line(depth, &format!("acc = acc + {n}.get({k});"));
                    self.shape("dict");
                }
            }
            104..=107 if self.panic_ok() => {
                let a = self.fresh("v");
                let e = self.fresh("e");
                self.line(depth, &format!("let mut {a} = array![acc, 2, 3];"));
                self.line(depth, &format!("{a}.append(4);"));
                self.line(depth, &format!("for {e} in {a}.span() {{ acc = acc + *{e}; }};"));
                self.env.push(Var { name: a, ty: Ty::Arr, live: true, mutable: true });
                self.shape("array_for");
            }
            108..=110 => {
                if !cons.is_empty() {
                    let i = *self.rng.pick(&cons);
                    let (n, t) = (self.env[i].name.clone(), self.env[i].ty);
                    self.env[i].live = false;
                    let (w, u) = (self.fresh("v"), self.fresh("u"));
                    self.line(depth, &format!("let ({w}, {u}) = ({n}, 7);"));
                    self.env.push(Var { name: w, ty: t, live: true, mutable: false });
                    self.acc_add(depth, &u);
                    self.shape("tuple");
                }
            }
            111..=114 if budget > 0 => {
                let handed = self.hand_over();
                self.line(depth, "match acc {");
                self.line(depth + 1, "0 => {");
                let d1 = self.branch(depth + 2, budget - 1, &handed, None, true);
                self.line(depth + 1, "},");
                self.line(depth + 1, "_ => {");
                self.branch(depth + 2, budget - 1, &handed, None, !d1);
                self.line(depth + 1, "},");
                self.line(depth, "}");
                self.after_branches(&handed);
                self.shape("match_felt");
            }
            115..=117 if self.panic_ok() => {
                let (k, c) = (self.fresh("k"), self.fresh("c"));
                self.line(depth, &format!("let {k} = acc;"));
                self.line(depth, &format!("let {c} = |x: felt252| mix(x, {k});"));
                let arg = self.rng.below(9);
                self.line(depth, &format!("acc = mix(acc, {c}({arg}));"));
                self.shape("closure");
            }
            118..=121 if self.in_loop == 0 => {
                // let-else with an early return
                if !cons.is_empty() {
                    let i = *self.rng.pick(&cons);
                    let (n, t) = (self.env[i].name.clone(), self.env[i].ty);
                    self.env[i].live = false;
                    let (o, q) = (self.fresh("o"), self.fresh("q"));
                    self.line(depth, &format!("let {o} = Option::Some({n});"));
                    self.line(depth, &format!("let Option::Some({q}) = {o} else {{"));
                    let saved = self.env.clone();
                    self.discharge(depth + 1, 0, &[], true, false);
                    self.line(depth + 1, "return acc;");
                    self.env = saved;
                    self.line(depth, "};");
                    self.env.push(Var { name: q, ty: t, live: true, mutable: false });
                    self.shape("let_else");
                }
            }
            _ => {
                let e = format!("{}", self.rng.below(50));
                self.acc_add(depth, &e);
            }
        }
    }

    /// Picks the outer variables a branching construct hands over to its branches.
    fn hand_over(&mut self) -> Vec<String> {
        let cons = self.consumable();
        let mut v = vec![];
        for i in cons { if self.rng.below(3) == 0 { v.push(self.env[i].name.clone()); } }
        v
    }
    fn branch(&mut self, depth: usize, budget: usize, handed: &[String], intro: Option<(String, Ty)>, may_diverge: bool) -> bool {
        let saved = self.env.clone();
        let from = self.env.len();
        self.frames.push((from, handed.to_vec()));
        if let Some((n, t)) = intro { self.env.push(Var { name: n, ty: t, live: true, mutable: false }); }
        let r = self.rng.below(10);
        let ends_in_panic = may_diverge && self.in_loop == 0 && r == 1;
        if ends_in_panic { self.panic_region += 1; }
        self.stmts(depth, budget);
        if ends_in_panic { self.panic_region -= 1; }
        let mut div = false;
        if !self.diverged {
            if may_diverge && self.in_loop == 0 && r == 0 {
                self.discharge(depth, 0, &[], true, false);
                self.line(depth, "return acc;");
                self.shape("early_return");
                div = true;
            } else if may_diverge && self.in_loop == 0 && r == 1 && self.panic_ok() {
                self.line(depth, "core::panic_with_felt252('p');");
                self.shape("panic");
                div = true;
            } else {
                self.discharge(depth, from, handed, false, false);
            }
        }
        self.frames.pop();
        // restore the outer environment; handed-over variables are gone after the construct
        let inner_diverged = self.diverged || div;
        self.diverged = false;
        self.env = saved;
        inner_diverged
    }
    fn after_branches(&mut self, handed: &[String]) {
        for v in self.env.iter_mut() { if handed.contains(&v.name) { v.live = false; } }
    }
    fn if_else(&mut self, depth: usize, budget: usize) {
        let handed = self.hand_over();
        let cond = if self.rng.bool() { "nz(acc)".to_string() } else { format!("nz(mix(acc, {}))", self.rng.below(9)) };
        self.line(depth, &format!("if {cond} {{"));
        let d1 = self.branch(depth + 1, budget, &handed, None, true);
        if self.rng.below(4) == 0 && handed.is_empty() {
            self.line(depth, "}");
        } else {
            self.line(depth, "} else {");
            self.branch(depth + 1, budget, &handed, None, !d1);
            self.line(depth, "}");
        }
        self.after_branches(&handed);
        self.shape("if");
    }
    fn match_opt(&mut self, depth: usize, budget: usize) {
        let cons = self.consumable();
        if cons.is_empty() { return; }
        let i = *self.rng.pick(&cons);
        let (n, t) = (self.env[i].name.clone(), self.env[i].ty);
        self.env[i].live = false;
        let handed = self.hand_over();
        if matches!(t, Ty::E | Ty::EN) {
            let (q, f) = (self.fresh("q"), self.fresh("q"));
            let (en, inner) = if t == Ty::E { ("E", Ty::D) } else { ("EN", Ty::N) };
            self.line(depth, &format!("match {n} {{"));
            self.line(depth + 1, &format!("{en}::A({q}) => {{"));
            let d1 = self.branch(depth + 2, budget, &handed, Some((q, inner)), true);
            self.line(depth + 1, "},");
            self.line(depth + 1, &format!("{en}::B({f}) => {{"));
            self.branch(depth + 2, budget, &handed, Some((f, Ty::Felt)), !d1);
            self.line(depth + 1, "},");
            self.line(depth, "}");
            self.shape("match_enum");
        } else {
            let (o, q) = (self.fresh("o"), self.fresh("q"));
            self.line(depth, &format!("let {o} = if nz(acc) {{ Option::Some({n}) }} else {{ Option::Some({n}) }};"));
            // both arms of the `if` move n: accepted, and gives a remapping of the option
            if self.rng.bool() {
                self.line(depth, &format!("if let Option::Some({q}) = {o} {{"));
                let d1 = self.branch(depth + 1, budget, &handed, Some((q, t)), true);
                self.line(depth, "} else {");
                self.branch(depth + 1, budget, &handed, None, !d1);
                self.line(depth, "}");
                self.shape("if_let");
            } else {
            self.line(depth, &format!("match {o} {{"));
            self.line(depth + 1, &format!("Option::Some({q}) => {{"));
            let d1 = self.branch(depth + 2, budget, &handed, Some((q, t)), true);
            self.line(depth + 1, "},");
            self.line(depth + 1, "Option::None => {");
            self.branch(depth + 2, budget, &handed, None, !d1);
            self.line(depth + 1, "},");
            self.line(depth, "}");
            self.shape("match_option");
            }
        }
        self.after_branches(&handed);
    }
    fn loop_(&mut self, depth: usize, budget: usize) {
        let i = self.fresh("i");
        let k = 1 + self.rng.below(3);
        self.line(depth, &format!("let mut {i}: u32 = 0;"));
        let w = self.rng.bool();
        if w { self.line(depth, &format!("while {i} != {k} {{")); } else {
            self.line(depth, "loop {");
            self.line(depth + 1, &format!("if {i} == {k} {{ break; }}"));
        }
        self.in_loop += 1;
        // nothing from outside may be consumed in a loop body
        let saved = self.env.clone();
        let from = self.env.len();
        self.frames.push((from, vec![]));
        self.stmts(depth + 1, budget);
        self.discharge(depth + 1, from, &[], false, false);
        self.frames.pop();
        self.env = saved;
        self.in_loop -= 1;
        self.line(depth + 1, &format!("{i} += 1;"));
        self.line(depth, "};");
        self.shape(if w { "while" } else { "loop" });
    }

    fn function(&mut self, name: &str, method_of: Option<Ty>, budget: usize) -> (String, Vec<Ty>) {
        self.env.clear();
        let mut params = vec![];
        let mut sig = vec![];
        if let Some(t) = method_of {
            self.env.push(Var { name: "self".into(), ty: t, live: true, mutable: false });
            sig.push(format!("self: {}", ty_name(t)));
        }
        sig.push("a: felt252".to_string());
        let np = self.rng.below(4);
        for _ in 0..np {
            let mut t = *self.rng.pick(&ALL_TYS);
            if t == Ty::Felt { t = Ty::D; }
            let n = self.fresh("p");
            sig.push(format!("{n}: {}", ty_name(t)));
            self.env.push(Var { name: n, ty: t, live: true, mutable: false });
            params.push(t);
        }
        self.line(if method_of.is_some() { 1 } else { 0 }, &format!("fn {name}({}) -> felt252 {{", sig.join(", ")));
        let d = if method_of.is_some() { 2 } else { 1 };
        self.line(d, "let mut acc = a;");
        self.stmts(d, budget);
        if !self.diverged {
            self.discharge(d, 0, &[], true, false);
            self.line(d, "acc");
        }
        self.diverged = false;
        self.line(d - 1, "}");
        (name.to_string(), params)
    }
}

pub struct Generated { pub text: String, pub safe_points: usize, pub injected: Option<Inject>, pub shapes: std::collections::BTreeMap<&'static str, usize> }

fn inline_attr(r: u64) -> &'static str {
    match r % 3 { 0 => "", 1 => "#[inline(never)] ", _ => "#[inline(always)] " }
}

/// The per-crate part of the prelude: inline attributes of the hand-written destructors, the
/// aggregates AP / AP2 (PanicDestruct only) and AX (Destruct only) whose hand-written destructors
/// let several members go out of scope implicitly, and small functions that make every
/// destructor reachable.
fn crate_prelude(g: &mut Gen) -> String {
    let mut p = PRELUDE.to_string();
    p = p.replace("{ fn destruct(self: X)", &format!("{{ {}fn destruct(self: X)", inline_attr(g.rng.next())));
    p = p.replace("{ fn panic_destruct(self: Y,", &format!("{{ {}fn panic_destruct(self: Y,", inline_attr(g.rng.next())));
    // members
    let n_ap = 2 + g.rng.below(2) as usize;
    g.ap = (0..n_ap).map(|i| if i == 0 || g.rng.below(3) != 0 { Ty::Y } else { *g.rng.pick(&[Ty::X, Ty::D, Ty::Felt]) }).collect();
    let n_ax = 2 + g.rng.below(2) as usize;
    g.ax = (0..n_ax).map(|i| if i == 0 || g.rng.bool() { Ty::X } else { *g.rng.pick(&[Ty::D, Ty::Felt, Ty::P]) }).collect();
    for (name, ms, tr, f, sig) in [("AP", g.ap.clone(), "PanicDestruct", "panic_destruct", ", ref panic: Panic"), ("AX", g.ax.clone(), "Destruct", "destruct", "")] {
        let fields: Vec<String> = ms.iter().enumerate().map(|(i, m)| format!("m{i}: {}", ty_name(*m))).collect();
        let style = g.rng.below(4);
        if style == 0 {
            p.push_str(&format!("#[derive({tr})]\nstruct {name} {{ {} }}\n", fields.join(", ")));
        } else {
            p.push_str(&format!("struct {name} {{ {} }}\n", fields.join(", ")));
            // some members are consumed explicitly, the others go out of scope implicitly
            let mut pats = vec![];
            let mut body = String::new();
            for (i, m) in ms.iter().enumerate() {
                if style == 3 && g.rng.bool() && *m != Ty::Felt {
                    pats.push(format!("m{i}"));
                    body.push_str(&format!(" let _r{i} = {};", eat(*m, &format!("m{i}"))));
                } else {
                    pats.push(format!("m{i}: _"));
                }
            }
            p.push_str(&format!("impl {name}{tr} of {tr}<{name}> {{ {}fn {f}(self: {name}{sig}) nopanic {{ let {name} {{ {} }} = self;{body} }} }}\n",
                inline_attr(g.rng.next()), pats.join(", ")));
        }
        let names: Vec<String> = (0..ms.len()).map(|i| format!("m{i}")).collect();
        let eats: Vec<String> = ms.iter().enumerate().map(|(i, m)| eat(*m, &format!("m{i}"))).collect();
        let mut e = "0".to_string();
        for x in eats.iter().rev() { e = format!("mix({x}, {e})"); }
        p.push_str(&format!("fn eat_{}(x: {name}) -> felt252 nopanic {{ let {name} {{ {} }} = x; {e} }}\n", name.to_lowercase(), names.join(", ")));
    }
    // nested aggregate
    p.push_str("struct AP2 { p: AP, q: AP, k: felt252 }\n");
    p.push_str(&format!("impl AP2PanicDestruct of PanicDestruct<AP2> {{ {}fn panic_destruct(self: AP2, ref panic: Panic) nopanic {{ let AP2 {{ p: _, q: _, k: _ }} = self; }} }}\n", inline_attr(g.rng.next())));
    p.push_str("fn ex_ap_panic(v: AP) -> felt252 { core::panic_with_felt252('e') }\n");
    p.push_str("fn ex_ap_call(v: AP, a: felt252) -> felt252 { let r = may_panic(a); mix(r, eat_ap(v)) }\n");
    p.push_str("fn ex_ap2_panic(v: AP2, a: felt252) -> felt252 { if nz(a) { core::panic_with_felt252('e'); } let AP2 { p, q, k } = v; mix(eat_ap(p), mix(eat_ap(q), k)) }\n");
    p.push_str("fn ex_ax_ret(v: AX) -> felt252 { 5 }\n");
    p.push_str("fn ex_ax_call(v: AX, a: felt252) -> felt252 { may_panic(a) }\n");
    p.push_str("fn ex_ax_branch(v: AX, a: felt252) -> felt252 { if nz(a) { eat_ax(v) } else { 3 } }\n");
    p
}

/// A function that captures / carries a value without Drop, Destruct or PanicDestruct through a
/// loop or a recursion whose body is nopanic: legal without gas, a missing drop on the
/// out-of-gas panic path when the compiler adds withdraw_gas.
fn gas_violation(g: &mut Gen) -> String {
    let t = *g.irng.pick(&[Ty::N, Ty::EN, Ty::W]);
    let k = g.irng.below(4);
    let e = eat(t, "z");
    let tn = ty_name(t);
    let (text, what) = match k {
        0 => (format!("fn zgas(a: felt252, z: {tn}) -> felt252 {{\n    let mut s = a;\n    let mut r = 0;\n    loop {{\n        if nz(s) {{ r = {e}; break; }}\n        s = mix(1, s);\n    }};\n    r\n}}\n"),
              "captured by a loop with a nopanic body, consumed on the exit path"),
        1 => (format!("fn zgas(a: felt252, z: {tn}) -> felt252 {{\n    let mut s = a;\n    loop {{\n        match s {{\n            0 => {{ s = mix(1, s); }},\n            _ => {{ break {e}; }},\n        }}\n    }}\n}}\n"),
              "captured by a loop that matches on its state, consumed by the break value"),
        2 => (format!("fn zgas(a: felt252, z: {tn}) -> felt252 {{\n    let mut s = a;\n    while !nz(s) {{\n        s = mix(1, s);\n        let _p = @z;\n    }};\n    {e}\n}}\n"),
              "snapshotted inside a while loop with a nopanic body, consumed after it"),
        _ => (format!("fn zgas(z: {tn}, s: felt252) -> felt252 {{ if nz(s) {{ {e} }} else {{ zgas(z, mix(1, s)) }} }}\n"),
              "parameter of a recursive function with a nopanic body"),
    };
    g.injected = Some(Inject::MissingDropOutOfGas(format!("{tn} {what}")));
    text
}

/// Generates the crate for `seed`.  `plan` injects a violation (at the k-th reachable point).
pub fn generate(seed: u64, plan: Option<Plan>, budget: usize) -> Generated {
    let mut g = Gen::scratch(seed);
    g.plan = plan;
    g.irng = Rng(seed.wrapping_mul(0x9E37) ^ match plan { None => 0, Some(Plan::Uam(k)) => 2 * k as u64 + 1, Some(Plan::Md(k)) => 2 * k as u64 + 2, Some(Plan::Gas) => 0x6a5 });
    let pre = crate_prelude(&mut g);
    g.out.push_str(&pre);
    if plan == Some(Plan::Gas) { let t = gas_violation(&mut g); g.out.push_str(&t); }
    let (_, p0) = g.function("f0", None, budget);
    let meth = g.rng.bool();
    let mut p1 = vec![];
    if meth {
        g.line(0, "#[generate_trait]");
        g.line(0, "impl DImpl of DTrait {");
        p1 = g.function("meth", Some(Ty::D), budget).1;
        g.line(0, "}");
    }
    // a driver so that everything is reachable from a non-generic free function
    // constructor expressions that are calls are evaluated first: no value without Drop may be
    // live across a panicable call
    fn args(g: &mut Gen, ps: &[Ty], pre: &mut Vec<String>) -> String {
        let mut v = vec!["1".to_string()];
        for t in ps {
            let c = g.ctor(*t);
            if ctor_calls(*t) {
                let n = g.fresh("g");
                pre.push(format!("let {n} = {c};"));
                v.push(n);
            } else {
                v.push(c);
            }
        }
        v.join(", ")
    }
    let mut pre = vec![];
    let a0 = args(&mut g, &p0, &mut pre);
    let a1 = if meth { args(&mut g, &p1, &mut pre) } else { String::new() };
    g.line(0, "fn drv() -> felt252 {");
    for l in &pre { g.line(1, l); }
    g.line(1, &format!("let r0 = f0({a0});"));
    if meth {
        g.line(1, "let d = D { a: 1, b: 2 };");
        g.line(1, &format!("let r1 = d.meth({a1});"));
        g.line(1, "r0 + r1");
    } else {
        g.line(1, "r0");
    }
    g.line(0, "}");
    Generated { text: g.out, safe_points: g.safe_points, injected: g.injected, shapes: g.shapes }
}

/// A violation (or, kind 0, a benign body) as a function body over the crate prelude, to be
/// placed in every kind of function body the compiler lowers (place.rs).
pub struct Snip { pub prelude: String, pub params: String, pub body: String, pub inject: Option<Inject> }
pub fn snippet(seed: u64, kind: u8) -> Snip {
    let mut g = Gen::scratch(seed);
    let prelude = crate_prelude(&mut g);
    g.irng = Rng(seed.wrapping_mul(0x51ab) ^ kind as u64);
    match kind {
        3 => {
            let t = gas_violation(&mut g);
            let open = t.find('(').unwrap();
            let sig_end = t.find(") -> felt252 {").unwrap();
            let close = t.rfind('}').unwrap();
            Snip { prelude, params: t[open + 1..sig_end].to_string(), body: t[sig_end + ") -> felt252 {".len()..close].to_string(), inject: g.injected }
        }
        _ => {
            g.out.clear();
            g.line(1, "let mut acc = a;");
            let head = g.out.clone();
            g.out.clear();
            if kind == 1 { g.inject_uam(1); } else if kind == 2 { g.inject_md(1); } else { g.line(1, "acc = mix(acc, peek_d(@D { a: 1, b: 2 }));"); }
            // head / tail are kept apart so that a loop can be put around the snippet
            Snip { prelude, params: "a: felt252".to_string(), body: format!("{head}//SNIP\n{}//SNIP\n    acc\n", g.out), inject: g.injected }
        }
    }
}
